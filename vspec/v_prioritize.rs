// @unit id=v_prioritize props=C16,C02,C06,C08 tier=quick
// Verus contracts on the real bodies of the send-capacity machinery, extracted on every run:
//   src/proto/streams/flow_control.rs  (all of it, incl. the usize comparison impls of Window)
//   src/proto/streams/stream.rs        Stream::{capacity, assign_capacity, send_data, notify_capacity, notify_send, is_send_ready}
//   src/proto/streams/prioritize.rs    Prioritize::{try_assign_capacity, reserve_capacity, reclaim_all_capacity,
//                                      reclaim_reserved_capacity, recv_stream_window_update, schedule_send}
// This is MODULAR: a caller is checked against its callees' contracts, not their bodies; every callee whose
// body is in this file is itself verified here; the others are listed as `external_body` assumptions.
use vstd::prelude::*;
use vstd::std_specs::cmp::*;
use std::cmp::{self, Ordering};
use std::mem;

verus! {

//@include flow.inc

//@include frames.inc

//@include state.inc

//@include stream_send.inc

// ---- the scheduler's queues: opaque; only the membership flag they set on the stream is specified
// (store::Queue<N>::push sets N::is_queued(stream); verified FIFO behaviour is a separate Kani obligation)
pub struct QueueSend { pub ghost_len: usize }
pub struct QueueCapacity { pub ghost_len: usize }
pub struct QueueOpen { pub ghost_len: usize }

impl QueueSend {
    #[verifier::external_body]
    pub fn push(&mut self, stream: &mut Stream) -> (r: bool)
        requires !old(stream).is_pending_open,   // the debug_assert in NextSend::set_queued
        ensures *final(stream) == (Stream { is_pending_send: true, ..*old(stream) }),
    { unimplemented!() }
}
impl QueueCapacity {
    #[verifier::external_body]
    pub fn push(&mut self, stream: &mut Stream) -> (r: bool)
        ensures *final(stream) == (Stream { is_pending_send_capacity: true, ..*old(stream) }),
    { unimplemented!() }
}

pub struct Counts { pub tag: u8 }

#[derive(PartialEq, Eq, Structural, Clone, Copy, Debug)]
pub enum UserError {
    InactiveStreamId,
    UnexpectedFrameType,
    PayloadTooBig,
    Other(u8),
}
use UserError::*;

// ---- the stream store, abstractly.
// `store::Ptr` is a (key, &mut Store) pair; Verus cannot return `&mut` into a container, so a Ptr handed out by
// `Queue::pop` is modelled as the OWNED stream taken out of the store, and the store keeps, as ghost state, the
// sum of the send capacity assigned to the streams still inside (`others`).  Where the real code lets a Ptr go
// out of scope (`continue`) or consumes it (`Counts::transition_after`), the stream returns to the store:
// `Store::put_back` is inserted by listed substitutions before each `continue`; it REQUIRES the stream
// invariant again, which is what turns "every path leaves the stream well-formed" into proof obligations.
pub struct Store { pub others: Ghost<int> }

/// I-cap / I-send-pool for one stream, as kept by every function of send.rs / prioritize.rs:
///   0 <= assigned <= max(window, 0), assigned <= requested,
///   a stream whose send half is closed keeps capacity only for data that is still buffered
///   (so: closed and flushed  ==>  assigned == 0 — nothing leaks when the stream is forgotten).
pub open spec fn stream_inv(s: Stream) -> bool {
    &&& wf_send(s)
    // I-cap for a closed send half: it keeps capacity only for data still buffered (so: closed and flushed ==> nothing
    // assigned — nothing leaks when the stream is forgotten), and unless its data is about to be discarded it asks
    // for no more than that data
    &&& s.state.send_closed() ==> (s.buffered_send_data == 0 ==> s.send_flow.a() == 0)
    &&& s.state.send_closed() ==> (s.state.scheduled_discard() || s.buffered_send_data == 0 || s.requested_send_capacity <= s.buffered_send_data)
    &&& s.buffered_send_data <= 0xff_ffff_ffff     // memory-bounded; keeps the usize/u32 arithmetic of the bodies exact
    // buffered_send_data accounts for (at least) every queued DATA byte; the rest is the tail of a frame the
    // codec is writing
    &&& queued_bytes(s.pending_send@) <= s.buffered_send_data
    // a stream waits for a concurrency slot OR for its PUSH_PROMISE, never both (Send::send_headers)
    &&& !(s.is_pending_open && s.is_pending_push)
}

impl Store {
    pub open spec fn sum(self) -> int { self.others@ }

    #[verifier::external_body]
    pub fn put_back(&mut self, stream: Stream)
        requires stream_inv(stream),
        ensures final(self).sum() == old(self).sum() + stream.send_flow.a(),
    { unimplemented!() }
}

impl QueueSend {
    /// store::Queue<NextSend>::pop: the head of the list, un-flagged; None iff the list is empty.
    #[verifier::external_body]
    pub fn pop(&mut self, store: &mut Store) -> (r: Option<Stream>)
        requires old(store).sum() >= 0,
        ensures
            match r {
                Some(s) => stream_inv(s) && !s.is_pending_send && !s.is_pending_open && !s.is_pending_push
                    && 0 <= s.send_flow.a() <= old(store).sum() && final(store).sum() == old(store).sum() - s.send_flow.a()
                    // I-sched (ASSUMED, kept by every site that pushes onto pending_send or empties a queue): a stream
                    // waits on pending_send only with frames queued, with a reset scheduled, or after its queue was
                    // cleared by a reset/error (then it is closed)
                    && ((s.pending_send@.len() == 0 && s.state.scheduled() is None) ==> s.state.closed()),
                None => final(store).sum() == old(store).sum(),
            },
    { unimplemented!() }
}

impl QueueSend {
    /// The same `pop`, called while no DATA frame is inside the codec (`in_flight_data_frame == Nothing`, the
    /// precondition of pop_frame): then every buffered byte of every stream is in its queue (ASSUMED store-wide
    /// consequence of I-cap: buffered_send_data == queued bytes + the in-flight tail).
    #[verifier::external_body]
    pub fn pop_idle(&mut self, store: &mut Store) -> (r: Option<Stream>)
        requires old(store).sum() >= 0,
        ensures
            match r {
                Some(s) => stream_inv(s) && !s.is_pending_send && !s.is_pending_open && !s.is_pending_push
                    && 0 <= s.send_flow.a() <= old(store).sum() && final(store).sum() == old(store).sum() - s.send_flow.a()
                    && ((s.pending_send@.len() == 0 && s.state.scheduled() is None) ==> s.state.closed())
                    && queued_bytes(s.pending_send@) == s.buffered_send_data,
                None => final(store).sum() == old(store).sum(),
            },
    { unimplemented!() }
}

impl QueueCapacity {
    /// store::Queue<NextSendCapacity>::pop
    #[verifier::external_body]
    pub fn pop(&mut self, store: &mut Store) -> (r: Option<Stream>)
        requires old(store).sum() >= 0,
        ensures
            match r {
                Some(s) => stream_inv(s) && !s.is_pending_send_capacity
                    && 0 <= s.send_flow.a() <= old(store).sum() && final(store).sum() == old(store).sum() - s.send_flow.a(),
                None => final(store).sum() == old(store).sum(),
            },
    { unimplemented!() }
}

impl QueueOpen {
    #[verifier::external_body]
    pub fn push(&mut self, stream: &mut Stream) -> (r: bool)
        requires !old(stream).is_pending_send,   // the debug_assert in NextOpen::set_queued
        ensures *final(stream) == (Stream { is_pending_open: true, ..*old(stream) }),
    { unimplemented!() }
}

impl Counts {
    /// Counts::transition_after consumes the Ptr: the stream goes back to the store (or is forgotten when
    /// released).  ASSUMED contract here; the real body is verified by the Kani harness counts_transition_after.
    /// The precondition is the capacity-leak obligation: a stream that is about to be forgotten holds no capacity.
    #[verifier::external_body]
    pub fn transition_after(&mut self, stream: Stream, is_reset_counted: bool, store: &mut Store)
        requires
            stream_inv(stream),
            stream.released() ==> stream.send_flow.a() == 0,
        ensures final(store).sum() == old(store).sum() + stream.send_flow.a(),
    { unimplemented!() }
}

/// The non-DATA arm of pop_frame: `frame.map(|_| unreachable!())` only changes the payload type parameter.
pub fn map_non_data(f: QFrame) -> (r: Frame<Prioritized>)
    requires !(f is Data),
    ensures
        match f {
            Frame::Headers(h) => r == Frame::<Prioritized>::Headers(h),
            Frame::PushPromise(p) => r == Frame::<Prioritized>::PushPromise(p),
            Frame::Reset(x) => r == Frame::<Prioritized>::Reset(x),
            Frame::Other(k) => r == Frame::<Prioritized>::Other(k),
            Frame::Data(_) => false,
        },
{
    match f {
        Frame::Headers(h) => Frame::Headers(h),
        Frame::PushPromise(p) => Frame::PushPromise(p),
        Frame::Reset(x) => Frame::Reset(x),
        Frame::Other(k) => Frame::Other(k),
        Frame::Data(_) => { assert(false); Frame::Other(0) }
    }
}

#[derive(PartialEq, Eq, Structural, Clone, Copy, Debug)]
pub enum InFlightData {
    Nothing,
    DataFrame(Key),
    Drop,
}

pub struct Prioritize {
    pub pending_send: QueueSend,
    pub pending_capacity: QueueCapacity,
    pub pending_open: QueueOpen,
    pub flow: FlowControl,
    pub last_opened_id: StreamId,
    pub in_flight_data_frame: InFlightData,
    pub max_buffer_size: usize,
}

/// `frame.map(|buf| Prioritized { inner: buf.take(len), end_of_stream: eos, stream: key })` of pop_frame
/// (Data::map + bytes::Buf::take): the payload is limited to `len` bytes, nothing is consumed yet.
pub fn wrap_prioritized(f: frame::Data<Payload>, len: usize, eos: bool, key: Key) -> (r: frame::Data<Prioritized>)
    ensures
        r.stream_id == f.stream_id && r.eos == f.eos,
        r.data == (Prioritized { inner_rem: f.data.rem, limit: len, end_of_stream: eos, stream: key }),
{
    frame::Data { stream_id: f.stream_id, eos: f.eos, data: Prioritized { inner_rem: f.data.rem, limit: len, end_of_stream: eos, stream: key } }
}

/// `frame.map(|p| { eos = p.end_of_stream; p.inner.into_inner() })` of reclaim_frame_inner: what is left of the
/// payload after the codec wrote (part of) it, and the remembered END_STREAM.
pub fn unwrap_prioritized(f: frame::Data<Prioritized>) -> (r: (frame::Data<Payload>, bool))
    ensures
        r.0.stream_id == f.stream_id && r.0.eos == f.eos && r.0.data.rem == f.data.inner_rem,
        r.1 == f.data.end_of_stream,
{
    (frame::Data { stream_id: f.stream_id, eos: f.eos, data: Payload { rem: f.data.inner_rem } }, f.data.end_of_stream)
}

/// I-cap / I-send-pool restricted to one stream
pub open spec fn wf_send(s: Stream) -> bool {
    &&& 0 <= s.send_flow.a() <= pos(s.send_flow.w())
    &&& s.send_flow.a() <= s.requested_send_capacity
    &&& s.send_flow.w() <= 0x7fff_ffff
}

pub open spec fn wf_pool(p: Prioritize) -> bool {
    0 <= p.flow.a() <= 0x7fff_ffff
}

pub open spec fn min3(a: int, b: int, c: int) -> int {
    let m = if a < b { a } else { b };
    if m < c { m } else { c }
}

impl Prioritize {
    // assign_connection_capacity<R: Resolve> has two instantiations.  R = Store is VERIFIED below (unbounded number of
    // waiting streams).  R = store::Ptr (the resolver is the caller's own stream, which may itself be on
    // pending_capacity and be popped and served by the loop) is the same body, but this aliasing cannot be expressed in
    // the owned-stream model: for it the following contract is ASSUMED, restricted to the pool and that one stream:
    // the new capacity is either still in the pool, or assigned to this stream (within its request and its
    // window), or assigned to other streams (`to_others >= 0`).
    #[verifier::external_body]
    pub fn assign_connection_capacity_via_ptr(&mut self, inc: WindowSize, store: &mut Stream, counts: &mut Counts) -> (to_others: Ghost<int>)
        requires
            sz_ok(inc),
            wf_pool(*old(self)),
            old(self).flow.a() + inc + old(store).send_flow.a() <= 0x7fff_ffff,
            0 <= old(store).send_flow.a(),
        ensures
            to_others@ >= 0,
            final(self).flow.w() == old(self).flow.w(),
            final(self).max_buffer_size == old(self).max_buffer_size,
            final(store).send_flow.w() == old(store).send_flow.w(),
            final(self).flow.a() + final(store).send_flow.a() + to_others@ == old(self).flow.a() + inc + old(store).send_flow.a(),
            final(self).flow.a() >= 0,
            final(store).send_flow.a() >= old(store).send_flow.a(),
            final(store).send_flow.a() > old(store).send_flow.a() ==> final(store).send_flow.a() <= final(store).requested_send_capacity && final(store).send_flow.a() <= pos(final(store).send_flow.w())
                && (old(store).state.send_streaming() || old(store).buffered_send_data > 0),
            final(store).requested_send_capacity == old(store).requested_send_capacity,
            final(store).buffered_send_data == old(store).buffered_send_data,
            final(store).state == old(store).state,
            final(store).pending_send == old(store).pending_send && final(store).key == old(store).key && final(store).id == old(store).id,
            final(store).is_pending_open == old(store).is_pending_open && final(store).is_pending_push == old(store).is_pending_push,
            final(self).in_flight_data_frame == old(self).in_flight_data_frame,
    { unimplemented!() }

    //@extract src/proto/streams/prioritize.rs Prioritize::schedule_send
    //@subst stream: &mut store::Ptr=>stream: &mut Stream
    //@spec     ensures
    //@spec         // queued and the connection task woken iff the stream may send
    //@spec         old(stream).is_pending_open || old(stream).is_pending_push ==> *final(stream) == *old(stream) && *final(task) == *old(task),
    //@spec         !old(stream).is_pending_open && !old(stream).is_pending_push ==> *final(stream) == (Stream { is_pending_send: true, ..*old(stream) }) && *final(task) is None,
    //@spec         final(self).flow == old(self).flow && final(self).in_flight_data_frame == old(self).in_flight_data_frame && final(self).max_buffer_size == old(self).max_buffer_size,
    //@end

    //@extract src/proto/streams/prioritize.rs Prioritize::try_assign_capacity
    //@subst stream: &mut store::Ptr=>stream: &mut Stream
    //@subst cmp::min(=>min_u32(
    //@subst let _res = self.flow.claim_capacity(assign);=>let _res = self.flow.claim_capacity(assign); assert(_res.is_ok());
    //@spec     requires
    //@spec         wf_send(*old(stream)),
    //@spec         wf_pool(*old(self)),
    //@spec         !(old(stream).is_pending_open && old(stream).is_pending_push),
    //@spec     ensures
    //@spec         wf_send(*final(stream)) && wf_pool(*final(self)),
    //@spec         // windows untouched, nothing taken away, pool conserved
    //@spec         final(stream).send_flow.w() == old(stream).send_flow.w() && final(self).flow.w() == old(self).flow.w(),
    //@spec         final(stream).send_flow.a() >= old(stream).send_flow.a(),
    //@spec         final(self).flow.a() + final(stream).send_flow.a() == old(self).flow.a() + old(stream).send_flow.a(),
    //@spec         final(self).max_buffer_size == old(self).max_buffer_size,
    //@spec         // nothing for a stream still waiting for a concurrency slot
    //@spec         old(stream).is_pending_open ==> *final(stream) == *old(stream),
    //@spec         // a stream that wants capacity, whose window has room, gets min(lacking, room, pool)
    //@spec         (!old(stream).is_pending_open && (old(stream).state.send_streaming() || old(stream).buffered_send_data > 0)) ==>
    //@spec             final(stream).send_flow.a() - old(stream).send_flow.a() == pos(min3(
    //@spec                 old(stream).requested_send_capacity - old(stream).send_flow.a(),
    //@spec                 pos(old(stream).send_flow.w()) - old(stream).send_flow.a(),
    //@spec                 old(self).flow.a())),
    //@spec         // what it still lacks although its window has room is queued for (owed-work-is-queued)
    //@spec         (!old(stream).is_pending_open && (old(stream).state.send_streaming() || old(stream).buffered_send_data > 0)
    //@spec           && final(stream).send_flow.a() < final(stream).requested_send_capacity && final(stream).send_flow.w() > final(stream).send_flow.a()
    //@spec           && old(stream).requested_send_capacity > old(stream).send_flow.a() && pos(old(stream).send_flow.w()) > old(stream).send_flow.a())
    //@spec             ==> final(stream).is_pending_send_capacity,
    //@spec         // the sender is woken when its reported capacity grew
    //@spec         final(stream).cap(final(self).max_buffer_size) > old(stream).cap(old(self).max_buffer_size) ==> final(stream).send_task is None && final(stream).send_capacity_inc,
    //@spec         // frame: only the assigned capacity, the queue flags and the sender's notification change
    //@spec         *final(stream) == (Stream { send_flow: final(stream).send_flow, send_task: final(stream).send_task, send_capacity_inc: final(stream).send_capacity_inc,
    //@spec             is_pending_send: final(stream).is_pending_send, is_pending_send_capacity: final(stream).is_pending_send_capacity, ..*old(stream) }),
    //@spec         final(self).in_flight_data_frame == old(self).in_flight_data_frame,
    //@end

    //@extract src/proto/streams/prioritize.rs Prioritize::reclaim_all_capacity
    //@subst self.assign_connection_capacity(available, stream, counts);=>self.assign_connection_capacity_via_ptr(available, stream, counts);
    //@subst stream: &mut store::Ptr=>stream: &mut Stream
    //@subst let _res = stream.send_flow.claim_capacity(available);=>let _res = stream.send_flow.claim_capacity(available); assert(_res.is_ok());
    //@spec     requires
    //@spec         0 <= old(stream).send_flow.a() && wf_pool(*old(self)),
    //@spec         old(self).flow.a() + old(stream).send_flow.a() <= 0x7fff_ffff,
    //@spec     ensures
    //@spec         final(stream).send_flow.w() == old(stream).send_flow.w() && final(self).flow.w() == old(self).flow.w(),
    //@spec         final(self).max_buffer_size == old(self).max_buffer_size && final(self).in_flight_data_frame == old(self).in_flight_data_frame,
    //@spec         // everything the stream held is back in the pool or assigned onwards: nothing leaks, nothing is created
    //@spec         final(self).flow.a() + final(stream).send_flow.a() <= old(self).flow.a() + old(stream).send_flow.a(),
    //@spec         final(self).flow.a() >= 0 && final(stream).send_flow.a() >= 0,
    //@spec         // it holds nothing afterwards, unless it still wants capacity and got some of it straight back
    //@spec         final(stream).send_flow.a() == 0 || (final(stream).send_flow.a() <= final(stream).requested_send_capacity && final(stream).send_flow.a() <= pos(final(stream).send_flow.w())),
    //@spec         final(stream).requested_send_capacity == old(stream).requested_send_capacity && final(stream).buffered_send_data == old(stream).buffered_send_data
    //@spec             && final(stream).state == old(stream).state && final(stream).pending_send == old(stream).pending_send && final(stream).key == old(stream).key
    //@spec             && final(stream).id == old(stream).id && final(stream).is_pending_open == old(stream).is_pending_open && final(stream).is_pending_push == old(stream).is_pending_push,
    //@end

    //@extract src/proto/streams/prioritize.rs Prioritize::reclaim_reserved_capacity
    //@subst self.assign_connection_capacity(reserved, stream, counts);=>self.assign_connection_capacity_via_ptr(reserved, stream, counts);
    //@subst stream: &mut store::Ptr=>stream: &mut Stream
    //@subst_re stream\s*\.send_flow\s*\.claim_capacity\(reserved\)\s*\.expect\("window size should be greater than reserved"\);=>let _r = stream.send_flow.claim_capacity(reserved); assert(_r.is_ok());
    //@spec     requires
    //@spec         wf_send(*old(stream)) && wf_pool(*old(self)),
    //@spec         old(self).flow.a() + old(stream).send_flow.a() <= 0x7fff_ffff,
    //@spec     ensures
    //@spec         final(stream).send_flow.w() == old(stream).send_flow.w() && final(self).flow.w() == old(self).flow.w(),
    //@spec         final(self).flow.a() + final(stream).send_flow.a() <= old(self).flow.a() + old(stream).send_flow.a(),
    //@spec         final(self).flow.a() >= 0,
    //@spec         // capacity needed for data that is already buffered is kept
    //@spec         final(stream).send_flow.a() >= (if old(stream).send_flow.a() <= old(stream).buffered_send_data { old(stream).send_flow.a() } else { old(stream).buffered_send_data as int }),
    //@end

    //@extract src/proto/streams/prioritize.rs Prioritize::reserve_capacity
    //@subst self.assign_connection_capacity(diff, stream, counts);=>self.assign_connection_capacity_via_ptr(diff, stream, counts);
    //@subst stream: &mut store::Ptr=>stream: &mut Stream
    //@subst let _res = stream.send_flow.claim_capacity(diff);=>let _res = stream.send_flow.claim_capacity(diff); assert(_res.is_ok());
    //@subst cmp::min(capacity, WindowSize::MAX as usize)=>min_usize(capacity, WindowSize::MAX as usize)
    //@spec     requires
    //@spec         wf_send(*old(stream)) && wf_pool(*old(self)),
    //@spec         old(self).flow.a() + old(stream).send_flow.a() <= 0x7fff_ffff,
    //@spec         old(stream).buffered_send_data <= 0xff_ffff_ffff,
    //@spec         !(old(stream).is_pending_open && old(stream).is_pending_push),
    //@spec     ensures
    //@spec         final(stream).send_flow.w() == old(stream).send_flow.w() && final(self).flow.w() == old(self).flow.w(),
    //@spec         final(self).in_flight_data_frame == old(self).in_flight_data_frame && final(self).max_buffer_size == old(self).max_buffer_size,
    //@spec         final(stream).state == old(stream).state && final(stream).pending_send == old(stream).pending_send
    //@spec             && final(stream).is_pending_open == old(stream).is_pending_open && final(stream).is_pending_push == old(stream).is_pending_push
    //@spec             && final(stream).key == old(stream).key && final(stream).id == old(stream).id,
    //@spec         wf_send(*final(stream)) && wf_pool(*final(self)),
    //@spec         // nothing is created: pool + this stream never grows (what is missing went to other streams)
    //@spec         final(self).flow.a() + final(stream).send_flow.a() <= old(self).flow.a() + old(stream).send_flow.a(),
    //@spec         final(self).flow.a() >= 0 && final(stream).send_flow.a() >= 0,
    //@spec         final(stream).buffered_send_data == old(stream).buffered_send_data,
    //@spec         // the recorded request: n + buffered (capped), except that raising on a closed send half is a no-op
    //@spec         capacity + old(stream).buffered_send_data < old(stream).requested_send_capacity ==> final(stream).requested_send_capacity == capacity + old(stream).buffered_send_data,
    //@spec         capacity + old(stream).buffered_send_data > old(stream).requested_send_capacity && old(stream).state.send_closed() ==> *final(stream) == *old(stream) && final(self).flow == old(self).flow,
    //@spec         capacity + old(stream).buffered_send_data > old(stream).requested_send_capacity && !old(stream).state.send_closed() ==>
    //@spec             final(stream).requested_send_capacity == (if capacity + old(stream).buffered_send_data > u32::MAX { u32::MAX as int } else { capacity + old(stream).buffered_send_data }),
    //@spec         capacity + old(stream).buffered_send_data == old(stream).requested_send_capacity ==> *final(stream) == *old(stream) && final(self).flow == old(self).flow,
    //@end

    //@extract src/proto/streams/prioritize.rs Prioritize::recv_stream_window_update
    //@subst stream: &mut store::Ptr=>stream: &mut Stream
    //@ret r
    //@spec     requires
    //@spec         sz_ok(inc) && inc >= 1,
    //@spec         wf_send(*old(stream)) && wf_pool(*old(self)),
    //@spec         !(old(stream).is_pending_open && old(stream).is_pending_push),
    //@spec     ensures
    //@spec         final(self).flow.w() == old(self).flow.w(),
    //@spec         final(self).flow.a() + final(stream).send_flow.a() == old(self).flow.a() + old(stream).send_flow.a(),
    //@spec         // a stream that can never send again ignores the update
    //@spec         old(stream).state.send_closed() && old(stream).buffered_send_data == 0 ==> r.is_ok() && *final(stream) == *old(stream),
    //@spec         !(old(stream).state.send_closed() && old(stream).buffered_send_data == 0) ==> (
    //@spec             if old(stream).send_flow.w() + inc > 0x7fff_ffff {
    //@spec                 r == Err::<(), Reason>(Reason::FLOW_CONTROL_ERROR) && *final(stream) == *old(stream)
    //@spec             } else {
    //@spec                 r.is_ok() && final(stream).send_flow.w() == old(stream).send_flow.w() + inc && wf_send(*final(stream))
    //@spec             }),
    //@end

    //@extract src/proto/streams/prioritize.rs Prioritize::queue_frame
    //@subst queue_frame<B>(=>queue_frame(
    //@subst frame: Frame<B>=>frame: QFrame
    //@subst buffer: &mut Buffer<Frame<B>>=>buffer: &mut Buffer
    //@subst stream: &mut store::Ptr=>stream: &mut Stream
    //@spec     ensures
    //@spec         // exactly this frame, at the BACK of this stream's queue
    //@spec         final(stream).pending_send@ == old(stream).pending_send@.push(frame),
    //@spec         // scheduled, and the connection task woken, iff the stream may send
    //@spec         final(stream).is_pending_send == (old(stream).is_pending_send || (!old(stream).is_pending_open && !old(stream).is_pending_push)),
    //@spec         !old(stream).is_pending_open && !old(stream).is_pending_push ==> *final(task) is None,
    //@spec         old(stream).is_pending_open || old(stream).is_pending_push ==> *final(task) == *old(task),
    //@spec         final(stream).send_flow == old(stream).send_flow && final(stream).state == old(stream).state
    //@spec             && final(stream).buffered_send_data == old(stream).buffered_send_data && final(stream).requested_send_capacity == old(stream).requested_send_capacity
    //@spec             && final(stream).is_pending_open == old(stream).is_pending_open && final(stream).is_pending_push == old(stream).is_pending_push,
    //@spec         final(self).flow == old(self).flow,
    //@end

    //@extract src/proto/streams/prioritize.rs Prioritize::push_back_frame
    //@subst push_back_frame<B>(=>push_back_frame(
    //@subst frame: Frame<B>=>frame: QFrame
    //@subst buffer: &mut Buffer<Frame<B>>=>buffer: &mut Buffer
    //@subst stream: &mut store::Ptr=>stream: &mut Stream
    //@spec     requires !old(stream).is_pending_open,   // a stream whose DATA was in the codec has been opened
    //@spec     ensures
    //@spec         // the frame goes to the FRONT: it is sent before everything queued later
    //@spec         final(stream).pending_send@ == seq![frame] + old(stream).pending_send@,
    //@spec         old(stream).send_flow.a() > 0 ==> final(stream).is_pending_send,
    //@spec         final(stream).send_flow == old(stream).send_flow && final(stream).state == old(stream).state
    //@spec             && final(stream).buffered_send_data == old(stream).buffered_send_data,
    //@spec         final(self).flow == old(self).flow && final(self).in_flight_data_frame == old(self).in_flight_data_frame,
    //@end

    //@extract src/proto/streams/prioritize.rs Prioritize::clear_queue
    //@subst clear_queue<B>(=>clear_queue(
    //@subst buffer: &mut Buffer<Frame<B>>=>buffer: &mut Buffer
    //@subst stream: &mut store::Ptr=>stream: &mut Stream
    //@spec     ensures
    //@spec         final(stream).pending_send@.len() == 0,
    //@spec         final(stream).buffered_send_data == 0 && final(stream).requested_send_capacity == 0,
    //@spec         final(stream).send_flow == old(stream).send_flow && final(stream).state == old(stream).state && final(stream).key == old(stream).key
    //@spec             && final(stream).is_pending_open == old(stream).is_pending_open && final(stream).is_pending_push == old(stream).is_pending_push
    //@spec             && final(stream).is_pending_send == old(stream).is_pending_send && final(stream).is_pending_send_capacity == old(stream).is_pending_send_capacity
    //@spec             && final(stream).send_task == old(stream).send_task && final(stream).id == old(stream).id && final(stream).ref_count == old(stream).ref_count
    //@spec             && final(stream).is_counted == old(stream).is_counted && final(stream).send_capacity_inc == old(stream).send_capacity_inc,
    //@spec         final(self).flow == old(self).flow,
    //@spec         // a DATA frame of THIS stream that is inside the codec must not be re-queued when it comes back
    //@spec         final(self).in_flight_data_frame == (if old(self).in_flight_data_frame == InFlightData::DataFrame(old(stream).key) { InFlightData::Drop } else { old(self).in_flight_data_frame }),
    //@loop 0     invariant
    //@loop 0         stream.send_flow == old(stream).send_flow && stream.state == old(stream).state && stream.key == old(stream).key,
    //@loop 0         stream.is_pending_open == old(stream).is_pending_open && stream.is_pending_push == old(stream).is_pending_push,
    //@loop 0         stream.is_pending_send == old(stream).is_pending_send && stream.is_pending_send_capacity == old(stream).is_pending_send_capacity,
    //@loop 0         stream.send_task == old(stream).send_task && stream.id == old(stream).id && stream.ref_count == old(stream).ref_count,
    //@loop 0         stream.is_counted == old(stream).is_counted && stream.send_capacity_inc == old(stream).send_capacity_inc,
    //@loop 0         *self == *old(self),
    //@loop 0     ensures stream.pending_send@.len() == 0,
    //@loop 0     decreases stream.pending_send@.len(),
    //@end

    //@extract src/proto/streams/prioritize.rs Prioritize::reclaim_frame_inner
    //@subst reclaim_frame_inner<B>(=>reclaim_frame_inner(
    //@subst buffer: &mut Buffer<Frame<B>>=>buffer: &mut Buffer
    //@subst store: &mut Store=>store: &mut Stream
    //@subst frame: frame::Data<Prioritized<B>>=>frame: frame::Data<Prioritized>
    //@subst_re \)\s*->\s*bool\s*where\s*B:\s*Buf,=>) -> bool
    //@subst InFlightData::Nothing => panic!("wasn't expecting a frame to reclaim"), ==>> InFlightData::Nothing => { assert(false); return false; }
    //@subst_re let mut frame = frame\.map\(\|prioritized\| \{.*?\}\);=>let (mut frame, e2) = unwrap_prioritized(frame); eos = e2;
    //@subst let mut stream = store.resolve(key);=>
    //@subst self.push_back_frame(frame.into(), buffer, &mut stream);=>self.push_back_frame(Frame::Data(frame), buffer, store);
    //@ret r
    //@spec     requires
    //@spec         // the caller (buffer_pending) recorded which stream's DATA frame it handed to the codec
    //@spec         old(self).in_flight_data_frame != InFlightData::Nothing,
    //@spec         old(self).in_flight_data_frame matches InFlightData::DataFrame(k) ==> k == frame.data.stream,
    //@spec         // `store` resolves that key; a stream whose DATA was in the codec has been opened
    //@spec         old(store).key == frame.data.stream && !old(store).is_pending_open,
    //@spec     ensures
    //@spec         final(self).in_flight_data_frame == InFlightData::Nothing,
    //@spec         final(self).flow == old(self).flow,
    //@spec         // the queue was cleared meanwhile (reset): the frame is dropped, nothing is re-queued
    //@spec         old(self).in_flight_data_frame == InFlightData::Drop ==> !r && *final(store) == *old(store),
    //@spec         // fully written: nothing to re-queue
    //@spec         old(self).in_flight_data_frame != InFlightData::Drop && frame.data.inner_rem == 0 ==> !r && *final(store) == *old(store),
    //@spec         // partially written: the unsent tail goes back to the FRONT of its stream's queue, with the original
    //@spec         // END_STREAM if the queued frame had it
    //@spec         old(self).in_flight_data_frame != InFlightData::Drop && frame.data.inner_rem > 0 ==> r
    //@spec             && final(store).pending_send@.len() == old(store).pending_send@.len() + 1
    //@spec             && final(store).pending_send@.subrange(1, final(store).pending_send@.len() as int) =~= old(store).pending_send@
    //@spec             && (final(store).pending_send@[0] matches Frame::Data(d) && d.data.rem == frame.data.inner_rem
    //@spec                 && d.eos == (frame.eos || frame.data.end_of_stream) && d.stream_id == frame.stream_id)
    //@spec             && final(store).send_flow == old(store).send_flow && final(store).buffered_send_data == old(store).buffered_send_data,
    //@end

    /// The PushPromise arm of pop_frame looks a SECOND stream up in the store (the promised one) and moves it from
    /// "waiting for its PUSH_PROMISE" to pending_send / pending_open.  NOT VERIFIED in this unit: replaced by this
    /// external call (listed substitution); it does not touch the popped stream or any window.
    #[verifier::external_body]
    pub fn release_promised_stream(&mut self, pp: &frame::PushPromise, store: &mut Store, counts: &mut Counts)
        ensures final(self).flow == old(self).flow && final(self).in_flight_data_frame == old(self).in_flight_data_frame
            && final(self).max_buffer_size == old(self).max_buffer_size && final(store).sum() == old(store).sum(),
    { unimplemented!() }

    /// Connection-level invariant (I-send-pool): the unassigned pool plus everything assigned to streams is
    /// backed by the connection window.  `held` = capacity of the stream currently taken out of the store.
    pub open spec fn pool_inv(self, store: Store, held: int) -> bool {
        &&& 0 <= self.flow.a() && store.sum() >= 0
        &&& self.flow.a() + store.sum() + held <= self.flow.w()
        &&& self.flow.w() <= 0x7fff_ffff
    }

    //@extract src/proto/streams/prioritize.rs Prioritize::pop_frame
    //@attr #[verifier::exec_allows_no_decreases_clause]
    //@subst match self.pending_send.pop(store) {=>match self.pending_send.pop_idle(store) {
    //@subst pop_frame<B>(=>pop_frame(
    //@subst buffer: &mut Buffer<Frame<B>>=>buffer: &mut Buffer
    //@subst_re \)\s*->\s*Option<Frame<Prioritized<B>>>\s*where\s*B:\s*Buf,=>) -> (out: Option<Frame<Prioritized>>)
    //@subst cmp::min(=>min_usize(
    //@subst frame.into()=>Frame::Data(frame)
    //@subst cfg!(debug_assertions)=>false
    //@subst assert!(stream.id > self.last_opened_id);=>
    //@subst_re Frame::Data\(frame\.map\(\|buf\| Prioritized \{.*?\}\)\)=>Frame::Data(wrap_prioritized(frame, len, eos, stream.key()))
    //@subst_re Some\(frame\) => frame\.map\(\|_\| \{.*?\}\), ==>> Some(frame) => map_non_data(frame),
    //@subst_re Some\(Frame::PushPromise\(pp\)\) => \{.*?Frame::PushPromise\(pp\)\s*\} ==>> Some(Frame::PushPromise(pp)) => { self.release_promised_stream(&pp, store, counts); Frame::PushPromise(pp) }
    //@subst_re self\.pending_send\.push\(&mut stream\);\s*continue;=>self.pending_send.push(&mut stream); store.put_back(stream); continue;
    //@subst_re stream\.pending_send\.push_front\(buffer, Frame::Data\(frame\)\);\s*continue;=>proof { lemma_queued_push_front(Frame::Data(frame), stream.pending_send@); } stream.pending_send.push_front(buffer, Frame::Data(frame)); store.put_back(stream); continue;
    //@before let frame = match stream.pending_send.pop_front(buffer) {=>proof { if stream.pending_send@.len() > 0 { lemma_queued_first(stream.pending_send@); } }
    //@subst counts.transition_after(stream, is_pending_reset);=>counts.transition_after(stream, is_pending_reset, store);
    //@spec     requires
    //@spec         old(self).pool_inv(*old(store), 0),
    //@spec         16_384 <= max_len <= 0xff_ffff,
    //@spec         // buffer_pending reclaims the frame the codec finished before it asks for the next one
    //@spec         old(self).in_flight_data_frame == InFlightData::Nothing,
    //@spec     ensures
    //@spec         final(self).pool_inv(*final(store), 0),
    //@spec         final(self).in_flight_data_frame == old(self).in_flight_data_frame,
    //@spec         out matches Some(Frame::Data(d)) ==> {
    //@spec             let len = d.data.limit as int;
    //@spec             // C02: what leaves is charged to the connection window exactly, within it, within the max frame size;
    //@spec             // non-empty DATA needs a positive connection window
    //@spec             &&& final(self).flow.w() == old(self).flow.w() - len
    //@spec             &&& len <= max_len && len <= old(self).flow.w()
    //@spec             &&& (len > 0 ==> old(self).flow.w() > 0)
    //@spec             // C01: the piece is the first `len` bytes of the queued payload; END_STREAM only on the last piece
    //@spec             &&& len <= d.data.inner_rem
    //@spec             &&& d.eos == (d.data.end_of_stream && len == d.data.inner_rem)
    //@spec         },
    //@spec         !(out matches Some(Frame::Data(_))) ==> final(self).flow.w() == old(self).flow.w(),
    //@loop 0     invariant
    //@loop 0         self.pool_inv(*store, 0),
    //@loop 0         self.flow.w() == old(self).flow.w(),
    //@loop 0         self.in_flight_data_frame == InFlightData::Nothing && old(self).in_flight_data_frame == InFlightData::Nothing,
    //@loop 0         16_384 <= max_len <= 0xff_ffff,
    //@end

    //@extract src/proto/streams/prioritize.rs Prioritize::send_data
    //@subst send_data<B>(=>send_data(
    //@subst frame: frame::Data<B>=>frame: frame::Data<Payload>
    //@subst buffer: &mut Buffer<Frame<B>>=>buffer: &mut Buffer
    //@subst stream: &mut store::Ptr=>stream: &mut Stream
    //@subst_re \)\s*->\s*Result<\(\), UserError>\s*where\s*B:\s*Buf,=>) -> (r: Result<(), UserError>)
    //@subst cmp::min(=>min_usize(
    //@subst frame.into()=>Frame::Data(frame)
    //@before if frame.is_end_stream() {=>proof { lemma_queued_push(stream.pending_send@, Frame::Data(frame)); }
    //@spec     requires
    //@spec         stream_inv(*old(stream)) && wf_pool(*old(self)),
    //@spec         old(self).flow.a() + old(stream).send_flow.a() <= 0x7fff_ffff,
    //@spec         !(old(stream).is_pending_open && old(stream).is_pending_push),
    //@spec         old(stream).buffered_send_data + frame.data.rem <= 0xff_ffff_ffff,
    //@spec     ensures
    //@spec         // C04/C13: refused unless the send half is streaming; a refusal queues nothing and changes nothing
    //@spec         frame.data.rem > 0x7fff_ffff ==> r == Err::<(), UserError>(UserError::PayloadTooBig),
    //@spec         frame.data.rem <= 0x7fff_ffff && !old(stream).state.send_streaming() ==>
    //@spec             r == Err::<(), UserError>(if old(stream).state.closed() { UserError::InactiveStreamId } else { UserError::UnexpectedFrameType }),
    //@spec         frame.data.rem <= 0x7fff_ffff && old(stream).state.send_streaming() ==> r.is_ok(),
    //@spec         r.is_err() ==> *final(stream) == *old(stream) && final(self).flow == old(self).flow,
    //@spec         // C01: exactly this frame, unmodified, at the BACK of the stream's queue; END_STREAM closes the send half
    //@spec         r.is_ok() ==> final(stream).pending_send@ == old(stream).pending_send@.push(Frame::Data(frame)),
    //@spec         r.is_ok() ==> final(stream).buffered_send_data == old(stream).buffered_send_data + frame.data.rem,
    //@spec         r.is_ok() ==> final(stream).state.inner == (if frame.eos { old(stream).state.after_send_end_stream() } else { old(stream).state.inner }),
    //@spec         // C16/C02: queueing data never touches a window and creates no capacity; the stream stays well formed
    //@spec         final(stream).send_flow.w() == old(stream).send_flow.w() && final(self).flow.w() == old(self).flow.w(),
    //@spec         final(self).flow.a() + final(stream).send_flow.a() <= old(self).flow.a() + old(stream).send_flow.a(),
    //@spec         r.is_ok() ==> wf_send(*final(stream)) && queued_bytes(final(stream).pending_send@) <= final(stream).buffered_send_data,
    //@spec         // C06: with capacity in hand (or for an empty first frame) the stream is scheduled and the connection woken
    //@spec         r.is_ok() && (final(stream).send_flow.a() > 0 || final(stream).buffered_send_data == 0) && !old(stream).is_pending_open && !old(stream).is_pending_push
    //@spec             ==> final(stream).is_pending_send && *final(task) is None,
    //@end

    //@extract src/proto/streams/prioritize.rs Prioritize::assign_connection_capacity
    //@attr #[verifier::exec_allows_no_decreases_clause]
    //@subst assign_connection_capacity<R>(=>assign_connection_capacity(
    //@subst store: &mut R=>store: &mut Store
    //@subst_re \)\s*where\s*R:\s*Resolve,=>)
    //@subst let _res = self.flow.assign_capacity(inc);=>let _res = self.flow.assign_capacity(inc); assert(_res.is_ok());
    //@subst_re if !\(stream\.state\.is_send_streaming\(\) \|\| stream\.buffered_send_data > 0\) \{\s*continue;\s*\}=>if !(stream.state.is_send_streaming() || stream.buffered_send_data > 0) { store.put_back(stream); continue; }
    //@subst_re counts\.transition\(stream, \|_, stream\| \{.*?\}\)=>{ let mut stream = stream; let is_pending_reset = stream.is_pending_reset_expiration(); self.try_assign_capacity(&mut stream); proof { assert(stream_inv(stream)); } counts.transition_after(stream, is_pending_reset, store); }
    //@spec     requires
    //@spec         sz_ok(inc),
    //@spec         wf_pool(*old(self)) && old(store).sum() >= 0,
    //@spec         old(self).flow.a() + inc + old(store).sum() <= 0x7fff_ffff,
    //@spec     ensures
    //@spec         // I-send-pool, for ANY number of waiting streams: the new credit is in the pool or assigned — not lost, not doubled
    //@spec         final(self).flow.a() + final(store).sum() == old(self).flow.a() + inc + old(store).sum(),
    //@spec         final(self).flow.a() >= 0 && final(store).sum() >= 0,
    //@spec         final(self).flow.w() == old(self).flow.w(),
    //@spec         final(self).in_flight_data_frame == old(self).in_flight_data_frame && final(self).max_buffer_size == old(self).max_buffer_size,
    //@loop 0     invariant
    //@loop 0         self.flow.a() + store.sum() == old(self).flow.a() + inc + old(store).sum(),
    //@loop 0         self.flow.a() >= 0 && store.sum() >= 0 && self.flow.a() <= 0x7fff_ffff,
    //@loop 0         self.flow.w() == old(self).flow.w(),
    //@loop 0         self.in_flight_data_frame == old(self).in_flight_data_frame && self.max_buffer_size == old(self).max_buffer_size,
    //@loop 0         old(self).flow.a() + inc + old(store).sum() <= 0x7fff_ffff,
    //@end

    //@extract src/proto/streams/prioritize.rs Prioritize::recv_connection_window_update
    //@ret r
    //@spec     requires
    //@spec         sz_ok(inc) && inc >= 1,
    //@spec         old(self).pool_inv(*old(store), 0),
    //@spec     ensures
    //@spec         // RFC 9113 6.9.1: the window may not exceed 2^31-1: FLOW_CONTROL_ERROR and nothing changes
    //@spec         old(self).flow.w() + inc > 0x7fff_ffff ==> r == Err::<(), Reason>(Reason::FLOW_CONTROL_ERROR) && final(self).flow == old(self).flow && final(store).sum() == old(store).sum(),
    //@spec         old(self).flow.w() + inc <= 0x7fff_ffff ==> r.is_ok() && final(self).flow.w() == old(self).flow.w() + inc
    //@spec             && final(self).flow.a() + final(store).sum() == old(self).flow.a() + inc + old(store).sum()
    //@spec             && final(self).pool_inv(*final(store), 0),
    //@end
}

proof fn vacuity_probe_prioritize()
    ensures false,
{
}

} // verus!
