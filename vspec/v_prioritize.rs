// @unit id=v_prioritize props=C01,C02,C04,C06,C08,C16,C17,C19 tier=quick rlimit=100
// Verus contracts on the real bodies of the send-capacity machinery, extracted on every run:
//   src/proto/streams/flow_control.rs  (all of it, incl. the usize comparison impls of Window)
//   src/proto/streams/stream.rs        Stream::{capacity, assign_capacity, send_data, notify_capacity, notify_send, is_send_ready}
//   src/proto/streams/prioritize.rs    Prioritize::{try_assign_capacity, reserve_capacity, reclaim_all_capacity,
//                                      reclaim_reserved_capacity, recv_stream_window_update, schedule_send}
// This is MODULAR: a caller is checked against its callees' contracts, not their bodies; every callee whose
// body is in this file is itself verified here; the others are listed as `external_body` assumptions.
use vstd::prelude::*;
use vstd::std_specs::cmp::*;
use std::cmp::{self, Ordering};
use std::mem;

verus! {

//@include prioritize.inc

proof fn vacuity_probe_prioritize()
    ensures false,
{
}

} // verus!
