// @unit id=v_prioritize props=C01,C02,C04,C06,C08,C16,C17,C19 tier=quick rlimit=100
// Verus contracts on the real bodies of the send-capacity machinery, extracted on every run:
//   src/proto/streams/flow_control.rs  (all of it, incl. the usize comparison impls of Window)
//   src/proto/streams/stream.rs        Stream::{capacity, assign_capacity, send_data, notify_capacity, notify_send, is_send_ready}
//   src/proto/streams/prioritize.rs    Prioritize::{try_assign_capacity, reserve_capacity, reclaim_all_capacity,
//                                      reclaim_reserved_capacity, recv_stream_window_update, schedule_send, queue_frame,
//                                      push_back_frame, clear_queue, reclaim_frame_inner, pop_frame, send_data,
//                                      assign_connection_capacity, recv_connection_window_update} (inc/prioritize.inc) and the
//                                      write driver {buffer_pending, reclaim_frame, reclaim_written_frame, pop_pending_open} (below)
// This is MODULAR: a caller is checked against its callees' contracts, not their bodies; every callee whose
// body is in this file is itself verified here; the others are listed as `external_body` assumptions.
use vstd::prelude::*;
use vstd::std_specs::cmp::*;
use std::cmp::{self, Ordering};
use std::mem;

verus! {

//@include prioritize.inc

// ================================================================================================
// The write driver: Prioritize::{buffer_pending, reclaim_frame, reclaim_written_frame, pop_pending_open}
// ================================================================================================
// C01 / C08 / C06:  buffer_pending hands EVERY frame pop_frame returns to the codec, in the order they were popped, and
//   nothing else; it answers CodecFull only when the codec really has no room and Complete only when pop_frame found
//   nothing sendable; the codec is never handed a frame without room (the `assert!(self.has_capacity())` of
//   Encoder::buffer), never a DATA frame above the peer's SETTINGS_MAX_FRAME_SIZE (`.expect("invalid frame")`), and never
//   a second frame while a finished DATA frame still waits in the codec's single `last_data_frame` slot (it would be
//   overwritten and its unsent tail lost); the precondition of pop_frame — no DATA frame in flight — and the real
//   `debug_assert_eq!(self.in_flight_data_frame, InFlightData::Nothing)` are discharged from I-inflight:
//        in_flight_data_frame != Nothing   <==>   the codec holds a DATA frame (being written, or finished and not yet reclaimed)
//   which every function here re-establishes.
//
// Modelled by hand (ASSUMED): the write side of `Codec` (`CodecW`): `has_send_capacity` (true only when nothing is parked:
// Encoder::has_capacity, unit v_framed_write), `buffer` (Encoder::buffer: a small DATA frame is encoded at once and put
// into `last_data_frame` with its payload consumed, a large one is parked as `next` and the codec has no room until it is
// written; FramedWrite::flush / unset_frame later move it to `last_data_frame`), `take_last_data_frame`;
// `Queue<NextOpen>::pop`, `Queue<NextSend>::push_front`; `Store::resolve` of the in-flight key.
pub struct CodecW {
    pub room: bool,
    pub next_is_data: bool,
    pub last_data: Option<frame::Data<Prioritized>>,
    pub max_frame: usize,
    pub sent: Ghost<Seq<Frame<Prioritized>>>,
}

impl CodecW {
    pub open spec fn holds_data(self) -> bool { self.next_is_data || self.last_data is Some }

    #[verifier::external_body]
    pub fn has_send_capacity(&mut self) -> (r: bool)
        ensures *final(self) == *old(self), r == old(self).room, r ==> !old(self).next_is_data,
    { unimplemented!() }

    #[verifier::external_body]
    pub fn max_send_frame_size(&self) -> (r: usize)
        ensures r == self.max_frame, 16_384 <= r <= 0xff_ffff,        // Settings::load / set_max_send_frame_size (unit v_framed_read, Kani settings_*)
    { unimplemented!() }

    #[verifier::external_body]
    pub fn take_last_data_frame(&mut self) -> (r: Option<frame::Data<Prioritized>>)
        ensures r == old(self).last_data, *final(self) == (CodecW { last_data: None, ..*old(self) }),
    { unimplemented!() }

    #[verifier::external_body]
    pub fn buffer(&mut self, item: Frame<Prioritized>) -> (r: Result<(), UserError>)
        requires
            old(self).room,                   // the real assert!(self.has_capacity())
            old(self).last_data is None,      // the single slot: a finished DATA frame must have been reclaimed first
        ensures
            final(self).max_frame == old(self).max_frame,
            // refused only for a DATA payload above the peer's limit; then nothing changes
            r is Err ==> (item matches Frame::Data(d) && d.data.limit > old(self).max_frame) && *final(self) == *old(self),
            (item matches Frame::Data(d) && d.data.limit <= old(self).max_frame) ==> r is Ok,
            !(item is Data) ==> r is Ok,
            r is Ok ==> final(self).sent@ == old(self).sent@.push(item),
            r is Ok ==> match item {
                // encoded at once (payload consumed, the frame waits to be reclaimed) or parked (no room until written)
                Frame::Data(d) => (!final(self).next_is_data && (final(self).last_data matches Some(l) && l.data.stream == d.data.stream
                                        && l.stream_id == d.stream_id && l.eos == d.eos && l.data.end_of_stream == d.data.end_of_stream
                                        && l.data.inner_rem == d.data.inner_rem - min_int(d.data.limit as int, d.data.inner_rem as int)))
                    || (final(self).next_is_data && final(self).last_data is None && !final(self).room),
                _ => final(self).next_is_data == old(self).next_is_data && final(self).last_data == old(self).last_data,
            },
    { unimplemented!() }
}

pub open spec fn min_int(a: int, b: int) -> int { if a < b { a } else { b } }

/// I-inflight
pub open spec fn i_inflight(p: Prioritize, c: CodecW) -> bool {
    &&& (p.in_flight_data_frame != InFlightData::Nothing) == c.holds_data()
    &&& !(c.next_is_data && c.last_data is Some)
    &&& c.last_data matches Some(f) ==> (p.in_flight_data_frame matches InFlightData::DataFrame(k) ==> k == f.data.stream)
}

#[derive(PartialEq, Eq, Structural, Clone, Copy, Debug)]
pub enum BufferStatus { Complete, CodecFull }

impl QueueOpen {
    /// store::Queue<NextOpen>::pop: a stream waiting for a concurrency slot is on no other send queue and is not counted yet
    #[verifier::external_body]
    pub fn pop(&mut self, store: &mut Store) -> (r: Option<Stream>)
        requires old(store).sum() >= 0,
        ensures
            match r {
                Some(s) => stream_inv(s) && !s.is_pending_open && !s.is_pending_send && !s.is_pending_push && !s.released()
                    && 0 <= s.send_flow.a() <= old(store).sum() && final(store).sum() == old(store).sum() - s.send_flow.a()
                    && final(store).held() == old(store).held() + 1,
                None => final(store).sum() == old(store).sum() && final(store).held() == old(store).held(),
            },
    { unimplemented!() }
}
impl QueueSend {
    #[verifier::external_body]
    pub fn push_front(&mut self, stream: &mut Stream) -> (r: bool)
        requires !old(stream).is_pending_open,
        ensures *final(stream) == (Stream { is_pending_send: true, ..*old(stream) }),
    { unimplemented!() }
}
impl Store {
    /// `store.resolve(key)` for the key of the DATA frame that comes back from the codec.  In /repo the lookup happens
    /// inside reclaim_frame_inner and only when in_flight_data_frame is DataFrame(key) (for `Drop` the stream may be
    /// gone and is not looked up); here it is hoisted in front of the call (listed substitution) and hands out SOME
    /// stream record in the `Drop` case, which reclaim_frame_inner is proved not to touch.  ASSUMED: the key recorded in
    /// in_flight_data_frame is live, and a stream whose DATA reached the codec has been opened.
    #[verifier::external_body]
    pub fn resolve_in_flight(&mut self, key: Key) -> (s: Stream)
        requires old(self).sum() >= 0,
        ensures s.key == key && !s.is_pending_open && stream_inv(s),
            0 <= s.send_flow.a() <= old(self).sum() && final(self).sum() == old(self).sum() - s.send_flow.a() && final(self).held() == old(self).held() + 1,
    { unimplemented!() }
}

impl Prioritize {
    // Listed substitutions: the `Ptr` return type => the owned stream.
    //@extract src/proto/streams/prioritize.rs Prioritize::pop_pending_open
    //@subst_re fn pop_pending_open<'s>\(\s*&mut self,\s*store: &'s mut Store,\s*counts: &mut Counts,\s*\) -> Option<store::Ptr<'s>>=>fn pop_pending_open(&mut self, store: &mut Store, counts: &mut Counts) -> Option<Stream>
    //@ret r
    //@spec     requires old(store).sum() >= 0,
    //@spec     ensures
    //@spec         final(self).flow == old(self).flow && final(self).in_flight_data_frame == old(self).in_flight_data_frame && final(self).max_buffer_size == old(self).max_buffer_size,
    //@spec         match r {
    //@spec             // C05: admitted => counted; it is handed out un-queued, sender woken
    //@spec             Some(s) => stream_inv(s) && !s.is_pending_open && !s.is_pending_send && !s.is_pending_push && s.is_counted && !s.released()
    //@spec                 && 0 <= s.send_flow.a() <= old(store).sum() && final(store).sum() == old(store).sum() - s.send_flow.a()
    //@spec                 && final(store).held() == old(store).held() + 1,
    //@spec             None => final(store).sum() == old(store).sum() && final(store).held() == old(store).held(),
    //@spec         },
    //@end

    // Listed substitution: the lookup of the in-flight key hoisted in front of the call (see Store::resolve_in_flight).
    //@extract src/proto/streams/prioritize.rs Prioritize::reclaim_frame
    //@subst reclaim_frame<T, B>(=>reclaim_frame(
    //@subst buffer: &mut Buffer<Frame<B>>=>buffer: &mut Buffer
    //@subst dst: &mut Codec<T, Prioritized<B>>=>dst: &mut CodecW
    //@subst_re \)\s*->\s*bool\s*where\s*B:\s*Buf,=>) -> bool
    //@subst self.reclaim_frame_inner(buffer, store, frame)=>{ let mut s = store.resolve_in_flight(frame.data.stream); let ghost a0 = s.send_flow.a(); let r = self.reclaim_frame_inner(buffer, &mut s, frame); proof { assert(s.send_flow.a() == a0); } store.put_back_any(s); r }
    //@ret r
    //@spec     requires
    //@spec         i_inflight(*old(self), *old(dst)),
    //@spec         old(store).sum() >= 0,
    //@spec     ensures
    //@spec         i_inflight(*final(self), *final(dst)),
    //@spec         // the finished frame was taken out of the codec's slot; nothing else about the codec changes
    //@spec         *final(dst) == (CodecW { last_data: None, ..*old(dst) }),
    //@spec         final(self).flow == old(self).flow,
    //@spec         final(store).sum() == old(store).sum() && final(store).held() == old(store).held(),
    //@spec         r ==> old(dst).last_data is Some,
    //@end

    //@extract src/proto/streams/prioritize.rs Prioritize::reclaim_written_frame
    //@subst reclaim_written_frame<T, B>(=>reclaim_written_frame(
    //@subst buffer: &mut Buffer<Frame<B>>=>buffer: &mut Buffer
    //@subst dst: &mut Codec<T, Prioritized<B>>=>dst: &mut CodecW
    //@subst_re \)\s*->\s*bool\s*where\s*B:\s*Buf,=>) -> bool
    //@ret r
    //@spec     requires i_inflight(*old(self), *old(dst)), old(store).sum() >= 0,
    //@spec     ensures
    //@spec         i_inflight(*final(self), *final(dst)), *final(dst) == (CodecW { last_data: None, ..*old(dst) }),
    //@spec         final(self).flow == old(self).flow && final(store).sum() == old(store).sum() && final(store).held() == old(store).held(),
    //@end

    // Listed substitutions: generics dropped; the stream admitted by pop_pending_open goes back to the store where the real
    // `Ptr` goes out of scope (`store.put_back`, which REQUIRES the stream invariant and !released()); `.expect(..)` =>
    // assert(is_ok); `frame.payload().stream` => the field; BufferStatus results keep their text.
    //@extract src/proto/streams/prioritize.rs Prioritize::buffer_pending
    //@attr #[verifier::exec_allows_no_decreases_clause]
    //@subst_re pub fn buffer_pending<T, B>\(\s*&mut self,\s*buffer: &mut Buffer<Frame<B>>,\s*store: &mut Store,\s*counts: &mut Counts,\s*dst: &mut Codec<T, Prioritized<B>>,\s*\) -> io::Result<BufferStatus>\s*where\s*T: AsyncWrite \+ Unpin,\s*B: Buf,=>pub fn buffer_pending(&mut self, buffer: &mut Buffer, store: &mut Store, counts: &mut Counts, dst: &mut CodecW) -> Result<BufferStatus, u8>
    //@subst_re self\.try_assign_capacity\(&mut stream\);\s*\}=>self.try_assign_capacity(&mut stream); store.put_back(stream); }
    //@subst_opt_re frame\.payload\(\)\.stream ==>> frame.data.stream
    //@subst dst.buffer(frame).expect("invalid frame");=>let ghost sent1 = dst.sent@; let ghost fr = frame; let _b = dst.buffer(frame); assert(_b.is_ok()); proof { let n0 = old(dst).sent@.len() as int; assert(dst.sent@.take(n0) =~= sent1.take(n0)); assert(dst.sent@.skip(n0) =~= sent1.skip(n0).push(fr)); assert(sent1.skip(n0).push(fr).drop_last() =~= sent1.skip(n0)); }
    //@before let max_frame_len = dst.max_send_frame_size();=>proof { let n0 = old(dst).sent@.len() as int; assert(dst.sent@.take(n0) =~= old(dst).sent@); assert(dst.sent@.skip(n0) =~= Seq::<Frame<Prioritized>>::empty()); }
    //@ret r
    //@spec     requires
    //@spec         i_inflight(*old(self), *old(dst)),
    //@spec         old(self).pool_inv(*old(store), 0),
    //@spec     ensures
    //@spec         i_inflight(*final(self), *final(dst)),
    //@spec         final(self).pool_inv(*final(store), 0) && final(store).held() == old(store).held(),
    //@spec         r is Ok,
    //@spec         // back-pressure is reported only when it is real; Complete only when nothing sendable is left
    //@spec         r == Ok::<BufferStatus, u8>(BufferStatus::CodecFull) ==> !final(dst).room,
    //@spec         // whatever was handed to the codec is behind what it had, and only frames were appended
    //@spec         final(dst).sent@.len() >= old(dst).sent@.len() && final(dst).sent@.take(old(dst).sent@.len() as int) == old(dst).sent@,
    //@spec         // C02: the connection window is charged by exactly the DATA handed over
    //@spec         final(self).flow.w() == old(self).flow.w() - data_len(final(dst).sent@.skip(old(dst).sent@.len() as int)),
    //@loop 0     invariant
    //@loop 0         i_inflight(*self, *dst), dst.last_data is None,
    //@loop 0         self.pool_inv(*store, 0) && store.held() == old(store).held(),
    //@loop 0         max_frame_len == dst.max_frame && 16_384 <= max_frame_len <= 0xff_ffff,
    //@loop 0         dst.sent@.len() >= old(dst).sent@.len() && dst.sent@.take(old(dst).sent@.len() as int) == old(dst).sent@,
    //@loop 0         self.flow.w() == old(self).flow.w() - data_len(dst.sent@.skip(old(dst).sent@.len() as int)),
    //@end
}

/// octets of DATA payload in a sequence of frames handed to the codec (what the connection window was charged)
pub open spec fn data_len(s: Seq<Frame<Prioritized>>) -> int
    decreases s.len(),
{
    if s.len() == 0 { 0 } else { data_len(s.drop_last()) + (match s.last() { Frame::Data(d) => d.data.limit as int, _ => 0 }) }
}

proof fn vacuity_probe_prioritize()
    ensures false,
{
}

} // verus!
