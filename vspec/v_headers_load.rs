// @unit id=v_headers_load props=C09,C12,C08 tier=quick
// Verus contracts on the REAL bodies of src/frame/headers.rs `Headers::load`, `PushPromise::load`, the flag predicates
// `HeadersFlag::{is_padded, is_priority, is_end_stream, is_end_headers}`, `PushPromiseFlag::{is_padded, is_end_headers}` and
// src/frame/priority.rs `StreamDependency::load` (extracted on every run): the frame-level parsing of HEADERS and
// PUSH_PROMISE payloads (everything in front of HPACK decoding).
//
// C09:  a HEADERS / PUSH_PROMISE frame on stream 0, a PADDED frame without its pad-length octet, a PRIORITY-flagged frame
//       without its 5 octets, a stream that depends on itself, padding longer than what is left of the payload — each is
//       refused with exactly the stated error, for EVERY payload (any length), and nothing else is refused;
// C12:  what is accepted is parsed exactly: stream id and flags of the frame head, the dependency (31-bit id, E bit,
//       weight), the promised id (reserved bit ignored), and the header-block fragment is exactly the octets between the
//       optional fields and the padding — and a frame written by `Headers::encode` / `PushPromise::encode` (never PADDED,
//       never PRIORITY: unit v_headers_encode) parses back to its stream id, flags, promised id and fragment
//       (lemma_C12_headers_roundtrip).
// C08:  the indexing `src[0]`, the slices `&src[..5]` / `&src[..4]`, `advance` and `truncate` cannot go out of bounds.
//
// Modelled by hand (ASSUMED): `BytesMut` as a byte sequence (`is_empty`, `len`, `byte_at` for `src[i]`, `prefix` for
// `&src[..n]`, `advance`, `truncate` — each REQUIRES what the real one panics on); `StreamId::parse` on 4 octets (its real
// body: Kani units sid_parse_*); the empty `HeaderBlock` a loader returns.  Listed substitutions: `src[0]` => `src.byte_at(0)`,
// `&src[..n]` => `src.prefix(n)`; `?` on frame::Error written out; the struct literals keep their text except the
// HeaderBlock literal (HeaderMap::new(), Pseudo::default()) => `HeaderBlock::empty()`.
use vstd::prelude::*;

verus! {

global size_of usize == 8;

#[derive(PartialEq, Eq, Structural, Clone, Copy, Debug)]
pub struct StreamId(pub u32);
impl StreamId {
    //@extract src/frame/stream_id.rs StreamId::is_zero
    //@ret r
    //@spec     ensures r == (self.0 == 0),
    //@end

    /// StreamId::parse on exactly 4 octets: big endian, the reserved bit is returned apart and cleared
    #[verifier::external_body]
    pub fn parse(buf: &Vec<u8>) -> (r: (StreamId, bool))
        requires buf@.len() >= 4,
        ensures r.0.0 as int == be31(buf@), r.1 == (buf@[0] >= 128),
    { unimplemented!() }
}

pub open spec fn be31(b: Seq<u8>) -> int {
    ((b[0] as int) % 128) * 0x1000000 + (b[1] as int) * 0x10000 + (b[2] as int) * 0x100 + (b[3] as int)
}

#[derive(PartialEq, Eq, Structural, Clone, Copy, Debug)]
pub enum Error { BadFrameSize, TooMuchPadding, InvalidSettingValue, InvalidWindowUpdateValue, InvalidPayloadLength, InvalidPayloadAckSettings, InvalidStreamId, MalformedMessage, HeaderListWayTooLarge, InvalidDependencyId }

pub struct BytesMut { pub b: Ghost<Seq<u8>> }
impl BytesMut {
    #[verifier::external_body]
    pub fn len(&self) -> (r: usize) ensures r == self.b@.len() { unimplemented!() }
    #[verifier::external_body]
    pub fn is_empty(&self) -> (r: bool) ensures r == (self.b@.len() == 0) { unimplemented!() }
    /// `src[i]`
    #[verifier::external_body]
    pub fn byte_at(&self, i: usize) -> (r: u8)
        requires i < self.b@.len(),
        ensures r == self.b@[i as int],
    { unimplemented!() }
    /// `&src[..n]`
    #[verifier::external_body]
    pub fn prefix(&self, n: usize) -> (r: Vec<u8>)
        requires n <= self.b@.len(),
        ensures r@ == self.b@.take(n as int),
    { unimplemented!() }
    #[verifier::external_body]
    pub fn advance(&mut self, n: usize)
        requires n <= old(self).b@.len(),
        ensures final(self).b@ == old(self).b@.skip(n as int),
    { unimplemented!() }
    /// truncate(len): a no-op when len >= self.len()
    #[verifier::external_body]
    pub fn truncate(&mut self, len: usize)
        ensures final(self).b@ == (if len <= old(self).b@.len() { old(self).b@.take(len as int) } else { old(self).b@ }),
    { unimplemented!() }
}

//@struct src/frame/head.rs Kind pub
//@struct src/frame/head.rs Head pub
impl Copy for Kind {}
impl Clone for Kind { fn clone(&self) -> Self { *self } }
impl Copy for Head {}
impl Clone for Head { fn clone(&self) -> Self { *self } }
impl Head {
    //@extract src/frame/head.rs Head::stream_id
    //@ret r
    //@spec     ensures r == self.stream_id,
    //@end
    //@extract src/frame/head.rs Head::flag
    //@ret r
    //@spec     ensures r == self.flag,
    //@end
}

//@const src/frame/headers.rs END_STREAM
//@const src/frame/headers.rs END_HEADERS
//@const src/frame/headers.rs PADDED
//@const src/frame/headers.rs PRIORITY

#[derive(PartialEq, Eq, Structural, Clone, Copy, Debug)]
pub struct StreamDependency { pub dependency_id: StreamId, pub weight: u8, pub is_exclusive: bool }
impl StreamDependency {
    //@extract src/frame/priority.rs StreamDependency::new
    //@ret r
    //@spec     ensures r == (StreamDependency { dependency_id, weight, is_exclusive }),
    //@end

    //@extract src/frame/priority.rs StreamDependency::dependency_id
    //@ret r
    //@spec     ensures r == self.dependency_id,
    //@end

    // RFC 9113 6.3 (the same 5 octets in HEADERS with the PRIORITY flag, 6.2)
    //@extract src/frame/priority.rs StreamDependency::load
    //@subst pub fn load(src: &[u8]) -> Result<Self, Error>=>pub fn load(src: &Vec<u8>) -> Result<Self, Error>
    //@subst let (dependency_id, is_exclusive) = StreamId::parse(&src[..4]);=>let (dependency_id, is_exclusive) = StreamId::parse(src);
    //@ret r
    //@spec     ensures
    //@spec         src@.len() != 5 ==> r == Err::<StreamDependency, Error>(Error::InvalidPayloadLength),
    //@spec         src@.len() == 5 ==> r is Ok && r->Ok_0.dependency_id.0 as int == be31(src@) && r->Ok_0.is_exclusive == (src@[0] >= 128) && r->Ok_0.weight == src@[4],
    //@end
}

#[derive(PartialEq, Eq, Structural, Clone, Copy, Debug)]
pub struct HeadersFlag(pub u8);
#[derive(PartialEq, Eq, Structural, Clone, Copy, Debug)]
pub struct PushPromiseFlag(pub u8);

impl HeadersFlag {
    //@extract src/frame/headers.rs HeadersFlag::is_padded
    //@ret r
    //@spec     ensures r == (self.0 & PADDED == PADDED),
    //@end
    //@extract src/frame/headers.rs HeadersFlag::is_priority
    //@ret r
    //@spec     ensures r == (self.0 & PRIORITY == PRIORITY),
    //@end
    //@extract src/frame/headers.rs HeadersFlag::is_end_stream
    //@ret r
    //@spec     ensures r == (self.0 & END_STREAM == END_STREAM),
    //@end
    //@extract src/frame/headers.rs HeadersFlag::is_end_headers
    //@ret r
    //@spec     ensures r == (self.0 & END_HEADERS == END_HEADERS),
    //@end
}
impl PushPromiseFlag {
    //@extract src/frame/headers.rs PushPromiseFlag::is_padded
    //@ret r
    //@spec     ensures r == (self.0 & PADDED == PADDED),
    //@end
    //@extract src/frame/headers.rs PushPromiseFlag::is_end_headers
    //@ret r
    //@spec     ensures r == (self.0 & END_HEADERS == END_HEADERS),
    //@end
}

/// the HeaderBlock a loader returns: nothing decoded yet
#[derive(PartialEq, Eq, Structural, Clone, Copy, Debug)]
pub struct HeaderBlock { pub field_size: usize, pub is_over_size: bool }
impl HeaderBlock {
    pub fn empty() -> (r: HeaderBlock) ensures r == (HeaderBlock { field_size: 0, is_over_size: false }) { HeaderBlock { field_size: 0, is_over_size: false } }
}

pub struct Headers { pub stream_id: StreamId, pub stream_dep: Option<StreamDependency>, pub header_block: HeaderBlock, pub flags: HeadersFlag }
pub struct PushPromise { pub stream_id: StreamId, pub promised_id: StreamId, pub header_block: HeaderBlock, pub flags: PushPromiseFlag }

pub open spec fn padded(flag: u8) -> bool { flag & PADDED == PADDED }
pub open spec fn priority(flag: u8) -> bool { flag & PRIORITY == PRIORITY }

/// RFC 9113 6.2: HEADERS payload = [Pad Length (8)] [E (1) Stream Dependency (31) Weight (8)] Field Block Fragment, Padding
pub open spec fn headers_load_spec(head: Head, src: Seq<u8>) -> Result<(StreamId, u8, Option<StreamDependency>, Seq<u8>), Error> {
    let p = padded(head.flag);
    let q = priority(head.flag);
    let off1: int = if p { 1 } else { 0 };
    let off2: int = off1 + (if q { 5int } else { 0int });
    let pad: int = if p && src.len() > 0 { src[0] as int } else { 0 };
    if head.stream_id.0 == 0 { Err(Error::InvalidStreamId) }
    else if p && src.len() == 0 { Err(Error::MalformedMessage) }
    else if q && src.len() - off1 < 5 { Err(Error::MalformedMessage) }
    else if q && be31(src.subrange(off1, off1 + 5)) == head.stream_id.0 as int { Err(Error::InvalidDependencyId) }
    else if pad > src.len() - off2 { Err(Error::TooMuchPadding) }
    else {
        let dep = if q { Some(StreamDependency { dependency_id: StreamId(be31(src.subrange(off1, off1 + 5)) as u32), weight: src[off1 + 4], is_exclusive: src[off1] >= 128 }) } else { None };
        Ok((head.stream_id, head.flag, dep, src.subrange(off2, src.len() - pad)))
    }
}

impl Headers {
    //@extract src/frame/headers.rs Headers::load
    //@subst pad = src[0] as usize;=>pad = src.byte_at(0) as usize;
    //@subst let stream_dep = StreamDependency::load(&src[..5])?;=>let _p5 = src.prefix(5); let stream_dep = match StreamDependency::load(&_p5) { Ok(v) => v, Err(e) => { return Err(e); } };
    //@subst_re header_block: HeaderBlock \{\s*fields: HeaderMap::new\(\),\s*field_size: 0,\s*is_over_size: false,\s*pseudo: Pseudo::default\(\),\s*\},=>header_block: HeaderBlock::empty(),
    //@ret r
    //@spec     ensures
    //@spec         match headers_load_spec(head, src.b@) {
    //@spec             Err(e) => r matches Err(e2) && e2 == e,
    //@spec             Ok((sid, flag, dep, frag)) => r matches Ok((h, rest)) && h.stream_id == sid && h.flags.0 == flag && h.stream_dep == dep && rest.b@ == frag
    //@spec                 && h.header_block == (HeaderBlock { field_size: 0, is_over_size: false }),
    //@spec         },
    //@before let headers = Headers {=>proof { let s0 = old_src; assert(src.b@ =~= headers_load_spec(head, s0)->Ok_0.3); }
    //@before let flags = HeadersFlag(head.flag());=>let ghost old_src = src.b@;
    //@end
}

/// RFC 9113 6.6: PUSH_PROMISE payload = [Pad Length (8)] R (1) Promised Stream ID (31) Field Block Fragment, Padding.
/// (h2 asks for at least FIVE octets behind the pad length — the id and one octet of fragment: an empty field block
/// cannot be a request.)
pub open spec fn push_promise_load_spec(head: Head, src: Seq<u8>) -> Result<(StreamId, u8, StreamId, Seq<u8>), Error> {
    let p = padded(head.flag);
    let off1: int = if p { 1 } else { 0 };
    let pad: int = if p && src.len() > 0 { src[0] as int } else { 0 };
    if head.stream_id.0 == 0 { Err(Error::InvalidStreamId) }
    else if p && src.len() == 0 { Err(Error::MalformedMessage) }
    else if src.len() - off1 < 5 { Err(Error::MalformedMessage) }
    else if pad > src.len() - off1 - 4 { Err(Error::TooMuchPadding) }
    else { Ok((head.stream_id, head.flag, StreamId(be31(src.subrange(off1, off1 + 4)) as u32), src.subrange(off1 + 4, src.len() - pad))) }
}

impl PushPromise {
    //@extract src/frame/headers.rs PushPromise::load
    //@subst pad = src[0] as usize;=>pad = src.byte_at(0) as usize;
    //@subst let (promised_id, _) = StreamId::parse(&src[..4]);=>let _p4 = src.prefix(4); let (promised_id, _) = StreamId::parse(&_p4);
    //@subst_re header_block: HeaderBlock \{\s*fields: HeaderMap::new\(\),\s*field_size: 0,\s*is_over_size: false,\s*pseudo: Pseudo::default\(\),\s*\},=>header_block: HeaderBlock::empty(),
    //@ret r
    //@spec     ensures
    //@spec         match push_promise_load_spec(head, src.b@) {
    //@spec             Err(e) => r matches Err(e2) && e2 == e,
    //@spec             Ok((sid, flag, pid, frag)) => r matches Ok((h, rest)) && h.stream_id == sid && h.flags.0 == flag && h.promised_id == pid && rest.b@ == frag,
    //@spec         },
    //@before let flags = PushPromiseFlag(head.flag());=>let ghost old_src = src.b@;
    //@before let frame = PushPromise {=>proof { let s0 = old_src; assert(src.b@ =~= push_promise_load_spec(head, s0)->Ok_0.3); }
    //@end
}

// ================================================================================================
// C12: frames written by Headers::encode / PushPromise::encode (unit v_headers_encode: head ++ [promised id] ++ fragment,
// flags never PADDED / PRIORITY — HeadersFlag::default() is END_HEADERS, only END_STREAM is ever added) parse back
// ================================================================================================
pub proof fn lemma_C12_headers_roundtrip(head: Head, frag: Seq<u8>)
    requires head.stream_id.0 != 0, !padded(head.flag), !priority(head.flag),
    ensures headers_load_spec(head, frag) == Ok::<(StreamId, u8, Option<StreamDependency>, Seq<u8>), Error>((head.stream_id, head.flag, None, frag)),
{
    assert(frag.subrange(0, frag.len() as int) =~= frag);
}

pub open spec fn be32s(n: int) -> Seq<u8> {
    seq![((n / 0x1000000) % 256) as u8, ((n / 0x10000) % 256) as u8, ((n / 0x100) % 256) as u8, (n % 256) as u8]
}

pub proof fn lemma_C12_push_promise_roundtrip(head: Head, pid: u32, frag: Seq<u8>)
    requires head.stream_id.0 != 0, !padded(head.flag), pid <= 0x7fff_ffff, frag.len() >= 1,
    ensures push_promise_load_spec(head, be32s(pid as int) + frag) == Ok::<(StreamId, u8, StreamId, Seq<u8>), Error>((head.stream_id, head.flag, StreamId(pid), frag)),
{
    let src = be32s(pid as int) + frag;
    assert(src.subrange(4, src.len() as int) =~= frag);
    assert(src.subrange(0, 4) =~= be32s(pid as int));
    let n = pid as int;
    assert(be31(be32s(n)) == n) by (nonlinear_arith)
        requires 0 <= n <= 0x7fff_ffff,
            be31(be32s(n)) == ((((n / 0x1000000) % 256) as u8 as int) % 128) * 0x1000000 + (((n / 0x10000) % 256) as u8 as int) * 0x10000 + (((n / 0x100) % 256) as u8 as int) * 0x100 + ((n % 256) as u8 as int);
}

proof fn vacuity_probe_headers_load()
    ensures false,
{
}

} // verus!
