// @unit id=v_framed_read props=C18,C12,C08 tier=quick
// Verus contracts on the real bodies of src/codec/framed_read.rs that maintain the CONTINUATION-flood limit (C18: the
// state kept for a header block in progress is bounded): `calc_max_continuation_frames` equals the specification
// max(5, n + n/4) with n = max(1, header_list_max / frame_max) for ALL usize arguments (frame_max >= 1), and both
// setters keep the consistency invariant
//     max_continuation_frames == spec(max_header_list_size, max_frame_size())
// so the limit always reflects BOTH current settings, in the right roles (a larger frame size needs fewer frames, a
// larger header list more).
//
// Hand-modelled: tokio_util's FramedRead<T, LengthDelimitedCodec> is reduced to the one number h2 reads and writes
// (`decoder().max_frame_length()` / `decoder_mut().set_max_frame_length(v)`); `saturating_add` has a vstd
// specification, `usize::max` gets a two-line helper.  Listed substitution: `self.inner.decoder_mut().set_max_frame_length(val)` =>
// `self.inner.set_max_frame_length(val)` (Verus cannot return `&mut` from a call).
use vstd::prelude::*;

verus! {

global size_of usize == 8;

//@const src/frame/settings.rs DEFAULT_MAX_FRAME_SIZE
//@const src/frame/settings.rs MAX_MAX_FRAME_SIZE

pub type FrameSize = u32;

pub open spec fn spec_max(a: int, b: int) -> int { if a >= b { a } else { b } }

/// C18 / framed_read.rs doc: "at least this many frames needed to use max header list size", plus 25 % padding,
/// floor 5 — saturating at usize::MAX.
pub open spec fn spec_max_cont(header_max: int, frame_max: int) -> int {
    let n = spec_max(header_max / frame_max, 1);
    let padded = if n + n / 4 > usize::MAX { usize::MAX as int } else { n + n / 4 };
    spec_max(padded, 5)
}

/// `a.max(b)` on usize (Ord::max is a provided trait method, which Verus cannot give a specification): the two call
/// sites are rewritten `X.max(k)` => `max_usize(X, k)` (listed substitutions).
pub fn max_usize(a: usize, b: usize) -> (r: usize)
    ensures r as int == spec_max(a as int, b as int),
{ if a >= b { a } else { b } }

pub struct LengthDelimitedCodec { pub max_frame_length: usize }
impl LengthDelimitedCodec {
    pub fn max_frame_length(&self) -> (r: usize) ensures r == self.max_frame_length { self.max_frame_length }
}

pub struct InnerFramedRead { pub codec: LengthDelimitedCodec }
impl InnerFramedRead {
    pub fn decoder(&self) -> (r: &LengthDelimitedCodec) ensures *r == self.codec { &self.codec }
    pub fn set_max_frame_length(&mut self, val: usize)
        ensures final(self).codec.max_frame_length == val,
    { self.codec.max_frame_length = val; }
}

/// Reduced view of FramedRead<T>: the three fields the setters touch.
pub struct FramedRead {
    pub inner: InnerFramedRead,
    pub max_header_list_size: usize,
    pub max_continuation_frames: usize,
}

//@extract src/codec/framed_read.rs calc_max_continuation_frames
//@after let padding = min_frames_for_list >> 2;=>proof { assert(min_frames_for_list >> 2usize == min_frames_for_list / 4usize) by (bit_vector); }
//@subst (header_max / frame_max).max(1)=>max_usize(header_max / frame_max, 1)
//@subst min_frames_for_list.saturating_add(padding).max(5)=>max_usize(min_frames_for_list.saturating_add(padding), 5)
//@ret r
//@spec     requires frame_max >= 1,     // call sites: set_max_frame_size asserts >= 16384; max_frame_size() holds such a value or tokio-util's default 8 MiB
//@spec     ensures r as int == spec_max_cont(header_max as int, frame_max as int), r >= 5,
//@end

impl FramedRead {
    pub open spec fn consistent(self) -> bool {
        self.max_continuation_frames as int == spec_max_cont(self.max_header_list_size as int, self.inner.codec.max_frame_length as int)
    }

    //@extract src/codec/framed_read.rs FramedRead::max_frame_size
    //@ret r
    //@spec     ensures r == self.inner.codec.max_frame_length,
    //@end

    //@extract src/codec/framed_read.rs FramedRead::set_max_frame_size
    //@subst self.inner.decoder_mut().set_max_frame_length(val);=>self.inner.set_max_frame_length(val);
    //@spec     requires DEFAULT_MAX_FRAME_SIZE as usize <= val && val <= MAX_MAX_FRAME_SIZE as usize,   // the real assert!, proved from this
    //@spec     ensures
    //@spec         final(self).inner.codec.max_frame_length == val && final(self).max_header_list_size == old(self).max_header_list_size,
    //@spec         final(self).consistent(),
    //@end

    //@extract src/codec/framed_read.rs FramedRead::set_max_header_list_size
    //@spec     requires old(self).inner.codec.max_frame_length >= 1,
    //@spec     ensures
    //@spec         final(self).max_header_list_size == val && final(self).inner == old(self).inner,
    //@spec         final(self).consistent(),
    //@end
}

proof fn vacuity_probe_framed_read()
    ensures false,
{
}

} // verus!
