// @unit id=v_counts props=C05,C18,C08 tier=quick
// Verus contracts on the counter arithmetic of src/proto/streams/counts.rs (extracted on every run) and the
// slot-accounting lemma for C05.
use vstd::prelude::*;

verus! {

//@const src/proto/mod.rs DEFAULT_DATA_FRAME_OVERHEAD_THRESHOLD
//@const src/proto/mod.rs MAX_RECV_EMPTY_DATA_FRAMES

// Reduced views of the real structs: exactly the fields the extracted bodies touch (R4/R5).  A body that
// touched any other field would not compile here (=> undecided, never a silent pass).
pub struct Budget {
    pub available: usize,
    pub max: usize,
}

pub struct Counts {
    pub max_send_streams: usize,
    pub num_send_streams: usize,
    pub max_recv_streams: usize,
    pub num_recv_streams: usize,
    pub max_local_reset_streams: usize,
    pub num_local_reset_streams: usize,
    pub max_remote_reset_streams: usize,
    pub num_remote_reset_streams: usize,
    pub max_local_error_reset_streams: Option<usize>,
    pub num_local_error_reset_streams: usize,
}

pub struct Stream {
    pub is_counted: bool,
}

impl Counts {
    //@extract src/proto/streams/counts.rs Counts::can_inc_num_send_streams
    //@ret r
    //@spec     ensures r == (self.num_send_streams < self.max_send_streams),
    //@end

    //@extract src/proto/streams/counts.rs Counts::inc_num_send_streams
    //@subst stream: &mut store::Ptr=>stream: &mut Stream
    //@subst assert!(self.can_inc_num_send_streams());=>assert(self.num_send_streams < self.max_send_streams);
    //@subst assert!(!stream.is_counted);=>assert(!stream.is_counted);
    //@spec     requires
    //@spec         old(self).num_send_streams < old(self).max_send_streams,
    //@spec         !old(stream).is_counted,
    //@spec     ensures
    //@spec         final(self).num_send_streams == old(self).num_send_streams + 1,
    //@spec         final(self).num_send_streams <= final(self).max_send_streams,
    //@spec         final(self).max_send_streams == old(self).max_send_streams,
    //@spec         final(self).num_recv_streams == old(self).num_recv_streams,
    //@spec         final(stream).is_counted,
    //@end

    //@extract src/proto/streams/counts.rs Counts::can_inc_num_recv_streams
    //@ret r
    //@spec     ensures r == (self.num_recv_streams < self.max_recv_streams),
    //@end

    //@extract src/proto/streams/counts.rs Counts::inc_num_recv_streams
    //@subst stream: &mut store::Ptr=>stream: &mut Stream
    //@subst assert!(self.can_inc_num_recv_streams());=>assert(self.num_recv_streams < self.max_recv_streams);
    //@subst assert!(!stream.is_counted);=>assert(!stream.is_counted);
    //@spec     requires
    //@spec         old(self).num_recv_streams < old(self).max_recv_streams,
    //@spec         !old(stream).is_counted,
    //@spec     ensures
    //@spec         final(self).num_recv_streams == old(self).num_recv_streams + 1,
    //@spec         final(self).num_recv_streams <= final(self).max_recv_streams,
    //@spec         final(self).max_recv_streams == old(self).max_recv_streams,
    //@spec         final(self).num_send_streams == old(self).num_send_streams,
    //@spec         final(stream).is_counted,
    //@end

    //@extract src/proto/streams/counts.rs Counts::can_inc_num_reset_streams
    //@ret r
    //@spec     ensures r == (self.num_local_reset_streams < self.max_local_reset_streams),
    //@end

    //@extract src/proto/streams/counts.rs Counts::inc_num_reset_streams
    //@subst assert!(self.can_inc_num_reset_streams());=>assert(self.num_local_reset_streams < self.max_local_reset_streams);
    //@spec     requires old(self).num_local_reset_streams < old(self).max_local_reset_streams,
    //@spec     ensures
    //@spec         final(self).num_local_reset_streams == old(self).num_local_reset_streams + 1,
    //@spec         final(self).num_local_reset_streams <= final(self).max_local_reset_streams,
    //@spec         final(self).max_local_reset_streams == old(self).max_local_reset_streams,
    //@end

    //@extract src/proto/streams/counts.rs Counts::dec_num_reset_streams
    //@subst assert!(self.num_local_reset_streams > 0);=>assert(self.num_local_reset_streams > 0);
    //@spec     requires old(self).num_local_reset_streams > 0,
    //@spec     ensures final(self).num_local_reset_streams == old(self).num_local_reset_streams - 1,
    //@end

    //@extract src/proto/streams/counts.rs Counts::can_inc_num_remote_reset_streams
    //@ret r
    //@spec     ensures r == (self.num_remote_reset_streams < self.max_remote_reset_streams),
    //@end

    //@extract src/proto/streams/counts.rs Counts::inc_num_remote_reset_streams
    //@subst assert!(self.can_inc_num_remote_reset_streams());=>assert(self.num_remote_reset_streams < self.max_remote_reset_streams);
    //@spec     requires old(self).num_remote_reset_streams < old(self).max_remote_reset_streams,
    //@spec     ensures
    //@spec         final(self).num_remote_reset_streams == old(self).num_remote_reset_streams + 1,
    //@spec         final(self).num_remote_reset_streams <= final(self).max_remote_reset_streams,
    //@end

    //@extract src/proto/streams/counts.rs Counts::dec_num_remote_reset_streams
    //@subst assert!(self.num_remote_reset_streams > 0);=>assert(self.num_remote_reset_streams > 0);
    //@spec     requires old(self).num_remote_reset_streams > 0,
    //@spec     ensures final(self).num_remote_reset_streams == old(self).num_remote_reset_streams - 1,
    //@end

    //@extract src/proto/streams/counts.rs Counts::can_inc_num_local_error_resets
    //@ret r
    //@spec     ensures r == (match self.max_local_error_reset_streams { Some(m) => self.num_local_error_reset_streams < m, None => true }),
    //@end

    //@extract src/proto/streams/counts.rs Counts::has_streams
    //@ret r
    //@spec     ensures r == (self.num_send_streams != 0 || self.num_recv_streams != 0),
    //@end

    //@extract src/proto/streams/counts.rs Counts::next_send_stream_will_reach_capacity
    //@ret r
    //@spec     requires self.num_send_streams < usize::MAX,
    //@spec     ensures r == (self.max_send_streams <= self.num_send_streams + 1),
    //@end
}

// ================================================================================================
// C05: slot accounting over any history.  `open` = locally initiated streams currently counted.
// Admit is guarded by can_inc (the contract of pop_pending_open); Close is the decrement of
// transition_after (contract: a counted stream that is closed is uncounted exactly once).
// ================================================================================================
pub enum SlotEv {
    Admit,            // Counts::inc_num_send_streams (requires can_inc)
    Close,            // Counts::dec_num_streams via transition_after (requires a counted stream)
    SetLimit(usize),  // Counts::apply_remote_settings
}

pub struct SlotAcc {
    pub num: int,
    pub max: int,
    pub counted_streams: int,   // number of streams whose is_counted flag is set
}

pub open spec fn slot_step(pre: SlotAcc, e: SlotEv, post: SlotAcc) -> bool {
    match e {
        SlotEv::Admit => pre.num < pre.max && post.num == pre.num + 1 && post.max == pre.max && post.counted_streams == pre.counted_streams + 1,
        SlotEv::Close => pre.counted_streams > 0 && post.num == pre.num - 1 && post.max == pre.max && post.counted_streams == pre.counted_streams - 1,
        SlotEv::SetLimit(m) => post.num == pre.num && post.max == m as int && post.counted_streams == pre.counted_streams,
    }
}

pub open spec fn slot_history(states: Seq<SlotAcc>, evs: Seq<SlotEv>) -> bool {
    &&& states.len() == evs.len() + 1
    &&& forall|i: int| 0 <= i < evs.len() ==> #[trigger] slot_step(states[i], evs[i], states[i + 1])
}

pub proof fn lemma_C05_slots(states: Seq<SlotAcc>, evs: Seq<SlotEv>, k: int)
    requires
        slot_history(states, evs),
        states[0].num == 0 && states[0].counted_streams == 0,
        0 <= k <= evs.len(),
    ensures
        // the counter is exactly the number of counted streams: every close frees its slot, none is freed twice
        states[k].num == states[k].counted_streams && states[k].num >= 0,
        // at every admission the limit in force was respected
        k > 0 && evs[k - 1] is Admit ==> states[k].num <= states[k].max,
    decreases k,
{
    if k > 0 {
        lemma_C05_slots(states, evs, k - 1);
        let i = k - 1;
        assert(slot_step(states[i], evs[i], states[i + 1]));
    }
}

proof fn vacuity_probe_counts()
    ensures false,
{
}

} // verus!
