// @unit id=v_flow_control props=C02,C03,C16,C08 tier=quick
// Verus contracts on the real bodies of src/proto/streams/flow_control.rs, extracted on every run.
// The spec functions at the top ARE the step relations used by the credit-accounting lemmas
// (vspec/l_flow_lemmas.rs); the executable functions below them are /repo's text.
use vstd::prelude::*;

verus! {

pub type WindowSize = u32;
//@const src/proto/mod.rs MAX_WINDOW_SIZE

// Opaque stand-in for frame::Reason (only the constant FLOW_CONTROL_ERROR is used here).
#[derive(PartialEq, Eq, Clone, Copy, Debug)]
pub struct Reason(pub u32);
impl Reason {
    pub const FLOW_CONTROL_ERROR: Reason = Reason(3);
}

// R5: derive attributes dropped; field types verbatim.
#[derive(Clone, Copy)]
pub struct Window(pub i32);

#[derive(Clone, Copy)]
pub struct FlowControl {
    pub window_size: Window,
    pub available: Window,
}

// ---- assumed specifications of the core integer methods the bodies call (trusted, listed in evidence)
pub assume_specification [<i32>::overflowing_add] (a: i32, b: i32) -> (r: (i32, bool))
    ensures
        r.1 == (a + b > i32::MAX || a + b < i32::MIN),
        !r.1 ==> r.0 == a + b,
;

// (`checked_sub` / `checked_add` specifications come from vstd::std_specs::num)

// ---- specification side -------------------------------------------------------------------------

pub open spec fn sz_ok(sz: u32) -> bool {
    sz <= 0x7fff_ffff
}

pub open spec fn as_i(sz: u32) -> int {
    sz as int
}

impl Window {
    pub open spec fn v(self) -> int {
        self.0 as int
    }
}

impl FlowControl {
    pub open spec fn w(self) -> int {
        self.window_size.0 as int
    }

    pub open spec fn a(self) -> int {
        self.available.0 as int
    }
}

// ---- step relations: the postconditions of the writers, as named spec functions.  The SAME functions are
// the `ensures` of the extracted bodies below and the transition relation of the history lemmas at the end.

pub open spec fn step_inc_window(pre: FlowControl, sz: u32, post: FlowControl, ok: bool) -> bool {
    &&& post.a() == pre.a()
    &&& ok ==> post.w() == pre.w() + sz && post.w() <= 0x7fff_ffff
    &&& !ok ==> post.w() == pre.w() && pre.w() + sz > 0x7fff_ffff
}

pub open spec fn step_dec_send_window(pre: FlowControl, sz: u32, post: FlowControl, ok: bool) -> bool {
    &&& post.a() == pre.a()
    &&& ok ==> post.w() == pre.w() - sz
    &&& !ok ==> post.w() == pre.w() && pre.w() - sz < i32::MIN
}

pub open spec fn step_dec_recv_window(pre: FlowControl, sz: u32, post: FlowControl, ok: bool) -> bool {
    &&& ok ==> post.w() == pre.w() - sz && post.a() == pre.a() - sz
    &&& !ok ==> (pre.w() - sz < i32::MIN || pre.a() - sz < i32::MIN)
}

pub open spec fn step_send_data(pre: FlowControl, sz: u32, post: FlowControl, ok: bool) -> bool {
    &&& ok ==> post.w() == pre.w() - sz && post.a() == pre.a() - sz
    &&& ok && sz > 0 ==> post.w() >= 0
    &&& !ok ==> pre.a() - sz < i32::MIN
}

pub open spec fn step_assign_capacity(pre: FlowControl, n: u32, post: FlowControl, ok: bool) -> bool {
    &&& post.w() == pre.w()
    &&& ok ==> post.a() == pre.a() + n
    &&& !ok ==> post.a() == pre.a() && pre.a() + n > i32::MAX
}

pub open spec fn step_claim_capacity(pre: FlowControl, n: u32, post: FlowControl, ok: bool) -> bool {
    &&& post.w() == pre.w()
    &&& ok ==> post.a() == pre.a() - n
    &&& !ok ==> post.a() == pre.a() && pre.a() - n < i32::MIN
}

// ---- the real functions ---------------------------------------------------------------------------

impl Window {
    //@extract src/proto/streams/flow_control.rs Window::as_size
    //@ret r
    //@spec     ensures r as int == (if self.v() < 0 { 0 } else { self.v() }),
    //@end

    //@extract src/proto/streams/flow_control.rs Window::checked_size
    //@ret r
    //@subst assert!(self.0 >= 0, "negative Window");=>assert(self.0 >= 0);
    //@spec     requires self.v() >= 0,
    //@spec     ensures r as int == self.v(),
    //@end

    //@extract src/proto/streams/flow_control.rs Window::decrease_by
    //@ret r
    //@spec     requires sz_ok(other),
    //@spec     ensures
    //@spec         r.is_ok() ==> final(self).v() == old(self).v() - other,
    //@spec         r.is_err() ==> final(self).v() == old(self).v() && old(self).v() - other < i32::MIN,
    //@end

    //@extract src/proto/streams/flow_control.rs Window::add
    //@ret r
    //@spec     requires sz_ok(other),
    //@spec     ensures
    //@spec         r is Ok ==> r->Ok_0.v() == self.v() + other,
    //@spec         r.is_err() ==> self.v() + other > i32::MAX,
    //@end

    //@extract src/proto/streams/flow_control.rs Window::increase_by
    //@ret r
    //@spec     requires sz_ok(other),
    //@spec     ensures
    //@spec         r.is_ok() ==> final(self).v() == old(self).v() + other,
    //@spec         r.is_err() ==> final(self).v() == old(self).v() && old(self).v() + other > i32::MAX,
    //@end
}

impl FlowControl {
    //@extract src/proto/streams/flow_control.rs FlowControl::new
    //@ret r
    //@spec     ensures r.w() == 0 && r.a() == 0,
    //@end

    //@extract src/proto/streams/flow_control.rs FlowControl::window_size
    //@ret r
    //@spec     ensures r as int == (if self.w() < 0 { 0 } else { self.w() }),
    //@end

    //@extract src/proto/streams/flow_control.rs FlowControl::available
    //@ret r
    //@spec     ensures r.v() == self.a(),
    //@end

    //@extract src/proto/streams/flow_control.rs FlowControl::claim_capacity
    //@ret r
    //@spec     requires sz_ok(capacity),
    //@spec     ensures step_claim_capacity(*old(self), capacity, *final(self), r.is_ok()),
    //@end

    //@extract src/proto/streams/flow_control.rs FlowControl::assign_capacity
    //@ret r
    //@spec     requires sz_ok(capacity),
    //@spec     ensures step_assign_capacity(*old(self), capacity, *final(self), r.is_ok()),
    //@end

    //@extract src/proto/streams/flow_control.rs FlowControl::inc_window
    //@ret r
    //@spec     requires sz_ok(sz),
    //@spec     ensures
    //@spec         step_inc_window(*old(self), sz, *final(self), r.is_ok()),
    //@spec         r.is_err() ==> r == Err::<(), Reason>(Reason::FLOW_CONTROL_ERROR),
    //@end

    //@extract src/proto/streams/flow_control.rs FlowControl::dec_send_window
    //@ret r
    //@spec     requires sz_ok(sz),
    //@spec     ensures step_dec_send_window(*old(self), sz, *final(self), r.is_ok()),
    //@end

    //@extract src/proto/streams/flow_control.rs FlowControl::dec_recv_window
    //@ret r
    //@spec     requires sz_ok(sz),
    //@spec     ensures step_dec_recv_window(*old(self), sz, *final(self), r.is_ok()),
    //@end

    //@extract src/proto/streams/flow_control.rs FlowControl::send_data
    //@ret r
    //@subst assert!(self.window_size.0 >= sz as i32);=>assert(self.window_size.0 >= sz as i32);
    //@spec     requires
    //@spec         sz_ok(sz),
    //@spec         sz == 0 || old(self).w() >= sz,
    //@spec     ensures step_send_data(*old(self), sz, *final(self), r.is_ok()),
    //@end
}

// ================================================================================================
// History lemmas (composition arguments, unbounded: induction over the length of the history).
// ================================================================================================

// ---- C02: one send window (a stream's, or the connection's) over any history of events.
//   credit = initial window + acknowledged SETTINGS deltas + WINDOW_UPDATE increments received
//   sent   = flow-controlled bytes emitted
// Send(n) carries the precondition that the emission contracts establish (pop_frame: len <= window_size()).
pub enum SendEv {
    Update(u32),        // WINDOW_UPDATE received            -> FlowControl::inc_window
    SettingsUp(u32),    // INITIAL_WINDOW_SIZE raised by d    -> FlowControl::inc_window
    SettingsDown(u32),  // INITIAL_WINDOW_SIZE lowered by d   -> FlowControl::dec_send_window
    Send(u32),          // DATA of n bytes emitted            -> FlowControl::send_data
}

pub struct SendAcc {
    pub fc: FlowControl,
    pub credit: int,
    pub sent: int,
}

pub open spec fn send_step(pre: SendAcc, e: SendEv, post: SendAcc) -> bool {
    match e {
        SendEv::Update(n) | SendEv::SettingsUp(n) => exists|ok: bool| {
            &&& sz_ok(n)
            &&& #[trigger] step_inc_window(pre.fc, n, post.fc, ok)
            &&& post.sent == pre.sent
            &&& ok ==> post.credit == pre.credit + n
            &&& !ok ==> post.credit == pre.credit
        },
        SendEv::SettingsDown(n) => exists|ok: bool| {
            &&& sz_ok(n)
            &&& #[trigger] step_dec_send_window(pre.fc, n, post.fc, ok)
            &&& post.sent == pre.sent
            &&& ok ==> post.credit == pre.credit - n
            &&& !ok ==> post.credit == pre.credit
        },
        SendEv::Send(n) => {
            &&& sz_ok(n)
            &&& (n == 0 || pre.fc.w() >= n)          // established by the emission contract
            &&& step_send_data(pre.fc, n, post.fc, true)
            &&& post.sent == pre.sent + n
            &&& post.credit == pre.credit
        },
    }
}

pub open spec fn send_history(states: Seq<SendAcc>, evs: Seq<SendEv>) -> bool {
    &&& states.len() == evs.len() + 1
    &&& forall|i: int| 0 <= i < evs.len() ==> #[trigger] send_step(states[i], evs[i], states[i + 1])
}

pub open spec fn send_inv(s: SendAcc) -> bool {
    s.fc.w() == s.credit - s.sent
}

pub proof fn lemma_C02_send_credit(states: Seq<SendAcc>, evs: Seq<SendEv>, k: int)
    requires
        send_history(states, evs),
        send_inv(states[0]),
        0 <= k <= evs.len(),
    ensures
        // the window is exactly credit - sent at every instant
        send_inv(states[k]),
        // every non-empty emission stayed within the credit granted so far and found a positive window; while
        // the window is zero or negative (credit <= sent after a SETTINGS decrease) only zero-length DATA goes out
        k > 0 ==> (evs[k - 1] matches SendEv::Send(n) ==> (n > 0 ==> states[k].sent <= states[k].credit && states[k - 1].fc.w() > 0)),
    decreases k,
{
    if k > 0 {
        lemma_C02_send_credit(states, evs, k - 1);
        let i = k - 1;
        assert(send_step(states[i], evs[i], states[i + 1]));
    }
}

// ---- C03: one receive window level (stream or connection).
//   target = configured window; f = bytes handed out and not released; a = fc.available; w = fc.window_size
pub enum RecvEv {
    Data(u32),       // DATA of sz flow-controlled bytes accepted -> FlowControl::send_data, in_flight += sz
    Release(u32),    // application (or auto-release) returns n   -> in_flight -= n, FlowControl::assign_capacity
    Announce,        // WINDOW_UPDATE of (a - w) sent              -> FlowControl::inc_window
}

pub struct RecvAcc {
    pub fc: FlowControl,
    pub in_flight: int,
    pub target: int,
}

pub open spec fn recv_step(pre: RecvAcc, e: RecvEv, post: RecvAcc) -> bool {
    &&& post.target == pre.target
    &&& match e {
        RecvEv::Data(sz) => {
            &&& sz_ok(sz)
            &&& pre.fc.w() >= sz                                   // else FLOW_CONTROL_ERROR, no step
            &&& step_send_data(pre.fc, sz, post.fc, true)
            &&& post.in_flight == pre.in_flight + sz
        },
        RecvEv::Release(n) => {
            &&& sz_ok(n)
            &&& n <= pre.in_flight                                  // else ReleaseCapacityTooBig, no step
            &&& step_assign_capacity(pre.fc, n, post.fc, true)
            &&& post.in_flight == pre.in_flight - n
        },
        RecvEv::Announce => {
            &&& pre.fc.a() > pre.fc.w()
            &&& pre.fc.a() - pre.fc.w() <= 0x7fff_ffff
            &&& step_inc_window(pre.fc, (pre.fc.a() - pre.fc.w()) as u32, post.fc, true)
            &&& post.in_flight == pre.in_flight
        },
    }
}

pub open spec fn recv_history(states: Seq<RecvAcc>, evs: Seq<RecvEv>) -> bool {
    &&& states.len() == evs.len() + 1
    &&& forall|i: int| 0 <= i < evs.len() ==> #[trigger] recv_step(states[i], evs[i], states[i + 1])
}

pub open spec fn recv_inv(s: RecvAcc) -> bool {
    &&& s.fc.a() + s.in_flight == s.target      // nothing leaked, nothing created
    &&& s.fc.w() <= s.fc.a()                    // never advertises more than is available
    &&& s.in_flight >= 0
}

pub proof fn lemma_C03_recv_conserved(states: Seq<RecvAcc>, evs: Seq<RecvEv>, k: int)
    requires
        recv_history(states, evs),
        recv_inv(states[0]),
        0 <= k <= evs.len(),
    ensures
        recv_inv(states[k]),
        // the advertised window never exceeds the configured size
        states[k].fc.w() <= states[k].target,
        // once everything has been released and announced, the window is back at its configured size
        (states[k].in_flight == 0 && k > 0 && evs[k - 1] is Announce) ==> states[k].fc.w() == states[k].target,
    decreases k,
{
    if k > 0 {
        lemma_C03_recv_conserved(states, evs, k - 1);
        let i = k - 1;
        assert(recv_step(states[i], evs[i], states[i + 1]));
    }
}

// vacuity guard: must FAIL (a contradictory prelude would make it verify)
proof fn vacuity_probe_flow_control()
    ensures false,
{
}

} // verus!
