// @unit id=v_flow_control props=C02,C03,C16,C08 tier=quick
// Verus contracts on the real bodies of src/proto/streams/flow_control.rs, extracted on every run.
// The spec functions at the top ARE the step relations used by the credit-accounting lemmas
// (vspec/l_flow_lemmas.rs); the executable functions below them are /repo's text.
use vstd::prelude::*;

verus! {

pub type WindowSize = u32;
//@const src/proto/mod.rs MAX_WINDOW_SIZE

// Opaque stand-in for frame::Reason (only the constant FLOW_CONTROL_ERROR is used here).
#[derive(PartialEq, Eq, Clone, Copy, Debug)]
pub struct Reason(pub u32);
impl Reason {
    pub const FLOW_CONTROL_ERROR: Reason = Reason(3);
}

// R5: derive attributes dropped; field types verbatim.
#[derive(Clone, Copy)]
pub struct Window(pub i32);

#[derive(Clone, Copy)]
pub struct FlowControl {
    pub window_size: Window,
    pub available: Window,
}

// ---- assumed specifications of the core integer methods the bodies call (trusted, listed in evidence)
pub assume_specification [<i32>::overflowing_add] (a: i32, b: i32) -> (r: (i32, bool))
    ensures
        r.1 == (a + b > i32::MAX || a + b < i32::MIN),
        !r.1 ==> r.0 == a + b,
;

// (`checked_sub` / `checked_add` specifications come from vstd::std_specs::num)

// ---- specification side -------------------------------------------------------------------------

pub open spec fn sz_ok(sz: u32) -> bool {
    sz <= 0x7fff_ffff
}

pub open spec fn as_i(sz: u32) -> int {
    sz as int
}

impl Window {
    pub open spec fn v(self) -> int {
        self.0 as int
    }
}

impl FlowControl {
    pub open spec fn w(self) -> int {
        self.window_size.0 as int
    }

    pub open spec fn a(self) -> int {
        self.available.0 as int
    }
}

// ---- the real functions ---------------------------------------------------------------------------

impl Window {
    //@extract src/proto/streams/flow_control.rs Window::as_size
    //@ret r
    //@spec     ensures r as int == (if self.v() < 0 { 0 } else { self.v() }),
    //@end

    //@extract src/proto/streams/flow_control.rs Window::checked_size
    //@ret r
    //@subst assert!(self.0 >= 0, "negative Window");=>assert(self.0 >= 0);
    //@spec     requires self.v() >= 0,
    //@spec     ensures r as int == self.v(),
    //@end

    //@extract src/proto/streams/flow_control.rs Window::decrease_by
    //@ret r
    //@spec     requires sz_ok(other),
    //@spec     ensures
    //@spec         r.is_ok() ==> final(self).v() == old(self).v() - other,
    //@spec         r.is_err() ==> final(self).v() == old(self).v() && old(self).v() - other < i32::MIN,
    //@end

    //@extract src/proto/streams/flow_control.rs Window::add
    //@ret r
    //@spec     requires sz_ok(other),
    //@spec     ensures
    //@spec         r is Ok ==> r->Ok_0.v() == self.v() + other,
    //@spec         r.is_err() ==> self.v() + other > i32::MAX,
    //@end

    //@extract src/proto/streams/flow_control.rs Window::increase_by
    //@ret r
    //@spec     requires sz_ok(other),
    //@spec     ensures
    //@spec         r.is_ok() ==> final(self).v() == old(self).v() + other,
    //@spec         r.is_err() ==> final(self).v() == old(self).v() && old(self).v() + other > i32::MAX,
    //@end
}

impl FlowControl {
    //@extract src/proto/streams/flow_control.rs FlowControl::new
    //@ret r
    //@spec     ensures r.w() == 0 && r.a() == 0,
    //@end

    //@extract src/proto/streams/flow_control.rs FlowControl::window_size
    //@ret r
    //@spec     ensures r as int == (if self.w() < 0 { 0 } else { self.w() }),
    //@end

    //@extract src/proto/streams/flow_control.rs FlowControl::available
    //@ret r
    //@spec     ensures r.v() == self.a(),
    //@end

    //@extract src/proto/streams/flow_control.rs FlowControl::claim_capacity
    //@ret r
    //@spec     requires sz_ok(capacity),
    //@spec     ensures
    //@spec         final(self).w() == old(self).w(),
    //@spec         r.is_ok() ==> final(self).a() == old(self).a() - capacity,
    //@spec         r.is_err() ==> final(self).a() == old(self).a() && old(self).a() - capacity < i32::MIN,
    //@end

    //@extract src/proto/streams/flow_control.rs FlowControl::assign_capacity
    //@ret r
    //@spec     requires sz_ok(capacity),
    //@spec     ensures
    //@spec         final(self).w() == old(self).w(),
    //@spec         r.is_ok() ==> final(self).a() == old(self).a() + capacity,
    //@spec         r.is_err() ==> final(self).a() == old(self).a() && old(self).a() + capacity > i32::MAX,
    //@end

    //@extract src/proto/streams/flow_control.rs FlowControl::inc_window
    //@ret r
    //@spec     requires sz_ok(sz),
    //@spec     ensures
    //@spec         final(self).a() == old(self).a(),
    //@spec         r.is_ok() ==> final(self).w() == old(self).w() + sz && final(self).w() <= 0x7fff_ffff,
    //@spec         r.is_err() ==> final(self).w() == old(self).w() && old(self).w() + sz > 0x7fff_ffff,
    //@spec         r.is_err() ==> r == Err::<(), Reason>(Reason::FLOW_CONTROL_ERROR),
    //@end

    //@extract src/proto/streams/flow_control.rs FlowControl::dec_send_window
    //@ret r
    //@spec     requires sz_ok(sz),
    //@spec     ensures
    //@spec         final(self).a() == old(self).a(),
    //@spec         r.is_ok() ==> final(self).w() == old(self).w() - sz,
    //@spec         r.is_err() ==> final(self).w() == old(self).w() && old(self).w() - sz < i32::MIN,
    //@end

    //@extract src/proto/streams/flow_control.rs FlowControl::dec_recv_window
    //@ret r
    //@spec     requires sz_ok(sz),
    //@spec     ensures
    //@spec         r.is_ok() ==> final(self).w() == old(self).w() - sz && final(self).a() == old(self).a() - sz,
    //@spec         r.is_err() ==> (old(self).w() - sz < i32::MIN || old(self).a() - sz < i32::MIN),
    //@end

    //@extract src/proto/streams/flow_control.rs FlowControl::send_data
    //@ret r
    //@subst assert!(self.window_size.0 >= sz as i32);=>assert(self.window_size.0 >= sz as i32);
    //@spec     requires
    //@spec         sz_ok(sz),
    //@spec         sz == 0 || old(self).w() >= sz,
    //@spec     ensures
    //@spec         r.is_ok() ==> final(self).w() == old(self).w() - sz && final(self).a() == old(self).a() - sz,
    //@spec         r.is_ok() && sz > 0 ==> final(self).w() >= 0,
    //@spec         r.is_err() ==> old(self).a() - sz < i32::MIN,
    //@end
}

// vacuity guard: must FAIL (a contradictory prelude would make it verify)
proof fn vacuity_probe_flow_control()
    ensures false,
{
}

} // verus!
