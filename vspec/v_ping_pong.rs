// @unit id=v_ping_pong props=C14,C15,C07,C08 tier=quick
// Verus contracts on the REAL bodies of src/proto/ping_pong.rs (extracted on every run): `PingPong::{new, ping_shutdown,
// recv_ping, send_pending_pong, send_pending_ping}`.
//
// C14:  a PING from the peer is acknowledged EXACTLY ONCE with the SAME payload — under write back-pressure the payload
//   stays owed (nothing is lost, nothing is written twice); an ACK is never acknowledged; the ACK of our graceful-shutdown
//   PING is recognised by its payload, consumed once, and reported as "shutdown" (C15); any other ACK leaves the
//   outstanding shutdown PING outstanding; a user PING's ACK completes the user ping once; our PINGs are written once.
//
// Modelled by hand (ASSUMED): the 8-octet payload as a u64 (`[u8; 8]` with `==`); `UserPingsRx` (an `Arc` with an atomic
// state and two AtomicWakers, shared with the user's handle — other threads: C20, not applicable) as a plain state word with
// load / store / receive_pong (= the compare-exchange PENDING_PONG -> RECEIVED_PONG + wake); the codec as in v_settings
// (poll_ready from the transport state, buffer only after Ready(Ok), a ghost list of what was buffered).
// Listed substitutions: generics dropped; `?` on Poll<io::Result<()>> written out; `.expect` on buffer => assert(is_ok);
// reference comparisons of payloads (`&a == b`) => value comparisons; `Some(ref users)` => `Some(ref mut users)` (the
// model state word is not atomic); `users.0.state.load(..)` / `.store(..)` / `users.0.ping_task.register(..)` => the model
// methods.
use vstd::prelude::*;

verus! {

global size_of usize == 8;

pub type PingPayload = u64;

pub enum Poll<T> { Ready(T), Pending }
impl<T> Poll<T> {
    pub fn is_ready(&self) -> (r: bool) ensures r == (self is Ready) { match self { Poll::Ready(_) => true, Poll::Pending => false } }
}
pub struct Context { pub tag: u8 }

/// frame::Ping, reduced
#[derive(PartialEq, Eq, Structural, Clone, Copy, Debug)]
pub struct Ping { pub ack: bool, pub payload: PingPayload }
impl Ping {
    pub const SHUTDOWN: PingPayload = 0x0b7ba2f08b9bfe54;
    pub const USER: PingPayload = 0x3b7cdb7a0b8716b4;
    pub fn new(payload: PingPayload) -> (r: Ping) ensures r == (Ping { ack: false, payload }) { Ping { ack: false, payload } }
    pub fn pong(payload: PingPayload) -> (r: Ping) ensures r == (Ping { ack: true, payload }) { Ping { ack: true, payload } }
    pub fn is_ack(&self) -> (r: bool) ensures r == self.ack { self.ack }
    pub fn payload(&self) -> (r: PingPayload) ensures r == self.payload { self.payload }
    pub fn into_payload(self) -> (r: PingPayload) ensures r == self.payload { self.payload }
}

pub struct Codec { pub sent: Ghost<Seq<Ping>> }
impl Codec {
    pub uninterp spec fn next_ready(self) -> Poll<Result<(), u8>>;
    pub uninterp spec fn has_room(self) -> bool;
    #[verifier::external_body]
    pub fn poll_ready(&mut self, cx: &mut Context) -> (r: Poll<Result<(), u8>>)
        ensures r == old(self).next_ready(), final(self).sent@ == old(self).sent@, (r matches Poll::Ready(Ok(_))) ==> final(self).has_room(),
    { unimplemented!() }
    #[verifier::external_body]
    pub fn buffer(&mut self, item: Ping) -> (r: Result<(), u8>)
        requires old(self).has_room(),
        ensures r is Ok, final(self).sent@ == old(self).sent@.push(item),
    { unimplemented!() }
}

pub const USER_STATE_EMPTY: usize = 0;
pub const USER_STATE_PENDING_PING: usize = 1;
pub const USER_STATE_PENDING_PONG: usize = 2;
pub const USER_STATE_RECEIVED_PONG: usize = 3;
pub const USER_STATE_CLOSED: usize = 4;

/// UserPingsRx (see header)
pub struct UserPingsRx { pub state: usize, pub pong_woken: Ghost<int>, pub ping_task_registered: Ghost<bool> }
impl UserPingsRx {
    pub fn load(&self) -> (r: usize) ensures r == self.state { self.state }
    pub fn store(&mut self, v: usize) ensures *final(self) == (UserPingsRx { state: v, ..*old(self) }) { self.state = v; }
    #[verifier::external_body]
    pub fn register_ping_task(&mut self, cx: &mut Context) ensures *final(self) == (UserPingsRx { ping_task_registered: Ghost(true), ..*old(self) }) { unimplemented!() }
    /// UserPingsRx::receive_pong: compare_exchange(PENDING_PONG -> RECEIVED_PONG); on success wake the waiter
    pub fn receive_pong(&mut self) -> (r: bool)
        ensures
            old(self).state == USER_STATE_PENDING_PONG ==> r && final(self).state == USER_STATE_RECEIVED_PONG && final(self).pong_woken@ == old(self).pong_woken@ + 1,
            old(self).state != USER_STATE_PENDING_PONG ==> !r && *final(self) == *old(self),
    {
        if self.state == USER_STATE_PENDING_PONG { self.state = USER_STATE_RECEIVED_PONG; proof { self.pong_woken@ = self.pong_woken@ + 1; } true } else { false }
    }
}

#[derive(PartialEq, Eq, Structural, Clone, Copy, Debug)]
pub struct PendingPing { pub payload: PingPayload, pub sent: bool }

#[derive(PartialEq, Eq, Structural, Clone, Copy, Debug)]
pub enum ReceivedPing { MustAck, Unknown, Shutdown }

pub struct PingPong {
    pub pending_ping: Option<PendingPing>,
    pub pending_pong: Option<PingPayload>,
    pub user_pings: Option<UserPingsRx>,
}

impl PingPong {
    //@extract src/proto/ping_pong.rs PingPong::new
    //@ret r
    //@spec     ensures r.pending_ping is None && r.pending_pong is None && r.user_pings is None,
    //@end

    //@extract src/proto/ping_pong.rs PingPong::ping_shutdown
    //@spec     requires old(self).pending_ping is None,      // the real assert!: only Connection::go_away_gracefully calls it, once (I-shutdown, unit v_connection)
    //@spec     ensures final(self).pending_ping == Some(PendingPing { payload: Ping::SHUTDOWN, sent: false }) && final(self).pending_pong == old(self).pending_pong,
    //@end

    //@extract src/proto/ping_pong.rs PingPong::recv_ping
    //@subst if &pending.payload == ping.payload() {=>if pending.payload == ping.payload() {
    //@subst assert!((&pending.payload) == (&Ping::SHUTDOWN));=>assert(pending.payload == Ping::SHUTDOWN);
    //@subst if let Some(ref users) = self.user_pings {=>if let Some(ref mut users) = self.user_pings {
    //@subst if ping.payload() == &Ping::USER && users.receive_pong() {=>if ping.payload() == Ping::USER && users.receive_pong() {
    //@ret r
    //@spec     requires
    //@spec         // I-single-slot: the previous PING was acknowledged before the next frame is read (Connection::poll_ready)
    //@spec         old(self).pending_pong is None,
    //@spec         // the only PING this endpoint sends on its own is the graceful-shutdown PING (the real assert_eq!)
    //@spec         old(self).pending_ping matches Some(p) ==> p.payload == Ping::SHUTDOWN,
    //@spec     ensures
    //@spec         // a PING: must be acknowledged with the same payload; nothing else changes
    //@spec         !ping.ack ==> r == ReceivedPing::MustAck && final(self).pending_pong == Some(ping.payload) && final(self).pending_ping == old(self).pending_ping,
    //@spec         // an ACK is never acknowledged
    //@spec         ping.ack ==> final(self).pending_pong is None && r != ReceivedPing::MustAck,
    //@spec         // C15: the ACK of the shutdown PING — recognised by payload, consumed exactly once
    //@spec         (ping.ack && old(self).pending_ping is Some && ping.payload == Ping::SHUTDOWN) ==> r == ReceivedPing::Shutdown && final(self).pending_ping is None,
    //@spec         // any other ACK leaves an outstanding shutdown PING outstanding
    //@spec         (ping.ack && !(old(self).pending_ping is Some && ping.payload == Ping::SHUTDOWN)) ==> r == ReceivedPing::Unknown && final(self).pending_ping == old(self).pending_ping,
    //@spec         // a user PING's ACK completes the user ping (once: the state leaves PENDING_PONG) and wakes its waiter
    //@spec         (ping.ack && !(old(self).pending_ping is Some && ping.payload == Ping::SHUTDOWN) && ping.payload == Ping::USER
    //@spec             && (old(self).user_pings matches Some(u) && u.state == USER_STATE_PENDING_PONG)) ==>
    //@spec                 (final(self).user_pings matches Some(u2) && u2.state == USER_STATE_RECEIVED_PONG && u2.pong_woken@ == old(self).user_pings->Some_0.pong_woken@ + 1),
    //@spec         (final(self).user_pings is Some) == (old(self).user_pings is Some),
    //@end

    //@extract src/proto/ping_pong.rs PingPong::send_pending_pong
    //@subst_re pub fn send_pending_pong<T, B>\(\s*&mut self,\s*cx: &mut Context,\s*dst: &mut Codec<T, B>,\s*\) -> Poll<io::Result<\(\)>>\s*where\s*T: AsyncWrite \+ Unpin,\s*B: Buf,=>pub fn send_pending_pong(&mut self, cx: &mut Context, dst: &mut Codec) -> Poll<Result<(), u8>>
    //@subst if !dst.poll_ready(cx)?.is_ready() {=>let _pr = dst.poll_ready(cx); if let Poll::Ready(Err(e)) = _pr { return Poll::Ready(Err(e)); } if !_pr.is_ready() {
    //@subst_re dst\.buffer\(Ping::pong\(pong\)\.into\(\)\)\s*\.expect\("invalid pong frame"\);=>let _b = dst.buffer(Ping::pong(pong)); assert(_b.is_ok());
    //@ret r
    //@spec     ensures
    //@spec         final(self).pending_ping == old(self).pending_ping,
    //@spec         old(self).pending_pong is None ==> r == Poll::<Result<(), u8>>::Ready(Ok(())) && final(dst).sent@ == old(dst).sent@ && final(self).pending_pong is None,
    //@spec         old(self).pending_pong matches Some(p) ==> (match old(dst).next_ready() {
    //@spec             // back-pressure: the ACK stays owed with the same payload, nothing is written
    //@spec             Poll::Pending => r is Pending && final(self).pending_pong == old(self).pending_pong && final(dst).sent@ == old(dst).sent@,
    //@spec             Poll::Ready(Err(e)) => r == Poll::<Result<(), u8>>::Ready(Err(e)) && final(dst).sent@ == old(dst).sent@,
    //@spec             // exactly one PING+ACK with the SAME payload; the slot is empty
    //@spec             Poll::Ready(Ok(_)) => r == Poll::<Result<(), u8>>::Ready(Ok(())) && final(self).pending_pong is None && final(dst).sent@ == old(dst).sent@.push(Ping { ack: true, payload: p }),
    //@spec         }),
    //@end

    //@extract src/proto/ping_pong.rs PingPong::send_pending_ping
    //@subst_re pub fn send_pending_ping<T, B>\(\s*&mut self,\s*cx: &mut Context,\s*dst: &mut Codec<T, B>,\s*\) -> Poll<io::Result<\(\)>>\s*where\s*T: AsyncWrite \+ Unpin,\s*B: Buf,=>pub fn send_pending_ping(&mut self, cx: &mut Context, dst: &mut Codec) -> Poll<Result<(), u8>>
    //@subst_re if !dst\.poll_ready\(cx\)\?\.is_ready\(\) \{=>let _pr = dst.poll_ready(cx); if let Poll::Ready(Err(e)) = _pr { return Poll::Ready(Err(e)); } if !_pr.is_ready() {
    //@subst_re dst\.buffer\(Ping::new\(ping\.payload\)\.into\(\)\)\s*\.expect\("invalid ping frame"\);=>let _b = dst.buffer(Ping::new(ping.payload)); assert(_b.is_ok());
    //@subst_re dst\.buffer\(Ping::new\(Ping::USER\)\.into\(\)\)\s*\.expect\("invalid ping frame"\);=>let _b2 = dst.buffer(Ping::new(Ping::USER)); assert(_b2.is_ok());
    //@subst } else if let Some(ref users) = self.user_pings {=>} else if let Some(ref mut users) = self.user_pings {
    //@subst if users.0.state.load(Ordering::Acquire) == USER_STATE_PENDING_PING {=>if users.load() == USER_STATE_PENDING_PING {
    //@subst_re users\s*\.0\s*\.state\s*\.store\(USER_STATE_PENDING_PONG, Ordering::Release\);=>users.store(USER_STATE_PENDING_PONG);
    //@subst users.0.ping_task.register(cx.waker());=>users.register_ping_task(cx);
    //@ret r
    //@spec     ensures
    //@spec         final(self).pending_pong == old(self).pending_pong,
    //@spec         // our shutdown PING: written exactly once (sent flag), stays unsent under back-pressure
    //@spec         (old(self).pending_ping matches Some(p) && !p.sent) ==> (match old(dst).next_ready() {
    //@spec             Poll::Pending => r is Pending && final(self).pending_ping == old(self).pending_ping && final(dst).sent@ == old(dst).sent@,
    //@spec             Poll::Ready(Err(e)) => r == Poll::<Result<(), u8>>::Ready(Err(e)) && final(dst).sent@ == old(dst).sent@,
    //@spec             Poll::Ready(Ok(_)) => r == Poll::<Result<(), u8>>::Ready(Ok(())) && final(self).pending_ping == Some(PendingPing { payload: old(self).pending_ping->Some_0.payload, sent: true })
    //@spec                 && final(dst).sent@ == old(dst).sent@.push(Ping { ack: false, payload: old(self).pending_ping->Some_0.payload }),
    //@spec         }),
    //@spec         (old(self).pending_ping matches Some(p) && p.sent) ==> r == Poll::<Result<(), u8>>::Ready(Ok(())) && final(dst).sent@ == old(dst).sent@ && final(self).pending_ping == old(self).pending_ping,
    //@spec         // a user PING waits behind an outstanding shutdown PING; otherwise it is written once (state PENDING_PING -> PENDING_PONG)
    //@spec         (old(self).pending_ping is None && (old(self).user_pings matches Some(u) && u.state == USER_STATE_PENDING_PING)) ==> (match old(dst).next_ready() {
    //@spec             Poll::Pending => r is Pending && final(dst).sent@ == old(dst).sent@ && (final(self).user_pings matches Some(u2) && u2.state == USER_STATE_PENDING_PING),
    //@spec             Poll::Ready(Err(e)) => r == Poll::<Result<(), u8>>::Ready(Err(e)) && final(dst).sent@ == old(dst).sent@,
    //@spec             Poll::Ready(Ok(_)) => r == Poll::<Result<(), u8>>::Ready(Ok(())) && final(dst).sent@ == old(dst).sent@.push(Ping { ack: false, payload: Ping::USER })
    //@spec                 && (final(self).user_pings matches Some(u2) && u2.state == USER_STATE_PENDING_PONG),
    //@spec         }),
    //@spec         // nothing to send: nothing is written; the connection registers for the user's next ping (C06 store-before-wait)
    //@spec         (old(self).pending_ping is None && !(old(self).user_pings matches Some(u) && u.state == USER_STATE_PENDING_PING)) ==> r == Poll::<Result<(), u8>>::Ready(Ok(())) && final(dst).sent@ == old(dst).sent@
    //@spec             && (old(self).user_pings is Some ==> (final(self).user_pings matches Some(u2) && u2.ping_task_registered@)),
    //@end
}

proof fn vacuity_probe_ping_pong()
    ensures false,
{
}

} // verus!
