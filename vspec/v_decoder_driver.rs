// @unit id=v_decoder_driver props=C11,C10,C08 tier=quick
// Verus contract on the REAL body of hpack::Decoder::decode (src/hpack/decoder.rs, extracted on every run): the driver
// loop that turns a header-block fragment into fields.  What the property needs from it (C11 "...also when a block is
// split across CONTINUATION frames at any offset", C10 decoder side):
//
//   I-resume  at the head of every iteration the cursor stands at position 0 of the buffer — every representation
//             that was decoded AND handed to the callback has been REMOVED from the buffer (committed).  A fragment
//             that ends in the middle of a representation returns NeedMore with exactly the undecoded tail still in the
//             buffer, so that the next CONTINUATION is appended to it and nothing is decoded twice or skipped;
//   Ok        means the whole fragment was consumed (or the callback asked to stop);
//   RFC 7541 §4.2  a dynamic table size update after a field representation of the same fragment is a decoding
//             error (InvalidMaxDynamicSize); the acknowledged limit queued by SETTINGS takes effect at the block start.
//
// Modelled by hand (ASSUMED, each verified or exercised elsewhere): `Cursor<&mut BytesMut>` as (bytes, position);
// `peek_u8`, `consume` (= take(buf, 0): drops the first `position` octets, position := 0); the representation
// decoders `decode_indexed`, `decode_literal`, `process_size_update` as "on Ok the position advanced by at least one
// octet and the bytes are unchanged" (their value semantics: Kani units hpack_dec_*, Verus unit v_decoder_table);
// `Table::insert`.  The callback `f: FnMut(Header) -> ControlFlow<()>` (Verus has no FnMut capturing state) becomes an
// explicit sink `out: &mut Sink` whose `emit` appends to a ghost log and answers break/continue arbitrarily — listed
// substitutions: signature, and `f(entry).is_break()` => `out.emit(entry)`.
use vstd::prelude::*;

verus! {

global size_of usize == 8;

//@struct src/hpack/decoder.rs DecoderError
//@struct src/hpack/decoder.rs NeedMore

#[derive(Clone, Copy, Debug)]
pub enum Representation { Indexed, LiteralWithIndexing, LiteralWithoutIndexing, LiteralNeverIndexed, SizeUpdate }

/// A decoded header field, reduced to an opaque token.
#[derive(Clone, Copy, Debug)]
pub struct Header { pub tok: u64 }

/// Cursor<&mut BytesMut>: the fragment bytes not yet committed, and the read position inside them.
pub struct Cur { pub bytes: Ghost<Seq<u8>>, pub pos: Ghost<int> }

impl Cur {
    pub open spec fn wf(self) -> bool { 0 <= self.pos@ <= self.bytes@.len() }
    /// the octets still to be decoded: everything from the read position on
    pub open spec fn rest(self) -> Seq<u8> { self.bytes@.skip(self.pos@) }
}

/// `a` is what is left of `b` after some octets were taken from its front
pub open spec fn is_suffix(a: Seq<u8>, b: Seq<u8>) -> bool { a == b || (a.len() < b.len() && a == b.skip(b.len() - a.len())) }

pub proof fn lemma_suffix_trans(a: Seq<u8>, b: Seq<u8>, c: Seq<u8>)
    requires is_suffix(a, b), is_suffix(b, c),
    ensures is_suffix(a, c),
{
    if a != b && b != c {
        assert(c.skip(c.len() - b.len()).skip(b.len() - a.len()) =~= c.skip(c.len() - a.len()));
    }
}

#[verifier::external_body]
pub fn peek_u8(buf: &Cur) -> (r: Option<u8>)
    requires buf.wf(),
    ensures match r { Some(b) => buf.pos@ < buf.bytes@.len() && b == buf.bytes@[buf.pos@], None => buf.pos@ == buf.bytes@.len() },
{ unimplemented!() }

/// decoder.rs `consume` = `take(buf, 0)`: split_to(position), position := 0
#[verifier::external_body]
pub fn consume(buf: &mut Cur)
    requires old(buf).wf(),
    ensures final(buf).pos@ == 0, final(buf).bytes@ == old(buf).bytes@.skip(old(buf).pos@),
{ unimplemented!() }

impl Representation {
    /// Representation::load — total classification of the first octet (Kani unit hpack_dec_representation_load, all 256)
    #[verifier::external_body]
    pub fn load(byte: u8) -> (r: Result<Representation, DecoderError>)
    { unimplemented!() }
}

pub struct Table { pub tag: u8 }
impl Table {
    #[verifier::external_body]
    pub fn insert(&mut self, entry: Header) { unimplemented!() }
}

/// The callback, made explicit: everything handed over is logged (ghost), the answer is arbitrary.
pub struct Sink { pub log: Ghost<Seq<Header>> }
impl Sink {
    #[verifier::external_body]
    pub fn emit(&mut self, h: Header) -> (stop: bool)
        ensures final(self).log@ == old(self).log@.push(h),
    { unimplemented!() }
}

pub struct Decoder {
    pub max_size_update: Option<usize>,
    pub last_max_update: usize,
    pub table: Table,
}

impl Header {
    #[verifier::external_body]
    pub fn clone(&self) -> (r: Header) ensures r == *self { unimplemented!() }
}

impl Decoder {
    /// the three representation decoders, as seen by the driver (PROVED for the real bodies of decode_indexed /
    /// decode_literal in unit v_decoder_strings): they read forward from the cursor position; on Ok what is left to decode
    /// is a PROPER suffix of what was left before (a literal string is already cut out of the buffer by `take`, a Huffman
    /// string or an index only moves the position — either way the same octets are gone); when the input ends inside the
    /// representation (NeedMore) the buffer content is unchanged (only the position may have moved) — on any other error
    /// (a decoding error ends the connection) it is at least still a suffix of what it was
    #[verifier::external_body]
    pub fn decode_indexed(&self, buf: &mut Cur) -> (r: Result<Header, DecoderError>)
        requires old(buf).wf(), old(buf).pos@ < old(buf).bytes@.len(),
        ensures final(buf).wf(), (r matches Err(DecoderError::NeedMore(_))) ==> final(buf).bytes@ == old(buf).bytes@, is_suffix(final(buf).bytes@, old(buf).bytes@),
            r is Ok ==> is_suffix(final(buf).rest(), old(buf).rest()) && final(buf).rest().len() < old(buf).rest().len(),
    { unimplemented!() }

    #[verifier::external_body]
    pub fn decode_literal(&mut self, buf: &mut Cur, index: bool) -> (r: Result<Header, DecoderError>)
        requires old(buf).wf(), old(buf).pos@ < old(buf).bytes@.len(),
        ensures final(buf).wf(), (r matches Err(DecoderError::NeedMore(_))) ==> final(buf).bytes@ == old(buf).bytes@, is_suffix(final(buf).bytes@, old(buf).bytes@),
            r is Ok ==> is_suffix(final(buf).rest(), old(buf).rest()) && final(buf).rest().len() < old(buf).rest().len(),
            final(self).max_size_update == old(self).max_size_update && final(self).last_max_update == old(self).last_max_update,
    { unimplemented!() }

    #[verifier::external_body]
    pub fn process_size_update(&mut self, buf: &mut Cur) -> (r: Result<(), DecoderError>)
        requires old(buf).wf(), old(buf).pos@ < old(buf).bytes@.len(),
        ensures final(buf).wf(), (r matches Err(DecoderError::NeedMore(_))) ==> final(buf).bytes@ == old(buf).bytes@, is_suffix(final(buf).bytes@, old(buf).bytes@),
            r is Ok ==> is_suffix(final(buf).rest(), old(buf).rest()) && final(buf).rest().len() < old(buf).rest().len(),
            final(self).max_size_update == old(self).max_size_update && final(self).last_max_update == old(self).last_max_update,
    { unimplemented!() }

    //@extract src/hpack/decoder.rs Decoder::decode
    //@attr #[verifier::exec_allows_no_decreases_clause]
    //@subst_re pub fn decode<F>\(\s*&mut self,\s*src: &mut Cursor<&mut BytesMut>,\s*mut f: F,\s*\) -> Result<\(\), DecoderError>\s*where\s*F: FnMut\(Header\) -> ControlFlow<\(\)>, ==>> pub fn decode(&mut self, src: &mut Cur, out: &mut Sink) -> Result<(), DecoderError>
    //@subst f(entry).is_break()=>out.emit(entry)
    //@before while let Some(ty) = peek_u8(src)=>proof { assert(src.bytes@.skip(0) =~= src.bytes@); assert(is_suffix(src.rest(), old(src).bytes@)); }
    //@subst consume(src);=>let ghost r1 = src.rest(); consume(src); proof { assert(src.bytes@.skip(0) =~= src.bytes@); assert(src.rest() == r1); }
    //@subst_re let entry = self\.decode_(indexed|literal)\(src(, (?:true|false))?\)\?; ==>> let ghost r0 = src.rest(); proof { assert(r0 =~= src.bytes@); } let _res = self.decode_\1(src\2); proof { lemma_suffix_trans(src.bytes@, r0, old(src).bytes@); } let entry = _res?; proof { lemma_suffix_trans(src.rest(), r0, old(src).bytes@); }
    //@subst_re self\.process_size_update\(src\)\?; ==>> let ghost r0 = src.rest(); proof { assert(r0 =~= src.bytes@); } let _res = self.process_size_update(src); proof { lemma_suffix_trans(src.bytes@, r0, old(src).bytes@); } _res?; proof { lemma_suffix_trans(src.rest(), r0, old(src).bytes@); }
    //@subst use self::Representation::*;=>
    //@subst_re \bIndexed => \{ ==>> Representation::Indexed => {
    //@subst_re \bLiteralWithIndexing => \{ ==>> Representation::LiteralWithIndexing => {
    //@subst_re \bLiteralWithoutIndexing => \{ ==>> Representation::LiteralWithoutIndexing => {
    //@subst_re \bLiteralNeverIndexed => \{ ==>> Representation::LiteralNeverIndexed => {
    //@subst_re \bSizeUpdate => \{ ==>> Representation::SizeUpdate => {
    //@ret r
    //@spec     requires old(src).wf() && old(src).pos@ == 0,      // framed_read.rs hands over the Partial buffer from its start
    //@spec     ensures
    //@spec         final(src).wf(),
    //@spec         // the acknowledged table-size limit queued by SETTINGS is in force from the block start on
    //@spec         old(self).max_size_update is Some ==> final(self).last_max_update == old(self).max_size_update->Some_0 && final(self).max_size_update is None,
    //@spec         old(self).max_size_update is None ==> final(self).last_max_update == old(self).last_max_update && final(self).max_size_update is None,
    //@spec         // what is left in the buffer is a SUFFIX of the fragment: nothing is duplicated, reordered or invented
    //@spec         r is Ok ==> is_suffix(final(src).bytes@, old(src).bytes@),
    //@spec         r is Err ==> is_suffix(final(src).bytes@, old(src).bytes@),
    //@spec         // Ok: everything was consumed, unless the callback stopped the decoding; and the cursor is at a representation boundary
    //@spec         r is Ok ==> final(src).pos@ == 0,
    //@spec         // fields were only ever appended to the output
    //@spec         final(out).log@.len() >= old(out).log@.len() && final(out).log@.subrange(0, old(out).log@.len() as int) =~= old(out).log@,
    //@loop 0     invariant
    //@loop 0         src.wf() && src.pos@ == 0,                      // I-resume
    //@loop 0         is_suffix(src.bytes@, old(src).bytes@),
    //@loop 0         self.max_size_update is None,
    //@loop 0         self.last_max_update == (if old(self).max_size_update is Some { old(self).max_size_update->Some_0 } else { old(self).last_max_update }),
    //@loop 0         out.log@.len() >= old(out).log@.len() && out.log@.subrange(0, old(out).log@.len() as int) =~= old(out).log@,
    //@end
}

proof fn vacuity_probe_decoder_driver()
    ensures false,
{
}

} // verus!
