// @unit id=v_framed_write props=C12,C01,C04,C08 tier=quick
// Verus contracts on the REAL bodies of src/codec/framed_write.rs `FramedWrite::flush`, `Encoder::buffer`,
// `Encoder::unset_frame`, `Encoder::is_empty`, `Encoder::has_capacity` (extracted on every run): the last stage before the transport.
//
// C12 / C01 / C04:  whatever was accepted for sending — the encoded bytes in the write buffer, the payload of a parked DATA
//   frame, the rest of a header block parked as CONTINUATION — reaches the transport EXACTLY ONCE and IN ORDER, for ANY
//   sequence of partial writes: at every return of `flush` (Ready, Pending, error)
//          bytes written so far ++ bytes still to write  ==  the same sum at entry,
//   `Ready(Ok)` is only returned when nothing is left and the transport was flushed, a transport that accepts zero bytes
//   while bytes are left is reported as WriteZero (C08: no busy loop), and a header block is finished (all its
//   CONTINUATION frames) before anything else can be buffered (`has_capacity` is false while something is parked).
//
// Modelled by hand (ASSUMED): the transport `T: AsyncWrite` as a recorder of the bytes it accepted; `Cursor<BytesMut>` and
// the DATA payload `B: Buf` as the byte sequences still to be written; `tokio_util::io::poll_write_buf` on the cursor and
// on `cursor.chain(payload)` (writes SOME prefix — any length 0..=remaining — and advances by it; Pending / Err write
// nothing); `frame::Continuation::encode` under the frame-size limit (moves a prefix of the block into the buffer, returns
// the rest: Verus unit v_headers_encode on the real bodies, Kani unit hdr_encode_frame_size_continuation).  Listed substitutions: `ready!(e)?` written out; `Pin::new(&mut
// self.inner)` => `self.inner`; the two poll_write_buf calls => the two model functions; `limited_write_buf!(self)` and
// `frame.encode(&mut buf)` => `encode_continuation(frame, &mut self.buf)`; `self.buf.set_position(0);
// self.buf.get_mut().clear();` => `self.buf.reset()`.
use vstd::prelude::*;

verus! {

global size_of usize == 8;

pub enum Poll<T> { Ready(T), Pending }
pub struct Context { pub tag: u8 }

#[derive(PartialEq, Eq, Structural, Clone, Copy, Debug)]
pub enum IoErr { WriteZero, Other(u8) }

/// Cursor<BytesMut>: the encoded bytes not yet handed to the transport
pub struct CursorBuf { pub rem: Ghost<Seq<u8>>, pub free: usize }
impl CursorBuf {
    #[verifier::external_body]
    pub fn has_remaining(&self) -> (r: bool) ensures r == (self.rem@.len() > 0) { unimplemented!() }
    /// `set_position(0); get_mut().clear()` — only ever called when everything was written
    #[verifier::external_body]
    pub fn reset(&mut self) ensures final(self).rem@.len() == 0 { unimplemented!() }
    /// `get_ref().capacity() - get_ref().len()`
    pub fn free_space(&self) -> (r: usize) ensures r == self.free { self.free }
}

/// the payload of a parked DATA frame (B: Buf)
pub struct Payload { pub rem: Ghost<Seq<u8>> }
impl Payload {
    #[verifier::external_body]
    pub fn has_remaining(&self) -> (r: bool) ensures r == (self.rem@.len() > 0) { unimplemented!() }
}
pub struct DataF { pub payload: Payload }
impl DataF {
    pub fn payload(&self) -> (r: &Payload) ensures *r == self.payload { &self.payload }
}

/// frame::Continuation: the part of a header block that did not fit the previous frame; `bytes` = everything it will put
/// on the wire (all CONTINUATION frames it unfolds into, heads included)
pub struct Cont { pub bytes: Ghost<Seq<u8>> }

pub enum Next { Data(DataF), Continuation(Cont) }

pub enum ControlFlow { Continue, Break }

#[derive(PartialEq, Eq, Structural, Clone, Copy, Debug)]
pub enum UserError { PayloadTooBig, Other(u8) }

impl CursorBuf {
    /// Buf::remaining of the cursor
    #[verifier::external_body]
    pub fn remaining(&self) -> (r: usize) ensures r == self.rem@.len() { unimplemented!() }

    /// `self.buf.get_mut().put(payload.take(n))`: moves the first min(n, remaining) octets of the payload behind the buffer
    #[verifier::external_body]
    pub fn put_from(&mut self, payload: &mut Payload, n: usize)
        ensures
            final(self).rem@ + final(payload).rem@ == old(self).rem@ + old(payload).rem@,
            final(payload).rem@.len() == (if old(payload).rem@.len() >= n { old(payload).rem@.len() - n } else { 0 }),
    { unimplemented!() }
}
impl Payload {
    #[verifier::external_body]
    pub fn remaining(&self) -> (r: usize) ensures r == self.rem@.len() { unimplemented!() }
}

/// frame::Head of a DATA frame (opaque) and its 9 encoded octets for a given payload length
pub struct HeadM { pub id: u64 }
pub uninterp spec fn head_bytes(id: u64, len: int) -> Seq<u8>;
impl HeadM {
    #[verifier::external_body]
    pub fn encode(&self, payload_len: usize, dst: &mut CursorBuf)
        ensures final(dst).rem@ == old(dst).rem@ + head_bytes(self.id, payload_len as int), final(dst).free == old(dst).free,
            head_bytes(self.id, payload_len as int).len() == 9,       // frame::HEADER_LEN (Kani unit head_roundtrip)
    { unimplemented!() }
}
impl DataF {
    pub uninterp spec fn id(self) -> u64;
    #[verifier::external_body]
    pub fn head(&self) -> (r: HeadM) ensures r.id == self.id() { unimplemented!() }
    #[verifier::external_body]
    pub fn payload_mut(&mut self) -> (r: &mut Payload) { unimplemented!() }
    /// Data::encode_chunk: head and the WHOLE payload go into the buffer (Kani unit data_encode_chunk)
    #[verifier::external_body]
    pub fn encode_chunk(&mut self, dst: &mut CursorBuf)
        ensures final(dst).rem@ == old(dst).rem@ + head_bytes(old(self).id(), old(self).payload.rem@.len() as int) + old(self).payload.rem@,
            final(self).payload.rem@.len() == 0, final(self).id() == old(self).id(),
    { unimplemented!() }
}

/// HEADERS / PUSH_PROMISE frames: `wire` = everything the header block puts on the wire (first frame + CONTINUATIONs)
pub struct HdrF { pub wire: Ghost<Seq<u8>> }
/// `let mut buf = limited_write_buf!(self); v.encode(&mut self.hpack, &mut buf)`
#[verifier::external_body]
pub fn encode_headers(v: HdrF, buf: &mut CursorBuf) -> (r: Option<Cont>)
    ensures final(buf).rem@ + (match r { Some(c) => c.bytes@, None => Seq::<u8>::empty() }) == old(buf).rem@ + v.wire@,
{ unimplemented!() }

/// control frames (SETTINGS, GOAWAY, PING, WINDOW_UPDATE, RST_STREAM): encode appends their wire form (C12 round-trip units)
pub struct CtlF { pub wire: Ghost<Seq<u8>> }
impl CtlF {
    #[verifier::external_body]
    pub fn encode(&self, dst: &mut CursorBuf)
        ensures final(dst).rem@ == old(dst).rem@ + self.wire@,
    { unimplemented!() }
}

pub enum Frame { Data(DataF), Headers(HdrF), PushPromise(HdrF), Settings(CtlF), GoAway(CtlF), Ping(CtlF), WindowUpdate(CtlF), Priority(CtlF), Reset(CtlF) }

/// the octets a frame owes the wire
pub open spec fn wire(item: Frame) -> Seq<u8> {
    match item {
        Frame::Data(v) => head_bytes(v.id(), v.payload.rem@.len() as int) + v.payload.rem@,
        Frame::Headers(v) => v.wire@,
        Frame::PushPromise(v) => v.wire@,
        Frame::Settings(v) => v.wire@,
        Frame::GoAway(v) => v.wire@,
        Frame::Ping(v) => v.wire@,
        Frame::WindowUpdate(v) => v.wire@,
        Frame::Priority(v) => v.wire@,
        Frame::Reset(v) => v.wire@,
    }
}

/// the transport
pub struct Io { pub out: Ghost<Seq<u8>>, pub flushed: Ghost<bool> }
impl Io {
    /// tokio_util::io::poll_write_buf(io, cx, &mut cursor)
    #[verifier::external_body]
    pub fn poll_write_one(&mut self, cx: &mut Context, buf: &mut CursorBuf) -> (r: Poll<Result<usize, IoErr>>)
        ensures
            match r {
                Poll::Ready(Ok(n)) => n <= old(buf).rem@.len() && final(self).out@ == old(self).out@ + old(buf).rem@.take(n as int) && final(buf).rem@ == old(buf).rem@.skip(n as int),
                _ => final(self).out@ == old(self).out@ && final(buf).rem@ == old(buf).rem@,
            },
    { unimplemented!() }

    /// tokio_util::io::poll_write_buf(io, cx, &mut cursor.chain(payload)): the cursor's bytes first, then the payload's
    #[verifier::external_body]
    pub fn poll_write_chain(&mut self, cx: &mut Context, buf: &mut CursorBuf, payload: &mut Payload) -> (r: Poll<Result<usize, IoErr>>)
        ensures
            match r {
                Poll::Ready(Ok(n)) => n <= old(buf).rem@.len() + old(payload).rem@.len()
                    && final(self).out@ == old(self).out@ + (old(buf).rem@ + old(payload).rem@).take(n as int)
                    && final(buf).rem@ + final(payload).rem@ == (old(buf).rem@ + old(payload).rem@).skip(n as int)
                    // Chain: the first buffer is drained before the second is touched
                    && (n < old(buf).rem@.len() ==> final(payload).rem@ == old(payload).rem@)
                    && (n >= old(buf).rem@.len() ==> final(buf).rem@.len() == 0),
                _ => final(self).out@ == old(self).out@ && final(buf).rem@ == old(buf).rem@ && final(payload).rem@ == old(payload).rem@,
            },
    { unimplemented!() }

    #[verifier::external_body]
    pub fn poll_flush(&mut self, cx: &mut Context) -> (r: Poll<Result<(), IoErr>>)
        ensures final(self).out@ == old(self).out@, (r matches Poll::Ready(Ok(_))) ==> final(self).flushed@,
    { unimplemented!() }
}

/// `let mut buf = limited_write_buf!(self); frame.encode(&mut buf)`: the next CONTINUATION frame goes into the (empty) write
/// buffer, what still does not fit comes back — together exactly the bytes the block still owed
#[verifier::external_body]
pub fn encode_continuation(frame: Cont, buf: &mut CursorBuf) -> (r: Option<Cont>)
    requires old(buf).rem@.len() == 0,
    ensures
        final(buf).rem@.len() > 0,         // at least the 9-octet frame head: progress
        final(buf).rem@ + (match r { Some(c) => c.bytes@, None => Seq::<u8>::empty() }) == frame.bytes@,
{ unimplemented!() }

pub struct Encoder {
    pub buf: CursorBuf,
    pub next: Option<Next>,
    pub last_data_frame: Option<DataF>,
    pub min_buffer_capacity: usize,
    pub max_frame_size: u32,
    pub chain_threshold: usize,
}

impl Encoder {
    /// everything accepted for sending and not yet handed to the transport, in wire order
    pub open spec fn todo(self) -> Seq<u8> {
        self.buf.rem@ + (match self.next {
            Some(Next::Data(f)) => f.payload.rem@,
            Some(Next::Continuation(c)) => c.bytes@,
            None => Seq::<u8>::empty(),
        })
    }

    //@extract src/codec/framed_write.rs Encoder::is_empty
    //@subst !self.buf.has_remaining()=>!self.buf.has_remaining()
    //@ret r
    //@spec     ensures
    //@spec         r == (match self.next { Some(Next::Data(f)) => f.payload.rem@.len() == 0, _ => self.buf.rem@.len() == 0 }),
    //@end

    //@extract src/codec/framed_write.rs Encoder::has_capacity
    //@subst_re \(self\.buf\.get_ref\(\)\.capacity\(\) - self\.buf\.get_ref\(\)\.len\(\)\s*>= self\.min_buffer_capacity\)=>(self.buf.free_space() >= self.min_buffer_capacity)
    //@ret r
    //@spec     ensures
    //@spec         // C04: nothing else is accepted while a DATA payload or the rest of a header block is parked
    //@spec         r == (self.next is None && self.buf.free >= self.min_buffer_capacity),
    //@end

    //@extract src/codec/framed_write.rs Encoder::max_frame_size
    //@ret r
    //@spec     ensures r == self.max_frame_size as usize,
    //@end

    // Accepting a frame for sending (C12 / C01 / C04): its wire form is appended BEHIND everything accepted earlier — a DATA
    // frame as head ++ payload whether the payload is copied into the buffer (small) or parked behind its head (large:
    // I-chain, the precondition of flush, is established here), a header block as first frame ++ parked CONTINUATIONs —;
    // a DATA payload above the peer's SETTINGS_MAX_FRAME_SIZE is refused and nothing changes; the real
    // `assert!(self.has_capacity())` and `unimplemented!()` (PRIORITY is never sent) are obligations under the stated
    // preconditions.
    // Listed substitutions: `self.buf.get_mut()` => `&mut self.buf`; `get_ref().remaining()` => `remaining()`;
    // `.put(v.payload_mut().take(n))` => `put_from(&mut v.payload, n)`; `limited_write_buf!` + `v.encode(&mut self.hpack, &mut
    // buf)` => `encode_headers(v, &mut self.buf)`.
    //@extract src/codec/framed_write.rs Encoder::buffer
    //@subst fn buffer(&mut self, item: Frame<B>) -> Result<(), UserError>=>fn buffer(&mut self, item: Frame) -> Result<(), UserError>
    //@subst return Err(PayloadTooBig);=>return Err(UserError::PayloadTooBig);
    //@subst head.encode(len, self.buf.get_mut());=>head.encode(len, &mut self.buf);
    //@subst if self.buf.get_ref().remaining() < self.chain_threshold {=>if self.buf.remaining() < self.chain_threshold {
    //@subst self.buf.get_mut().put(v.payload_mut().take(extra_bytes));=>self.buf.put_from(&mut v.payload, extra_bytes);
    //@subst v.encode_chunk(self.buf.get_mut());=>v.encode_chunk(&mut self.buf);
    //@subst_re let mut buf = limited_write_buf!\(self\);\s*if let Some\(continuation\) = v\.encode\(&mut self\.hpack, &mut buf\) \{=>if let Some(continuation) = encode_headers(v, &mut self.buf) {
    //@subst v.encode(self.buf.get_mut());=>v.encode(&mut self.buf);
    //@subst unimplemented!();=>assert(false);
    //@ret r
    //@spec     requires
    //@spec         // FramedWrite::poll_ready answered Ready (the real assert! on has_capacity): nothing is parked
    //@spec         old(self).next is None && old(self).buf.free >= old(self).min_buffer_capacity,
    //@spec         !(item is Priority),          // h2 never sends PRIORITY frames
    //@spec         // the peer's SETTINGS_MAX_FRAME_SIZE is at least 16384 (RFC 9113 6.5.2; Settings::load), CHAIN_THRESHOLD is 256 or 1024
    //@spec         old(self).max_frame_size >= 16_384 && 1 <= old(self).chain_threshold <= 1024,
    //@spec     ensures
    //@spec         r is Ok ==> final(self).todo() == old(self).todo() + wire(item),
    //@spec         // I-chain for flush
    //@spec         final(self).next matches Some(Next::Data(f)) ==> f.payload.rem@.len() > 0,
    //@spec         // RFC 9113 4.2: a payload above the peer's limit is refused, nothing is buffered
    //@spec         r is Err ==> r == Err::<(), UserError>(UserError::PayloadTooBig) && (item matches Frame::Data(v) && v.payload.rem@.len() > old(self).max_frame_size)
    //@spec             && final(self).todo() == old(self).todo() && final(self).next is None,
    //@spec         (item matches Frame::Data(v) && v.payload.rem@.len() <= old(self).max_frame_size) ==> r is Ok,
    //@end

    //@extract src/codec/framed_write.rs Encoder::unset_frame
    //@subst_re self\.buf\.set_position\(0\);\s*self\.buf\.get_mut\(\)\.clear\(\);=>self.buf.reset();
    //@subst_re let mut buf = limited_write_buf!\(self\);\s*if let Some\(continuation\) = frame\.encode\(&mut buf\) \{=>if let Some(continuation) = encode_continuation(frame, &mut self.buf) {
    //@ret r
    //@spec     requires
    //@spec         // called by flush when is_empty(): the buffer was written out, and so was a parked payload (a payload is only
    //@spec         // parked behind an encoded head; poll_write_chain drains the head first — I-chain below)
    //@spec         old(self).buf.rem@.len() == 0,
    //@spec         old(self).next matches Some(Next::Data(f)) ==> f.payload.rem@.len() == 0,
    //@spec     ensures
    //@spec         // nothing owed is lost: the next CONTINUATION frame is in the buffer, the rest still parked
    //@spec         final(self).todo() == old(self).todo(),
    //@spec         (r is Continue) == (old(self).next matches Some(Next::Continuation(_))),
    //@spec         r is Continue ==> final(self).buf.rem@.len() > 0 && !(final(self).next matches Some(Next::Data(_))),
    //@spec         r is Break ==> final(self).next is None && final(self).todo().len() == 0,
    //@end
}

pub struct FramedWrite {
    pub inner: Io,
    pub encoder: Encoder,
    pub final_flush_done: bool,
}

impl FramedWrite {
    //@extract src/codec/framed_write.rs FramedWrite::flush
    //@attr #[verifier::exec_allows_no_decreases_clause]
    //@subst_re pub fn flush\(&mut self, cx: &mut Context\) -> Poll<io::Result<\(\)>>=>pub fn flush(&mut self, cx: &mut Context) -> Poll<Result<(), IoErr>>
    //@subst_re let mut buf = \(&mut self\.encoder\.buf\)\.chain\(frame\.payload_mut\(\)\);\s*ready!\(poll_write_buf\(Pin::new\(&mut self\.inner\), cx, &mut buf\)\)\? ==>> match self.inner.poll_write_chain(cx, &mut self.encoder.buf, &mut frame.payload) { Poll::Pending => { return Poll::Pending; } Poll::Ready(Err(e)) => { return Poll::Ready(Err(e)); } Poll::Ready(Ok(n)) => n }
    //@subst_re ready!\(poll_write_buf\(\s*Pin::new\(&mut self\.inner\),\s*cx,\s*&mut self\.encoder\.buf\s*\)\)\? ==>> match self.inner.poll_write_one(cx, &mut self.encoder.buf) { Poll::Pending => { return Poll::Pending; } Poll::Ready(Err(e)) => { return Poll::Ready(Err(e)); } Poll::Ready(Ok(n)) => n }
    //@subst return Poll::Ready(Err(io::ErrorKind::WriteZero.into()));=>return Poll::Ready(Err(IoErr::WriteZero));
    //@subst ready!(Pin::new(&mut self.inner).poll_flush(cx))?;=>match self.inner.poll_flush(cx) { Poll::Pending => { return Poll::Pending; } Poll::Ready(Err(e)) => { return Poll::Ready(Err(e)); } Poll::Ready(Ok(())) => {} }
    //@ret r
    //@spec     requires
    //@spec         // I-chain: a DATA payload is parked only behind its encoded head, and the chained write drains the buffer first
    //@spec         // (Encoder::buffer puts the head into the buffer before parking the payload) — so an empty payload with bytes
    //@spec         // left in the buffer does not occur
    //@spec         old(self).encoder.next matches Some(Next::Data(f)) ==> (f.payload.rem@.len() == 0 ==> old(self).encoder.buf.rem@.len() == 0),
    //@spec     ensures
    //@spec         // C12/C01: at EVERY return, nothing accepted for sending was lost, duplicated or reordered
    //@spec         final(self).inner.out@ + final(self).encoder.todo() == old(self).inner.out@ + old(self).encoder.todo(),
    //@spec         // done means done: everything written, transport flushed
    //@spec         (r matches Poll::Ready(Ok(_))) ==> final(self).encoder.todo().len() == 0 && final(self).encoder.next is None && final(self).inner.flushed@,
    //@spec         final(self).final_flush_done == old(self).final_flush_done,
    //@loop 0     invariant
    //@loop 0         self.inner.out@ + self.encoder.todo() == old(self).inner.out@ + old(self).encoder.todo(),
    //@loop 0         self.final_flush_done == old(self).final_flush_done,
    //@loop 0         self.encoder.next matches Some(Next::Data(f)) ==> (f.payload.rem@.len() == 0 ==> self.encoder.buf.rem@.len() == 0),
    //@loop 0     ensures
    //@loop 0         self.encoder.todo().len() == 0 && self.encoder.next is None,
    //@loop_opt 1     invariant
    //@loop_opt 1         self.inner.out@ + self.encoder.todo() == old(self).inner.out@ + old(self).encoder.todo(),
    //@loop_opt 1         self.final_flush_done == old(self).final_flush_done,
    //@loop_opt 1         self.encoder.next matches Some(Next::Data(f)) ==> (f.payload.rem@.len() == 0 ==> self.encoder.buf.rem@.len() == 0),
    //@end
}

proof fn vacuity_probe_framed_write()
    ensures false,
{
}

} // verus!
