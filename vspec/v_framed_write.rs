// @unit id=v_framed_write props=C12,C01,C04,C08 tier=quick
// Verus contracts on the REAL bodies of src/codec/framed_write.rs `FramedWrite::flush`, `Encoder::unset_frame`,
// `Encoder::is_empty`, `Encoder::has_capacity` (extracted on every run): the last stage before the transport.
//
// C12 / C01 / C04:  whatever was accepted for sending — the encoded bytes in the write buffer, the payload of a parked DATA
//   frame, the rest of a header block parked as CONTINUATION — reaches the transport EXACTLY ONCE and IN ORDER, for ANY
//   sequence of partial writes: at every return of `flush` (Ready, Pending, error)
//          bytes written so far ++ bytes still to write  ==  the same sum at entry,
//   `Ready(Ok)` is only returned when nothing is left and the transport was flushed, a transport that accepts zero bytes
//   while bytes are left is reported as WriteZero (C08: no busy loop), and a header block is finished (all its
//   CONTINUATION frames) before anything else can be buffered (`has_capacity` is false while something is parked).
//
// Modelled by hand (ASSUMED): the transport `T: AsyncWrite` as a recorder of the bytes it accepted; `Cursor<BytesMut>` and
// the DATA payload `B: Buf` as the byte sequences still to be written; `tokio_util::io::poll_write_buf` on the cursor and
// on `cursor.chain(payload)` (writes SOME prefix — any length 0..=remaining — and advances by it; Pending / Err write
// nothing); `frame::Continuation::encode` under the frame-size limit (moves a prefix of the block into the buffer, returns
// the rest: Kani unit hdr_encode_frame_size_continuation).  Listed substitutions: `ready!(e)?` written out; `Pin::new(&mut
// self.inner)` => `self.inner`; the two poll_write_buf calls => the two model functions; `limited_write_buf!(self)` and
// `frame.encode(&mut buf)` => `encode_continuation(frame, &mut self.buf)`; `self.buf.set_position(0);
// self.buf.get_mut().clear();` => `self.buf.reset()`.
use vstd::prelude::*;

verus! {

global size_of usize == 8;

pub enum Poll<T> { Ready(T), Pending }
pub struct Context { pub tag: u8 }

#[derive(PartialEq, Eq, Structural, Clone, Copy, Debug)]
pub enum IoErr { WriteZero, Other(u8) }

/// Cursor<BytesMut>: the encoded bytes not yet handed to the transport
pub struct CursorBuf { pub rem: Ghost<Seq<u8>>, pub free: usize }
impl CursorBuf {
    #[verifier::external_body]
    pub fn has_remaining(&self) -> (r: bool) ensures r == (self.rem@.len() > 0) { unimplemented!() }
    /// `set_position(0); get_mut().clear()` — only ever called when everything was written
    #[verifier::external_body]
    pub fn reset(&mut self) ensures final(self).rem@.len() == 0 { unimplemented!() }
    /// `get_ref().capacity() - get_ref().len()`
    pub fn free_space(&self) -> (r: usize) ensures r == self.free { self.free }
}

/// the payload of a parked DATA frame (B: Buf)
pub struct Payload { pub rem: Ghost<Seq<u8>> }
impl Payload {
    #[verifier::external_body]
    pub fn has_remaining(&self) -> (r: bool) ensures r == (self.rem@.len() > 0) { unimplemented!() }
}
pub struct DataF { pub payload: Payload }
impl DataF {
    pub fn payload(&self) -> (r: &Payload) ensures *r == self.payload { &self.payload }
}

/// frame::Continuation: the part of a header block that did not fit the previous frame; `bytes` = everything it will put
/// on the wire (all CONTINUATION frames it unfolds into, heads included)
pub struct Cont { pub bytes: Ghost<Seq<u8>> }

pub enum Next { Data(DataF), Continuation(Cont) }

pub enum ControlFlow { Continue, Break }

/// the transport
pub struct Io { pub out: Ghost<Seq<u8>>, pub flushed: Ghost<bool> }
impl Io {
    /// tokio_util::io::poll_write_buf(io, cx, &mut cursor)
    #[verifier::external_body]
    pub fn poll_write_one(&mut self, cx: &mut Context, buf: &mut CursorBuf) -> (r: Poll<Result<usize, IoErr>>)
        ensures
            match r {
                Poll::Ready(Ok(n)) => n <= old(buf).rem@.len() && final(self).out@ == old(self).out@ + old(buf).rem@.take(n as int) && final(buf).rem@ == old(buf).rem@.skip(n as int),
                _ => final(self).out@ == old(self).out@ && final(buf).rem@ == old(buf).rem@,
            },
    { unimplemented!() }

    /// tokio_util::io::poll_write_buf(io, cx, &mut cursor.chain(payload)): the cursor's bytes first, then the payload's
    #[verifier::external_body]
    pub fn poll_write_chain(&mut self, cx: &mut Context, buf: &mut CursorBuf, payload: &mut Payload) -> (r: Poll<Result<usize, IoErr>>)
        ensures
            match r {
                Poll::Ready(Ok(n)) => n <= old(buf).rem@.len() + old(payload).rem@.len()
                    && final(self).out@ == old(self).out@ + (old(buf).rem@ + old(payload).rem@).take(n as int)
                    && final(buf).rem@ + final(payload).rem@ == (old(buf).rem@ + old(payload).rem@).skip(n as int)
                    // Chain: the first buffer is drained before the second is touched
                    && (n < old(buf).rem@.len() ==> final(payload).rem@ == old(payload).rem@)
                    && (n >= old(buf).rem@.len() ==> final(buf).rem@.len() == 0),
                _ => final(self).out@ == old(self).out@ && final(buf).rem@ == old(buf).rem@ && final(payload).rem@ == old(payload).rem@,
            },
    { unimplemented!() }

    #[verifier::external_body]
    pub fn poll_flush(&mut self, cx: &mut Context) -> (r: Poll<Result<(), IoErr>>)
        ensures final(self).out@ == old(self).out@, (r matches Poll::Ready(Ok(_))) ==> final(self).flushed@,
    { unimplemented!() }
}

/// `let mut buf = limited_write_buf!(self); frame.encode(&mut buf)`: the next CONTINUATION frame goes into the (empty) write
/// buffer, what still does not fit comes back — together exactly the bytes the block still owed
#[verifier::external_body]
pub fn encode_continuation(frame: Cont, buf: &mut CursorBuf) -> (r: Option<Cont>)
    requires old(buf).rem@.len() == 0,
    ensures
        final(buf).rem@.len() > 0,         // at least the 9-octet frame head: progress
        final(buf).rem@ + (match r { Some(c) => c.bytes@, None => Seq::<u8>::empty() }) == frame.bytes@,
{ unimplemented!() }

pub struct Encoder {
    pub buf: CursorBuf,
    pub next: Option<Next>,
    pub last_data_frame: Option<DataF>,
    pub min_buffer_capacity: usize,
}

impl Encoder {
    /// everything accepted for sending and not yet handed to the transport, in wire order
    pub open spec fn todo(self) -> Seq<u8> {
        self.buf.rem@ + (match self.next {
            Some(Next::Data(f)) => f.payload.rem@,
            Some(Next::Continuation(c)) => c.bytes@,
            None => Seq::<u8>::empty(),
        })
    }

    //@extract src/codec/framed_write.rs Encoder::is_empty
    //@subst !self.buf.has_remaining()=>!self.buf.has_remaining()
    //@ret r
    //@spec     ensures
    //@spec         r == (match self.next { Some(Next::Data(f)) => f.payload.rem@.len() == 0, _ => self.buf.rem@.len() == 0 }),
    //@end

    //@extract src/codec/framed_write.rs Encoder::has_capacity
    //@subst_re \(self\.buf\.get_ref\(\)\.capacity\(\) - self\.buf\.get_ref\(\)\.len\(\)\s*>= self\.min_buffer_capacity\)=>(self.buf.free_space() >= self.min_buffer_capacity)
    //@ret r
    //@spec     ensures
    //@spec         // C04: nothing else is accepted while a DATA payload or the rest of a header block is parked
    //@spec         r == (self.next is None && self.buf.free >= self.min_buffer_capacity),
    //@end

    //@extract src/codec/framed_write.rs Encoder::unset_frame
    //@subst_re self\.buf\.set_position\(0\);\s*self\.buf\.get_mut\(\)\.clear\(\);=>self.buf.reset();
    //@subst_re let mut buf = limited_write_buf!\(self\);\s*if let Some\(continuation\) = frame\.encode\(&mut buf\) \{=>if let Some(continuation) = encode_continuation(frame, &mut self.buf) {
    //@ret r
    //@spec     requires
    //@spec         // called by flush when is_empty(): the buffer was written out, and so was a parked payload (a payload is only
    //@spec         // parked behind an encoded head; poll_write_chain drains the head first — I-chain below)
    //@spec         old(self).buf.rem@.len() == 0,
    //@spec         old(self).next matches Some(Next::Data(f)) ==> f.payload.rem@.len() == 0,
    //@spec     ensures
    //@spec         // nothing owed is lost: the next CONTINUATION frame is in the buffer, the rest still parked
    //@spec         final(self).todo() == old(self).todo(),
    //@spec         (r is Continue) == (old(self).next matches Some(Next::Continuation(_))),
    //@spec         r is Continue ==> final(self).buf.rem@.len() > 0 && !(final(self).next matches Some(Next::Data(_))),
    //@spec         r is Break ==> final(self).next is None && final(self).todo().len() == 0,
    //@end
}

pub struct FramedWrite {
    pub inner: Io,
    pub encoder: Encoder,
    pub final_flush_done: bool,
}

impl FramedWrite {
    //@extract src/codec/framed_write.rs FramedWrite::flush
    //@attr #[verifier::exec_allows_no_decreases_clause]
    //@subst_re pub fn flush\(&mut self, cx: &mut Context\) -> Poll<io::Result<\(\)>>=>pub fn flush(&mut self, cx: &mut Context) -> Poll<Result<(), IoErr>>
    //@subst_re let mut buf = \(&mut self\.encoder\.buf\)\.chain\(frame\.payload_mut\(\)\);\s*ready!\(poll_write_buf\(Pin::new\(&mut self\.inner\), cx, &mut buf\)\)\? ==>> match self.inner.poll_write_chain(cx, &mut self.encoder.buf, &mut frame.payload) { Poll::Pending => { return Poll::Pending; } Poll::Ready(Err(e)) => { return Poll::Ready(Err(e)); } Poll::Ready(Ok(n)) => n }
    //@subst_re ready!\(poll_write_buf\(\s*Pin::new\(&mut self\.inner\),\s*cx,\s*&mut self\.encoder\.buf\s*\)\)\? ==>> match self.inner.poll_write_one(cx, &mut self.encoder.buf) { Poll::Pending => { return Poll::Pending; } Poll::Ready(Err(e)) => { return Poll::Ready(Err(e)); } Poll::Ready(Ok(n)) => n }
    //@subst return Poll::Ready(Err(io::ErrorKind::WriteZero.into()));=>return Poll::Ready(Err(IoErr::WriteZero));
    //@subst ready!(Pin::new(&mut self.inner).poll_flush(cx))?;=>match self.inner.poll_flush(cx) { Poll::Pending => { return Poll::Pending; } Poll::Ready(Err(e)) => { return Poll::Ready(Err(e)); } Poll::Ready(Ok(())) => {} }
    //@ret r
    //@spec     requires
    //@spec         // I-chain: a DATA payload is parked only behind its encoded head, and the chained write drains the buffer first
    //@spec         // (Encoder::buffer puts the head into the buffer before parking the payload) — so an empty payload with bytes
    //@spec         // left in the buffer does not occur
    //@spec         old(self).encoder.next matches Some(Next::Data(f)) ==> (f.payload.rem@.len() == 0 ==> old(self).encoder.buf.rem@.len() == 0),
    //@spec     ensures
    //@spec         // C12/C01: at EVERY return, nothing accepted for sending was lost, duplicated or reordered
    //@spec         final(self).inner.out@ + final(self).encoder.todo() == old(self).inner.out@ + old(self).encoder.todo(),
    //@spec         // done means done: everything written, transport flushed
    //@spec         (r matches Poll::Ready(Ok(_))) ==> final(self).encoder.todo().len() == 0 && final(self).encoder.next is None && final(self).inner.flushed@,
    //@spec         final(self).final_flush_done == old(self).final_flush_done,
    //@loop 0     invariant
    //@loop 0         self.inner.out@ + self.encoder.todo() == old(self).inner.out@ + old(self).encoder.todo(),
    //@loop 0         self.final_flush_done == old(self).final_flush_done,
    //@loop 0         self.encoder.next matches Some(Next::Data(f)) ==> (f.payload.rem@.len() == 0 ==> self.encoder.buf.rem@.len() == 0),
    //@loop 0     ensures
    //@loop 0         self.encoder.todo().len() == 0 && self.encoder.next is None,
    //@loop_opt 1     invariant
    //@loop_opt 1         self.inner.out@ + self.encoder.todo() == old(self).inner.out@ + old(self).encoder.todo(),
    //@loop_opt 1         self.final_flush_done == old(self).final_flush_done,
    //@loop_opt 1         self.encoder.next matches Some(Next::Data(f)) ==> (f.payload.rem@.len() == 0 ==> self.encoder.buf.rem@.len() == 0),
    //@end
}

proof fn vacuity_probe_framed_write()
    ensures false,
{
}

} // verus!
