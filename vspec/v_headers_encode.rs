// @unit id=v_headers_encode props=C12,C04,C08 tier=quick
// Verus contracts on the REAL bodies of src/frame/headers.rs `EncodingHeaderBlock::encode`, `Headers::encode`,
// `PushPromise::encode`, `Continuation::encode` and src/frame/head.rs `Head::encode` (extracted on every run): how a header
// block becomes HEADERS / PUSH_PROMISE / CONTINUATION frames.
//
// C12:  the frame that is appended to the write buffer is  head(kind, flags, stream id, LENGTH) ++ payload  with
//       LENGTH == the number of payload octets actually written (24-bit field patched afterwards: proved to be the payload
//       length, big endian, and to fit 24 bits), the WHOLE frame — 9-octet head, the promised stream id of a PUSH_PROMISE,
//       the header block fragment — stays within the budget the caller set (`max_frame_size + 9`): the peer's
//       SETTINGS_MAX_FRAME_SIZE is never exceeded, whatever the length of the header block;
//       the fragment written ++ the fragment parked in the returned Continuation == the header block: no octet of the
//       HPACK block is lost, repeated or reordered when it is split over CONTINUATION frames (any block length);
// C04:  END_HEADERS is cleared on the frame exactly when a Continuation is returned, the Continuation carries the same
//       stream id, a returned Continuation is never empty and the frame before it is full (so the chain terminates).
// C08:  the real `assert!` on the 24-bit length, the index arithmetic on the buffer and `-= END_HEADERS` cannot fail.
//
// Modelled by hand (ASSUMED): `BytesMut` as a byte sequence (`len`, `split_to`, reading / patching octets already written);
// `EncodeBuf = bytes::buf::Limit<&mut BytesMut>` as (inner, limit): every `put_*` through the Limit REQUIRES room (the real
// one panics), appends to the inner buffer and charges the limit; `get_mut()` hands out the inner buffer WITHOUT charging
// (as the real one does — so writing the promised id through it, past the budget, breaks the postcondition);
// `HeaderBlock::into_encoding` (runs the HPACK encoder: an uninterpreted octet string) and `Encoder::return_scratch`.
// Listed substitutions: the type alias `EncodeBuf<'_>` => `EncodeBuf`; `T: BufMut` of Head::encode instantiated with
// EncodeBuf; `x.into()` of the flag / id newtypes => `.0`; `|_| {}` / `|dst| {` get the closure contract Verus needs
// (`requires` room for 4 octets, `ensures` what was appended was charged); `to_be_bytes` / `iter().all` / slice
// `copy_from_slice` / indexing on the model type => the model functions `u64_be`, `first5_zero`, `patch3`, `byte_at`, `sub_at`.
use vstd::prelude::*;

verus! {

global size_of usize == 8;

#[derive(PartialEq, Eq, Structural, Clone, Copy, Debug)]
pub struct StreamId(pub u32);
impl StreamId {
    pub fn zero() -> (r: StreamId) ensures r == StreamId(0) { StreamId(0) }
}

pub open spec fn b0(n: int) -> u8 { ((n / 0x1000000) % 256) as u8 }
pub open spec fn b1(n: int) -> u8 { ((n / 0x10000) % 256) as u8 }
pub open spec fn b2(n: int) -> u8 { ((n / 0x100) % 256) as u8 }
pub open spec fn b3(n: int) -> u8 { (n % 256) as u8 }
pub open spec fn be24(n: int) -> Seq<u8> { seq![b1(n), b2(n), b3(n)] }
pub open spec fn be32(n: int) -> Seq<u8> { seq![b0(n), b1(n), b2(n), b3(n)] }

pub struct BytesMut { pub b: Ghost<Seq<u8>> }
impl BytesMut {
    #[verifier::external_body]
    pub fn len(&self) -> (r: usize) ensures r == self.b@.len() { unimplemented!() }
    #[verifier::external_body]
    pub fn split_to(&mut self, at: usize) -> (r: BytesMut)
        requires at <= old(self).b@.len(),            // the real one panics otherwise
        ensures r.b@ == old(self).b@.take(at as int), final(self).b@ == old(self).b@.skip(at as int),
    { unimplemented!() }
    /// `buf[i]`
    #[verifier::external_body]
    pub fn byte_at(&self, i: usize) -> (r: u8)
        requires i < self.b@.len(),
        ensures r == self.b@[i as int],
    { unimplemented!() }
    /// `buf[i] -= x`
    #[verifier::external_body]
    pub fn sub_at(&mut self, i: usize, x: u8)
        requires i < old(self).b@.len(), old(self).b@[i as int] >= x,     // overflow check of `-=`
        ensures final(self).b@ == old(self).b@.update(i as int, (old(self).b@[i as int] - x) as u8),
    { unimplemented!() }
    /// `(buf[at..at + 3]).copy_from_slice(&be[5..])`
    #[verifier::external_body]
    pub fn patch3(&mut self, at: usize, be: &[u8; 8])
        requires at + 3 <= old(self).b@.len(),
        ensures final(self).b@ == old(self).b@.update(at as int, be@[5]).update(at + 1, be@[6]).update(at + 2, be@[7]),
    { unimplemented!() }
}

/// u64::to_be_bytes
#[verifier::external_body]
pub fn u64_be(x: u64) -> (r: [u8; 8])
    ensures
        x < 0x1000000 ==> r@[0] == 0 && r@[1] == 0 && r@[2] == 0 && r@[3] == 0 && r@[4] == 0,
        x >= 0x1000000 ==> !(r@[0] == 0 && r@[1] == 0 && r@[2] == 0 && r@[3] == 0 && r@[4] == 0),
        r@[5] == b1(x as int) && r@[6] == b2(x as int) && r@[7] == b3(x as int),
{ x.to_be_bytes() }

/// `be[0..5].iter().all(|b| *b == 0)`
#[verifier::external_body]
pub fn first5_zero(be: &[u8; 8]) -> (r: bool)
    ensures r == (be@[0] == 0 && be@[1] == 0 && be@[2] == 0 && be@[3] == 0 && be@[4] == 0),
{ be[0..5].iter().all(|b| *b == 0) }

/// bytes::buf::Limit<&mut BytesMut>
pub struct EncodeBuf { pub inner: BytesMut, pub limit: usize }
impl EncodeBuf {
    pub fn get_ref(&self) -> (r: &BytesMut) ensures *r == self.inner { &self.inner }
    /// the inner buffer, NOT limited
    pub fn get_mut(&mut self) -> (r: &mut BytesMut)
        ensures *r == old(self).inner, final(self).limit == old(self).limit, final(self).inner == *final(r),
    { &mut self.inner }
    /// min(inner.remaining_mut(), limit); a BytesMut can grow to usize::MAX - len, far above any frame budget
    #[verifier::external_body]
    pub fn remaining_mut(&self) -> (r: usize) ensures r == self.limit { unimplemented!() }
    #[verifier::external_body]
    pub fn put_slice(&mut self, src: &BytesMut)
        requires src.b@.len() <= old(self).limit,     // BufMut::put_slice panics when remaining_mut() < src.len()
        ensures final(self).inner.b@ == old(self).inner.b@ + src.b@, final(self).limit == old(self).limit - src.b@.len(),
    { unimplemented!() }
    #[verifier::external_body]
    pub fn put_u8(&mut self, v: u8)
        requires 1 <= old(self).limit,
        ensures final(self).inner.b@ == old(self).inner.b@ + seq![v], final(self).limit == old(self).limit - 1,
    { unimplemented!() }
    #[verifier::external_body]
    pub fn put_u32(&mut self, v: u32)
        requires 4 <= old(self).limit,
        ensures final(self).inner.b@ == old(self).inner.b@ + be32(v as int), final(self).limit == old(self).limit - 4,
    { unimplemented!() }
    /// `put_uint(v, 3)`: the low three octets, big endian (panics when v does not fit)
    #[verifier::external_body]
    pub fn put_uint(&mut self, v: u64, nbytes: usize)
        requires nbytes == 3, 3 <= old(self).limit, v < 0x1000000,
        ensures final(self).inner.b@ == old(self).inner.b@ + be24(v as int), final(self).limit == old(self).limit - 3,
    { unimplemented!() }
}

impl BytesMut {
    /// inherent BytesMut::put_u32 etc. through `get_mut()`: appends, nothing charged anywhere
    #[verifier::external_body]
    pub fn put_u32(&mut self, v: u32)
        ensures final(self).b@ == old(self).b@ + be32(v as int),
    { unimplemented!() }
}

pub const HEADER_LEN: usize = 9;
//@const src/frame/headers.rs END_HEADERS

//@struct src/frame/head.rs Kind
//@struct src/frame/head.rs Head pub
// the derives of the real items (attributes are dropped by R5)
impl Copy for Kind {}
impl Clone for Kind { fn clone(&self) -> Self { *self } }
impl Copy for Head {}
impl Clone for Head { fn clone(&self) -> Self { *self } }

pub open spec fn kind_byte(k: Kind) -> u8 {
    match k {
        Kind::Data => 0, Kind::Headers => 1, Kind::Priority => 2, Kind::Reset => 3, Kind::Settings => 4, Kind::PushPromise => 5,
        Kind::Ping => 6, Kind::GoAway => 7, Kind::WindowUpdate => 8, Kind::Continuation => 9, Kind::Unknown => 10,
    }
}

/// RFC 9113 4.1: the 9-octet frame header
pub open spec fn head_wire(h: Head, flag: u8, len: int) -> Seq<u8> {
    be24(len) + seq![kind_byte(h.kind), flag] + be32(h.stream_id.0 as int)
}

impl Head {
    //@extract src/frame/head.rs Head::new
    //@ret r
    //@spec     ensures r.kind == kind && r.flag == flag && r.stream_id == stream_id,
    //@end

    //@extract src/frame/head.rs Head::stream_id
    //@ret r
    //@spec     ensures r == self.stream_id,
    //@end

    //@extract src/frame/head.rs Head::encode_len
    //@subst super::HEADER_LEN=>HEADER_LEN
    //@ret r
    //@spec     ensures r == 9,
    //@end

    //@extract src/frame/head.rs Head::encode
    //@subst pub fn encode<T: BufMut>(&self, payload_len: usize, dst: &mut T)=>pub fn encode(&self, payload_len: usize, dst: &mut EncodeBuf)
    //@subst self.stream_id.into()=>self.stream_id.0
    //@spec     requires old(dst).limit >= 9, payload_len < 0x1000000,
    //@spec     ensures
    //@spec         final(dst).inner.b@ == old(dst).inner.b@ + head_wire(*self, self.flag, payload_len as int),
    //@spec         final(dst).limit == old(dst).limit - 9,
    //@at_end proof { assert(self.kind as u8 == kind_byte(self.kind)); assert(dst.inner.b@ =~= old(dst).inner.b@ + head_wire(*self, self.flag, payload_len as int)); }
    //@end
}

/// hpack::Encoder, opaque
pub struct HpackEncoder { pub st: Ghost<int> }
impl HpackEncoder {
    #[verifier::external_body]
    pub fn return_scratch(&mut self, b: BytesMut) { unimplemented!() }
}

//@struct src/frame/headers.rs EncodingHeaderBlock pub
//@struct src/frame/headers.rs Continuation pub

/// what the closure argument of `EncodingHeaderBlock::encode` may do: append at most 4 octets THROUGH the limited buffer
/// (whatever is appended is charged against the frame budget)
pub open spec fn charged(b0: Seq<u8>, l0: int, b1: Seq<u8>, l1: int) -> bool {
    b1.len() >= b0.len() && b1.len() - b0.len() <= 4 && (forall|i: int| 0 <= i < b0.len() ==> b1[i] == b0[i]) && l1 + (b1.len() - b0.len()) == l0
}

/// the frame appended by one call (RFC 9113 4.1, 6.2, 6.6, 6.10): behind what was there (`old_out`) come the 9-octet head
/// with the real payload length, `npre` octets written by the caller's closure, then the first `k` octets of the header
/// block; the other octets of the block are in the returned Continuation
pub open spec fn frame_ok(out: Seq<u8>, old_out: Seq<u8>, head: Head, npre: int, block: Seq<u8>, rest: Option<Continuation>, budget: int) -> bool {
    let rest_b = match rest { Some(c) => c.header_block.hpack.b@, None => Seq::<u8>::empty() };
    let k = block.len() - rest_b.len();
    let len = npre + k;
    let n0 = old_out.len() as int;
    let flag = if rest is Some { (head.flag - END_HEADERS) as u8 } else { head.flag };
    &&& 0 <= k <= block.len() && 0 <= npre
    // no octet of the header block lost, repeated or reordered
    &&& rest_b == block.skip(k)
    &&& out.len() == n0 + 9 + npre + k
    &&& out.take(n0) == old_out
    &&& out.subrange(n0, n0 + 9) == head_wire(head, flag, len)
    &&& out.skip(n0 + 9 + npre) == block.take(k)
    // the peer's SETTINGS_MAX_FRAME_SIZE: head + payload within the caller's budget (max_frame_size + 9)
    &&& 9 + len <= budget
    &&& len < 0x1000000
    // a Continuation is only returned for a non-empty rest, behind a FULL frame, for the same stream
    &&& rest matches Some(c) ==> c.stream_id == head.stream_id && rest_b.len() > 0 && 9 + len == budget
}

impl EncodingHeaderBlock {
    // Listed substitutions: `mut self` (not in the dialect) => `self` rebound to `let mut this`; the model functions named in
    // the header of this file.  The ghost text only names intermediate buffer contents and asks for extensional equality.
    //@extract src/frame/headers.rs EncodingHeaderBlock::encode
    //@subst dst: &mut EncodeBuf<'_>,=>dst: &mut EncodeBuf,
    //@subst mut self,=>self,
    //@subst_re \bself\b(?!,\s*head: &Head)=>this
    //@subst let head_pos = dst.get_ref().len();=>let mut this = self; let head_pos = dst.get_ref().len();
    //@subst F: FnOnce(&mut EncodeBuf<'_>),=>F: FnOnce(&mut EncodeBuf),
    //@subst encoder: Option<&mut hpack::Encoder>,=>encoder: Option<&mut HpackEncoder>,
    //@subst let payload_len_be = payload_len.to_be_bytes();=>let payload_len_be = u64_be(payload_len);
    //@subst assert!(payload_len_be[0..5].iter().all(|b| *b == 0));=>assert!(first5_zero(&payload_len_be));
    //@subst (dst.get_mut()[head_pos..head_pos + 3]).copy_from_slice(&payload_len_be[5..]);=>dst.get_mut().patch3(head_pos, &payload_len_be);
    //@subst assert!(dst.get_ref()[head_pos + 4] & END_HEADERS == END_HEADERS);=>assert!(dst.get_ref().byte_at(head_pos + 4) & END_HEADERS == END_HEADERS);
    //@subst_opt_re dst\.get_mut\(\)\[head_pos \+ 4\] -= ([A-Z_a-z0-9]+);=>dst.get_mut().sub_at(head_pos + 4, \1);
    //@ret r
    //@spec     requires
    //@spec         // the closure may rely on room for the promised stream id, and whatever it appends goes through the Limit
    //@spec         forall|d: &mut EncodeBuf| d.limit >= 4 ==> #[trigger] f.requires((d,)),
    //@spec         forall|d: &mut EncodeBuf| #[trigger] f.ensures((d,), ()) ==> charged(d.inner.b@, d.limit as int, final(d).inner.b@, final(d).limit as int),
    //@spec         // the budget of limited_write_buf!: max_frame_size + 9, max_frame_size in 16384 ..= 2^24-1 (Settings::load, FramedWrite::set_max_frame_size)
    //@spec         16_384 + 9 <= old(dst).limit <= 0xFF_FFFF + 9,
    //@spec         old(dst).inner.b@.len() + old(dst).limit < usize::MAX,
    //@spec         head.flag & END_HEADERS == END_HEADERS,
    //@spec     ensures
    //@spec         exists|d: &mut EncodeBuf| #[trigger] f.ensures((d,), ())
    //@spec            && d.inner.b@ == old(dst).inner.b@ + head_wire(*head, head.flag, 0) && d.limit == old(dst).limit - 9
    //@spec            && frame_ok(final(dst).inner.b@, old(dst).inner.b@, *head, final(d).inner.b@.len() - d.inner.b@.len(), self.hpack.b@, r, old(dst).limit as int)
    //@spec            // what the closure wrote is in the frame, right behind the head
    //@spec            && (forall|i: int| d.inner.b@.len() <= i < final(d).inner.b@.len() ==> final(dst).inner.b@[i] == final(d).inner.b@[i]),
    //@spec         final(dst).limit == old(dst).limit - (final(dst).inner.b@.len() - old(dst).inner.b@.len()),
    //@after head.encode(0, dst);=>proof { lemma_be24_zero(); } let ghost s1 = dst.inner.b@; let ghost l1 = dst.limit;
    //@after f(dst);=>let ghost s2 = dst.inner.b@; let ghost pre0: Seq<u8> = s2.skip(s1.len() as int); proof { assert(s2 =~= s1 + pre0); assert(dst.limit + pre0.len() == l1); }
    //@before let payload_len = =>let ghost s3 = dst.inner.b@; let ghost k = (s3.len() - s2.len()) as int; proof { assert(s3 == s2 + self.hpack.b@.take(k)); }
    //@before if continuation.is_some() {=>proof { assert(head_wire(*head, head.flag, 0)[4] == head.flag); assert(s1[head_pos as int + 4] == head.flag); assert(dst.inner.b@[head_pos as int + 4] == head.flag); assert(forall|x: u8| x & 4 == 4 ==> x >= 4) by (bit_vector); }
    //@before_tail proof {
    //@before_tail     let n0 = old(dst).inner.b@.len() as int;
    //@before_tail     let flag = if continuation is Some { (head.flag - END_HEADERS) as u8 } else { head.flag };
    //@before_tail     let out = dst.inner.b@;
    //@before_tail     assert(out =~= old(dst).inner.b@ + head_wire(*head, flag, payload_len as int) + pre0 + self.hpack.b@.take(k));
    //@before_tail     assert(out.take(n0) =~= old(dst).inner.b@);
    //@before_tail     assert(out.subrange(n0, n0 + 9) =~= head_wire(*head, flag, payload_len as int));
    //@before_tail     assert(out.skip(n0 + 9 + pre0.len()) =~= self.hpack.b@.take(k));
    //@before_tail     assert(forall|i: int| s1.len() <= i < s2.len() ==> out[i] == s2[i]);
    //@before_tail     let rest_b = match continuation { Some(ref c) => c.header_block.hpack.b@, None => Seq::<u8>::empty() };
    //@before_tail     assert(rest_b =~= self.hpack.b@.skip(k));
    //@before_tail     assert(payload_len == pre0.len() + k);
    //@before_tail     assert(frame_ok(out, old(dst).inner.b@, *head, pre0.len() as int, self.hpack.b@, continuation, old(dst).limit as int));
    //@before_tail }
    //@end
}

/// frame::HeaderBlock (pseudo fields + HeaderMap), opaque: `into_encoding` runs the HPACK encoder over it
pub struct HeaderBlock { pub id: Ghost<int> }
pub uninterp spec fn hpack_block(h: HeaderBlock, e: HpackEncoder) -> Seq<u8>;
impl HeaderBlock {
    #[verifier::external_body]
    pub fn into_encoding(self, encoder: &mut HpackEncoder) -> (r: EncodingHeaderBlock)
        ensures r.hpack.b@ == hpack_block(self, *old(encoder)),
    { unimplemented!() }
}
pub struct StreamDependency { pub dependency_id: StreamId, pub weight: u8, pub is_exclusive: bool }

//@struct src/frame/headers.rs HeadersFlag pub
//@struct src/frame/headers.rs PushPromiseFlag pub
//@struct src/frame/headers.rs Headers pub
//@struct src/frame/headers.rs PushPromise pub

impl HeadersFlag {
    //@extract src/frame/headers.rs HeadersFlag::is_end_headers
    //@ret r
    //@spec     ensures r == (self.0 & END_HEADERS == END_HEADERS),
    //@end
}
impl PushPromiseFlag {
    //@extract src/frame/headers.rs PushPromiseFlag::is_end_headers
    //@ret r
    //@spec     ensures r == (self.0 & END_HEADERS == END_HEADERS),
    //@end
}

impl Headers {
    //@extract src/frame/headers.rs Headers::head
    //@subst self.flags.into()=>self.flags.0
    //@ret r
    //@spec     ensures r == (Head { kind: Kind::Headers, flag: self.flags.0, stream_id: self.stream_id }),
    //@end

    // HEADERS: head ++ fragment, nothing in between
    //@extract src/frame/headers.rs Headers::encode
    //@subst encoder: &mut hpack::Encoder,=>encoder: &mut HpackEncoder,
    //@subst dst: &mut EncodeBuf<'_>,=>dst: &mut EncodeBuf,
    //@subst |_| {}=>|d: &mut EncodeBuf| ensures final(d).inner.b@ == old(d).inner.b@ && final(d).limit == old(d).limit {}
    //@ret r
    //@spec     requires
    //@spec         self.flags.0 & END_HEADERS == END_HEADERS,       // the real debug_assert!: Headers::new / load always set it (I-end-headers)
    //@spec         16_384 + 9 <= old(dst).limit <= 0xFF_FFFF + 9,
    //@spec         old(dst).inner.b@.len() + old(dst).limit < usize::MAX,
    //@spec     ensures
    //@spec         frame_ok(final(dst).inner.b@, old(dst).inner.b@, Head { kind: Kind::Headers, flag: self.flags.0, stream_id: self.stream_id }, 0,
    //@spec             hpack_block(self.header_block, *old(encoder)), r, old(dst).limit as int),
    //@end
}

impl PushPromise {
    //@extract src/frame/headers.rs PushPromise::head
    //@subst self.flags.into()=>self.flags.0
    //@ret r
    //@spec     ensures r == (Head { kind: Kind::PushPromise, flag: self.flags.0, stream_id: self.stream_id }),
    //@end

    // PUSH_PROMISE: head ++ promised stream id ++ fragment; the 4 octets of the id count against the frame size
    //@extract src/frame/headers.rs PushPromise::encode
    //@subst encoder: &mut hpack::Encoder,=>encoder: &mut HpackEncoder,
    //@subst dst: &mut EncodeBuf<'_>,=>dst: &mut EncodeBuf,
    //@subst |dst| {=>|dst: &mut EncodeBuf| requires old(dst).limit >= 4 ensures final(dst).inner.b@ == old(dst).inner.b@ + be32(promised_id.0 as int) && final(dst).limit + 4 == old(dst).limit {
    //@subst promised_id.into()=>promised_id.0
    //@ret r
    //@spec     requires
    //@spec         self.flags.0 & END_HEADERS == END_HEADERS,
    //@spec         16_384 + 9 <= old(dst).limit <= 0xFF_FFFF + 9,
    //@spec         old(dst).inner.b@.len() + old(dst).limit < usize::MAX,
    //@spec     ensures
    //@spec         frame_ok(final(dst).inner.b@, old(dst).inner.b@, Head { kind: Kind::PushPromise, flag: self.flags.0, stream_id: self.stream_id }, 4,
    //@spec             hpack_block(self.header_block, *old(encoder)), r, old(dst).limit as int),
    //@spec         forall|i: int| 0 <= i < 4 ==> final(dst).inner.b@[old(dst).inner.b@.len() + 9 + i] == be32(self.promised_id.0 as int)[i],
    //@end
}

impl Continuation {
    //@extract src/frame/headers.rs Continuation::head
    //@ret r
    //@spec     ensures r == (Head { kind: Kind::Continuation, flag: END_HEADERS, stream_id: self.stream_id }),
    //@end

    // CONTINUATION: head ++ the next part of the block that was parked; what still does not fit is parked again
    //@extract src/frame/headers.rs Continuation::encode
    //@subst dst: &mut EncodeBuf<'_>=>dst: &mut EncodeBuf
    //@after let head = self.head();=>proof { assert(4u8 & 4u8 == 4u8) by (bit_vector); }
    //@subst |_| {}=>|d: &mut EncodeBuf| ensures final(d).inner.b@ == old(d).inner.b@ && final(d).limit == old(d).limit {}
    //@ret r
    //@spec     requires
    //@spec         16_384 + 9 <= old(dst).limit <= 0xFF_FFFF + 9,
    //@spec         old(dst).inner.b@.len() + old(dst).limit < usize::MAX,
    //@spec     ensures
    //@spec         frame_ok(final(dst).inner.b@, old(dst).inner.b@, Head { kind: Kind::Continuation, flag: END_HEADERS, stream_id: self.stream_id }, 0,
    //@spec             self.header_block.hpack.b@, r, old(dst).limit as int),
    //@spec         // progress: a CONTINUATION frame for a non-empty rest carries at least one octet of it
    //@spec         self.header_block.hpack.b@.len() > 0 ==> final(dst).inner.b@.len() > old(dst).inner.b@.len() + 9,
    //@end
}

proof fn lemma_be24_zero()
    ensures be24(0) == seq![0u8, 0u8, 0u8],
{ assert(be24(0) =~= seq![0u8, 0u8, 0u8]); }

proof fn vacuity_probe_headers_encode()
    ensures false,
{
}

} // verus!
