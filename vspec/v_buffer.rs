// @unit id=v_buffer props=C01,C08 tier=quick
// Verus contracts on the REAL bodies of src/proto/streams/buffer.rs `Deque::{new,is_empty,push_back,push_front,
// pop_front}` (extracted on every run): a Deque threaded through the slab it shares with every other stream's Deque
// IS a FIFO sequence — for any length, any interleaving with other deques on the same slab.  This is the theorem the
// other units assume as the external model `Deque` (vspec/inc/frames.inc) / `DequeEv` (stream_send.inc).
//
// What is modelled by hand: `slab::Slab<Slot<T>>` as a map from keys to slots (insert returns a fresh key, remove
// returns the stored slot; the slab crate is a dependency, not h2 code), and the two statements that assign through
// `IndexMut` — `buf.slab[k].next = Some(n);` — are rewritten by listed substitutions to `buf.slab.set_next(k, Some(n));`
// (Verus has no overloaded IndexMut on external types).  Everything else is verbatim, including the `assert!` and the
// `unwrap()` of pop_front, which become proof obligations (C08).
use vstd::prelude::*;

verus! {

/// buffer.rs `struct Indices { head: usize, tail: usize }` (Debug, Default, Copy, Clone), fields made visible to specs
#[derive(Clone, Copy)]
pub struct Indices {
    pub head: usize,
    pub tail: usize,
}

pub struct Slot<T> {
    pub value: T,
    pub next: Option<usize>,
}

/// slab::Slab<Slot<T>>, as far as buffer.rs uses it.  ASSUMED model of the dependency.
#[verifier::external_body]
#[verifier::reject_recursive_types(T)]
pub struct Slab<T> { _p: core::marker::PhantomData<T> }

impl<T> Slab<T> {
    pub uninterp spec fn view(&self) -> Map<usize, Slot<T>>;

    #[verifier::external_body]
    pub fn insert(&mut self, val: Slot<T>) -> (k: usize)
        ensures !old(self)@.dom().contains(k), final(self)@ == old(self)@.insert(k, val),
    { unimplemented!() }

    #[verifier::external_body]
    pub fn remove(&mut self, k: usize) -> (v: Slot<T>)
        requires old(self)@.dom().contains(k),      // slab::Slab::remove panics on a vacant key
        ensures v == old(self)@[k], final(self)@ == old(self)@.remove(k),
    { unimplemented!() }

    /// `self[k].next = n` through IndexMut (panics on a vacant key)
    #[verifier::external_body]
    pub fn set_next(&mut self, k: usize, n: Option<usize>)
        requires old(self)@.dom().contains(k),
        ensures final(self)@ == old(self)@.insert(k, Slot { value: old(self)@[k].value, next: n }),
    { unimplemented!() }
}

#[verifier::reject_recursive_types(T)]
pub struct Buffer<T> {
    pub slab: Slab<T>,
}

pub struct Deque {
    pub indices: Option<Indices>,
}

// ---------------------------------------------------------------- the abstraction: a list segment in the slab

/// `keys` is the chain of slab keys reached from `start` by following `next`, ending in `None`.
pub open spec fn seg<T>(m: Map<usize, Slot<T>>, start: Option<usize>, keys: Seq<usize>) -> bool
    decreases keys.len(),
{
    if keys.len() == 0 {
        start is None
    } else {
        start == Some(keys[0]) && m.dom().contains(keys[0]) && seg(m, m[keys[0]].next, keys.drop_first())
    }
}

/// I-queue for one deque: head..tail is a duplicate-free chain ending at tail.
pub open spec fn is_list<T>(d: Deque, m: Map<usize, Slot<T>>, keys: Seq<usize>) -> bool {
    &&& keys.no_duplicates()
    &&& match d.indices {
        None => keys.len() == 0,
        Some(ix) => keys.len() > 0 && seg(m, Some(ix.head), keys) && keys.last() == ix.tail,
    }
}

pub open spec fn values<T>(m: Map<usize, Slot<T>>, keys: Seq<usize>) -> Seq<T> {
    Seq::new(keys.len(), |i: int| m[keys[i]].value)
}

impl Deque {
    pub open spec fn wf<T>(self, buf: Buffer<T>) -> bool {
        exists|keys: Seq<usize>| is_list(self, buf.slab@, keys)
    }

    pub open spec fn keys<T>(self, buf: Buffer<T>) -> Seq<usize> {
        choose|keys: Seq<usize>| is_list(self, buf.slab@, keys)
    }

    /// the abstract view: the sequence of values, front first
    pub open spec fn seq<T>(self, buf: Buffer<T>) -> Seq<T> {
        values(buf.slab@, self.keys(buf))
    }
}

// ---------------------------------------------------------------- lemmas (induction over the chain)

pub proof fn lemma_seg_unique<T>(m: Map<usize, Slot<T>>, s: Option<usize>, k1: Seq<usize>, k2: Seq<usize>)
    requires seg(m, s, k1), seg(m, s, k2),
    ensures k1 == k2,
    decreases k1.len(),
{
    if k1.len() == 0 {
        assert(k2.len() == 0);
        assert(k1 =~= k2);
    } else {
        assert(k2.len() > 0);
        lemma_seg_unique(m, m[k1[0]].next, k1.drop_first(), k2.drop_first());
        assert(k1 =~= seq![k1[0]] + k1.drop_first());
        assert(k2 =~= seq![k2[0]] + k2.drop_first());
    }
}

/// every key of a chain is in the slab
pub proof fn lemma_seg_dom<T>(m: Map<usize, Slot<T>>, s: Option<usize>, keys: Seq<usize>, i: int)
    requires seg(m, s, keys), 0 <= i < keys.len(),
    ensures m.dom().contains(keys[i]),
    decreases keys.len(),
{
    if i > 0 {
        lemma_seg_dom(m, m[keys[0]].next, keys.drop_first(), i - 1);
    }
}

/// the last element of a chain points nowhere
pub proof fn lemma_seg_last_none<T>(m: Map<usize, Slot<T>>, s: Option<usize>, keys: Seq<usize>)
    requires seg(m, s, keys), keys.len() > 0,
    ensures m[keys.last()].next is None, m.dom().contains(keys.last()),
    decreases keys.len(),
{
    if keys.len() == 1 {
        assert(keys.drop_first().len() == 0);
        assert(keys.last() == keys[0]);
        assert(seg(m, m[keys[0]].next, keys.drop_first()));
    } else {
        lemma_seg_last_none(m, m[keys[0]].next, keys.drop_first());
        assert(keys.drop_first().last() == keys.last());
    }
}

/// frame: a chain only depends on the slots of its own keys
pub proof fn lemma_seg_frame<T>(m: Map<usize, Slot<T>>, m2: Map<usize, Slot<T>>, s: Option<usize>, keys: Seq<usize>)
    requires
        seg(m, s, keys),
        forall|i: int| 0 <= i < keys.len() ==> m2.dom().contains(#[trigger] keys[i]) && m2[keys[i]].next == m[keys[i]].next,
    ensures seg(m2, s, keys),
    decreases keys.len(),
{
    if keys.len() > 0 {
        let rest = keys.drop_first();
        assert forall|i: int| 0 <= i < rest.len() implies m2.dom().contains(#[trigger] rest[i]) && m2[rest[i]].next == m[rest[i]].next by {
            assert(rest[i] == keys[i + 1]);
        }
        assert(keys[0] == keys[0]);
        lemma_seg_frame(m, m2, m[keys[0]].next, rest);
    }
}

/// appending at the tail: the old tail now points to the fresh key k, which points nowhere
pub proof fn lemma_seg_append<T>(m: Map<usize, Slot<T>>, m2: Map<usize, Slot<T>>, s: Option<usize>, keys: Seq<usize>, k: usize)
    requires
        seg(m, s, keys), keys.len() > 0, keys.no_duplicates(),
        !m.dom().contains(k),
        m2.dom().contains(k) && m2[k].next is None,
        m2.dom().contains(keys.last()) && m2[keys.last()].next == Some(k),
        forall|i: int| 0 <= i < keys.len() - 1 ==> m2.dom().contains(#[trigger] keys[i]) && m2[keys[i]].next == m[keys[i]].next,
    ensures seg(m2, s, keys.push(k)),
    decreases keys.len(),
{
    let rest = keys.drop_first();
    let nk = keys.push(k);
    assert(nk[0] == keys[0]);
    assert(nk.drop_first() =~= rest.push(k));
    if keys.len() == 1 {
        assert(keys.last() == keys[0]);
        assert(rest.len() == 0);
        // seg(m2, Some(k), [k])
        assert(rest.push(k).len() == 1);
        assert(rest.push(k)[0] == k);
        assert(rest.push(k).drop_first().len() == 0);
        assert(seg(m2, m2[k].next, rest.push(k).drop_first()));
        assert(seg(m2, Some(k), rest.push(k)));
    } else {
        assert(m2[keys[0]].next == m[keys[0]].next);
        assert(rest.last() == keys.last());
        assert(rest.no_duplicates()) by {
            assert forall|i: int, j: int| 0 <= i < rest.len() && 0 <= j < rest.len() && i != j implies rest[i] != rest[j] by {
                assert(rest[i] == keys[i + 1] && rest[j] == keys[j + 1]);
            }
        }
        assert forall|i: int| 0 <= i < rest.len() - 1 implies m2.dom().contains(#[trigger] rest[i]) && m2[rest[i]].next == m[rest[i]].next by {
            assert(rest[i] == keys[i + 1]);
        }
        lemma_seg_append(m, m2, m[keys[0]].next, rest, k);
    }
}

pub proof fn lemma_list_unique<T>(d: Deque, m: Map<usize, Slot<T>>, k1: Seq<usize>, k2: Seq<usize>)
    requires is_list(d, m, k1), is_list(d, m, k2),
    ensures k1 == k2,
{
    match d.indices {
        None => { assert(k1 =~= k2); }
        Some(ix) => { lemma_seg_unique(m, Some(ix.head), k1, k2); }
    }
}

/// Two deques on one slab: an operation that leaves the slots of `keys2` alone leaves that deque and its content alone.
pub proof fn lemma_other_deque_untouched<T>(d2: Deque, m: Map<usize, Slot<T>>, m2: Map<usize, Slot<T>>, keys2: Seq<usize>)
    requires
        is_list(d2, m, keys2),
        forall|i: int| 0 <= i < keys2.len() ==> m2.dom().contains(#[trigger] keys2[i]) && m2[keys2[i]] == m[keys2[i]],
    ensures is_list(d2, m2, keys2), values(m2, keys2) == values(m, keys2),
{
    match d2.indices {
        None => {}
        Some(ix) => { lemma_seg_frame(m, m2, Some(ix.head), keys2); }
    }
    assert(values(m2, keys2) =~= values(m, keys2));
}

// ---------------------------------------------------------------- the real bodies

impl Deque {
    //@extract src/proto/streams/buffer.rs Deque::new
    //@ret r
    //@spec     ensures r.indices is None,
    //@end

    //@extract src/proto/streams/buffer.rs Deque::is_empty
    //@ret r
    //@spec     ensures r == (self.indices is None),
    //@end

    /// is_empty() is exactly "the sequence is empty"
    pub proof fn lemma_is_empty<T>(self, buf: Buffer<T>)
        requires self.wf(buf),
        ensures (self.indices is None) == (self.seq(buf).len() == 0),
    {
    }

    //@extract src/proto/streams/buffer.rs Deque::push_back
    //@subst buf.slab[idxs.tail].next = Some(key);=>proof { lemma_seg_last_none(m0, Some(idxs.head), keys0); } buf.slab.set_next(idxs.tail, Some(key));
    //@after let key = buf.slab.insert(Slot { value, next: None });=> let ghost m1 = buf.slab@;
    //@before let key = buf.slab.insert(Slot { value, next: None });=>let ghost m0 = buf.slab@; let ghost keys0 = old(self).keys(*old(buf)); let ghost d0 = *old(self); proof { assert(is_list(d0, m0, keys0)); }
    //@at_end proof {
    //@at_end     let m2 = buf.slab@; let nk = keys0.push(key);
    //@at_end     assert forall|i: int| 0 <= i < keys0.len() implies m0.dom().contains(#[trigger] keys0[i]) by { if d0.indices is Some { lemma_seg_dom(m0, Some(d0.indices->Some_0.head), keys0, i); } }
    //@at_end     assert(nk.no_duplicates()) by { assert forall|i: int, j: int| 0 <= i < nk.len() && 0 <= j < nk.len() && i != j implies nk[i] != nk[j] by { if i < keys0.len() { assert(m0.dom().contains(keys0[i])); } if j < keys0.len() { assert(m0.dom().contains(keys0[j])); } } }
    //@at_end     match d0.indices {
    //@at_end         None => { assert(nk.len() == 1 && nk[0] == key); assert(nk.drop_first().len() == 0); assert(seg(m2, m2[key].next, nk.drop_first())); assert(seg(m2, Some(key), nk)); }
    //@at_end         Some(ix) => {
    //@at_end             assert(m0.dom().contains(keys0.last()));
    //@at_end             assert forall|i: int| 0 <= i < keys0.len() - 1 implies m2.dom().contains(#[trigger] keys0[i]) && m2[keys0[i]].next == m0[keys0[i]].next by { assert(m0.dom().contains(keys0[i])); assert(keys0[i] != keys0[keys0.len() - 1]); }
    //@at_end             lemma_seg_append(m0, m2, Some(ix.head), keys0, key);
    //@at_end         }
    //@at_end     }
    //@at_end     assert(is_list(*self, m2, nk));
    //@at_end     lemma_list_unique(*self, m2, self.keys(*buf), nk);
    //@at_end     assert(values(m2, nk) =~= values(m0, keys0).push(value)) by { assert forall|i: int| 0 <= i < keys0.len() implies m2[keys0[i]].value == m0[keys0[i]].value by { assert(m0.dom().contains(keys0[i])); } }
    //@at_end     assert forall|j: usize| m0.dom().contains(j) && !keys0.contains(j) implies m2.dom().contains(j) && m2[j] == m0[j] by { if d0.indices is Some { assert(keys0.contains(keys0.last())); } }
    //@at_end }
    //@spec     requires old(self).wf(*old(buf)),
    //@spec     ensures
    //@spec         final(self).wf(*final(buf)),
    //@spec         // C01: exactly this value, at the BACK; nothing else moves
    //@spec         final(self).seq(*final(buf)) == old(self).seq(*old(buf)).push(value),
    //@spec         // frame: slots that are not this deque's are untouched (so every other deque on the slab is, lemma_other_deque_untouched)
    //@spec         forall|j: usize| old(buf).slab@.dom().contains(j) && !old(self).keys(*old(buf)).contains(j) ==> final(buf).slab@.dom().contains(j) && final(buf).slab@[j] == old(buf).slab@[j],
    //@end

    //@extract src/proto/streams/buffer.rs Deque::push_front
    //@subst buf.slab[key].next = Some(idxs.head);=>buf.slab.set_next(key, Some(idxs.head));
    //@before let key = buf.slab.insert(Slot { value, next: None });=>let ghost m0 = buf.slab@; let ghost keys0 = old(self).keys(*old(buf)); let ghost d0 = *old(self); proof { assert(is_list(d0, m0, keys0)); }
    //@at_end proof {
    //@at_end     let m2 = buf.slab@; let nk = seq![key] + keys0;
    //@at_end     assert forall|i: int| 0 <= i < keys0.len() implies m0.dom().contains(#[trigger] keys0[i]) by { if d0.indices is Some { lemma_seg_dom(m0, Some(d0.indices->Some_0.head), keys0, i); } }
    //@at_end     assert(nk.no_duplicates()) by { assert forall|i: int, j: int| 0 <= i < nk.len() && 0 <= j < nk.len() && i != j implies nk[i] != nk[j] by { if i > 0 { assert(nk[i] == keys0[i - 1]); assert(m0.dom().contains(keys0[i - 1])); } if j > 0 { assert(nk[j] == keys0[j - 1]); assert(m0.dom().contains(keys0[j - 1])); } } }
    //@at_end     assert(nk[0] == key && nk.drop_first() =~= keys0);
    //@at_end     match d0.indices {
    //@at_end         None => { assert(keys0.len() == 0); assert(seg(m2, m2[key].next, nk.drop_first())); assert(seg(m2, Some(key), nk)); assert(nk.last() == key); }
    //@at_end         Some(ix) => {
    //@at_end             assert forall|i: int| 0 <= i < keys0.len() implies m2.dom().contains(#[trigger] keys0[i]) && m2[keys0[i]].next == m0[keys0[i]].next by { assert(m0.dom().contains(keys0[i])); }
    //@at_end             lemma_seg_frame(m0, m2, Some(ix.head), keys0);
    //@at_end             assert(seg(m2, m2[key].next, nk.drop_first()));
    //@at_end             assert(seg(m2, Some(key), nk));
    //@at_end             assert(nk.last() == keys0.last());
    //@at_end         }
    //@at_end     }
    //@at_end     assert(is_list(*self, m2, nk));
    //@at_end     lemma_list_unique(*self, m2, self.keys(*buf), nk);
    //@at_end     assert(values(m2, nk) =~= seq![value] + values(m0, keys0)) by { assert forall|i: int| 0 <= i < keys0.len() implies m2[keys0[i]].value == m0[keys0[i]].value by { assert(m0.dom().contains(keys0[i])); } assert forall|i: int| 1 <= i < nk.len() implies nk[i] == keys0[i - 1] by {} }
    //@at_end }
    //@spec     requires old(self).wf(*old(buf)),
    //@spec     ensures
    //@spec         final(self).wf(*final(buf)),
    //@spec         // C01: exactly this value, at the FRONT
    //@spec         final(self).seq(*final(buf)) == seq![value] + old(self).seq(*old(buf)),
    //@spec         forall|j: usize| old(buf).slab@.dom().contains(j) && !old(self).keys(*old(buf)).contains(j) ==> final(buf).slab@.dom().contains(j) && final(buf).slab@[j] == old(buf).slab@[j],
    //@end

    //@extract src/proto/streams/buffer.rs Deque::pop_front
    //@before let mut slot = buf.slab.remove(idxs.head);=>let ghost m0 = buf.slab@; let ghost keys0 = old(self).keys(*old(buf)); let ghost d0 = *old(self); proof { assert(is_list(d0, m0, keys0)); lemma_seg_dom(m0, Some(idxs.head), keys0, 0); }
    //@after let mut slot = buf.slab.remove(idxs.head);=>let ghost rest = keys0.drop_first(); proof { assert(keys0[0] == idxs.head && keys0.last() == idxs.tail); assert(seg(m0, m0[keys0[0]].next, rest)); assert(slot.next == m0[idxs.head].next); if keys0.len() == 1 { assert(keys0.last() == keys0[0]); } else { assert(keys0[0] != keys0[keys0.len() - 1]); assert(rest[0] == keys0[1]); } }
    //@before Some(slot.value)=>proof { let m2 = buf.slab@; assert(rest.no_duplicates()) by { assert forall|i: int, j: int| 0 <= i < rest.len() && 0 <= j < rest.len() && i != j implies rest[i] != rest[j] by { assert(rest[i] == keys0[i + 1] && rest[j] == keys0[j + 1]); } } assert forall|i: int| 0 <= i < rest.len() implies m2.dom().contains(#[trigger] rest[i]) && m2[rest[i]] == m0[rest[i]] by { assert(rest[i] == keys0[i + 1]); assert(keys0[i + 1] != keys0[0]); lemma_seg_dom(m0, Some(keys0[0]), keys0, i + 1); } lemma_seg_frame(m0, m2, m0[keys0[0]].next, rest); if rest.len() > 0 { assert(rest.last() == keys0.last()); } assert(is_list(*self, m2, rest)); lemma_list_unique(*self, m2, self.keys(*buf), rest); assert(values(m2, rest) =~= values(m0, keys0).drop_first()); assert(values(m0, keys0)[0] == m0[keys0[0]].value); assert forall|j: usize| m0.dom().contains(j) && !keys0.contains(j) implies m2.dom().contains(j) && m2[j] == m0[j] by { assert(keys0.contains(keys0[0])); } }
    //@subst_re None => None,\s*\}\s*\}\s*$ ==>> None => { proof { assert(is_list(*old(self), old(buf).slab@, old(self).keys(*old(buf)))); } None } } }
    //@ret r
    //@spec     requires old(self).wf(*old(buf)),
    //@spec     ensures
    //@spec         final(self).wf(*final(buf)),
    //@spec         // C01: the FRONT value leaves, the rest keeps its order; None iff empty
    //@spec         match r {
    //@spec             Some(v) => old(self).seq(*old(buf)).len() > 0 && v == old(self).seq(*old(buf))[0] && final(self).seq(*final(buf)) == old(self).seq(*old(buf)).drop_first(),
    //@spec             None => old(self).seq(*old(buf)).len() == 0 && *final(self) == *old(self) && *final(buf) == *old(buf),
    //@spec         },
    //@spec         forall|j: usize| old(buf).slab@.dom().contains(j) && !old(self).keys(*old(buf)).contains(j) ==> final(buf).slab@.dom().contains(j) && final(buf).slab@[j] == old(buf).slab@[j],
    //@end
}

proof fn vacuity_probe_buffer()
    ensures false,
{
}

} // verus!
