// @unit id=v_settings props=C14,C08 tier=quick
// Verus contracts on the REAL bodies of src/proto/settings.rs (extracted on every run): the SETTINGS synchronisation state
// machine — `Settings::{new, recv_settings, send_settings, mark_remote_initial_settings_as_received, poll_send}`.
//
// C14:  a SETTINGS frame from the peer is acknowledged EXACTLY ONCE, and takes effect exactly when its ACK is handed to the
//   codec: first the ACK frame is buffered, then the streams layer and the codec's send side are updated, then the slot is
//   emptied; while the codec cannot take the ACK nothing is applied and the frame stays owed.  Our own SETTINGS take effect
//   exactly when the peer's ACK arrives (receive-side limits of the codec, then the streams layer), with the values that
//   were SENT; an ACK nobody is waiting for is a connection PROTOCOL_ERROR and applies nothing; new local settings cannot be
//   queued while earlier ones are unacknowledged; a queued SETTINGS frame is sent once and then awaits its ACK.
//
// Modelled by hand (ASSUMED): `Codec` and `Streams` as recorders of what they are asked to do, in ONE shared ghost order
// (`Log`), so that "ACK before apply" is a statement about positions; `frame::Settings` reduced to an opaque value with
// the three optional limits the function reads.  Listed substitutions: generic parameters dropped; `?` on
// `Poll<io::Result<()>>` / on `Result` inside a function returning `Poll<Result<..>>` written out; `.expect(..)` on the
// result of `buffer` => `assert(is_ok)` (C08: buffer is only called after poll_ready answered Ready).
use vstd::prelude::*;

verus! {

global size_of usize == 8;

#[derive(PartialEq, Eq, Structural, Clone, Copy, Debug)]
pub struct Reason(pub u32);
impl Reason {
    pub const PROTOCOL_ERROR: Reason = Reason(1);
}
#[derive(PartialEq, Eq, Structural, Clone, Copy, Debug)]
pub enum Initiator { User, Library, Remote }
#[derive(PartialEq, Eq, Structural, Clone, Copy, Debug)]
pub enum Error { GoAway(Reason, Initiator), Other(u32), Io(u8) }
impl Error {
    pub fn library_go_away(reason: Reason) -> (r: Error) ensures r == Error::GoAway(reason, Initiator::Library) { Error::GoAway(reason, Initiator::Library) }
}
#[derive(PartialEq, Eq, Structural, Clone, Copy, Debug)]
pub enum UserError { SendSettingsWhilePending, Other(u8) }

/// frame::Settings, reduced: ack flag, an identity for "which settings", and the limits the state machine reads
#[derive(PartialEq, Eq, Structural, Clone, Copy, Debug)]
pub struct FSettings {
    pub ack: bool,
    pub id: u64,
    pub max_frame_size: Option<u32>,
    pub max_header_list_size: Option<u32>,
    pub header_table_size: Option<u32>,
}
impl FSettings {
    pub fn ack() -> (r: FSettings) ensures r.ack { FSettings { ack: true, id: 0, max_frame_size: None, max_header_list_size: None, header_table_size: None } }
    pub fn is_ack(&self) -> (r: bool) ensures r == self.ack { self.ack }
    pub fn max_frame_size(&self) -> (r: Option<u32>) ensures r == self.max_frame_size { self.max_frame_size }
    pub fn max_header_list_size(&self) -> (r: Option<u32>) ensures r == self.max_header_list_size { self.max_header_list_size }
    pub fn header_table_size(&self) -> (r: Option<u32>) ensures r == self.header_table_size { self.header_table_size }
    pub fn clone(&self) -> (r: FSettings) ensures r == *self { *self }
}
pub mod frame {
    pub use super::FSettings as Settings;
}

/// everything the state machine asks of the codec and of the streams layer, in order
#[derive(PartialEq, Eq, Structural, Clone, Copy, Debug)]
pub enum Ev {
    Buffered(FSettings),                 // codec.buffer(SETTINGS frame)
    RecvMaxFrame(usize), RecvHeaderList(usize), RecvTable(usize),     // codec receive side (our settings, acknowledged)
    SendTable(usize), SendMaxFrame(usize),                            // codec send side (the peer's settings)
    ApplyLocal(FSettings),               // streams.apply_local_settings(local)
    ApplyRemote(FSettings, bool),        // streams.apply_remote_settings(settings, is_initial)
}
pub struct Log { pub ev: Ghost<Seq<Ev>> }

pub enum Poll<T> { Ready(T), Pending }
impl<T> Poll<T> {
    pub fn is_ready(&self) -> (r: bool) ensures r == (self is Ready) { match self { Poll::Ready(_) => true, Poll::Pending => false } }
}
pub struct Context { pub tag: u8 }

pub struct Codec { pub tag: u8 }
impl Codec {
    /// what the next poll_ready will answer (transport state, unknown here)
    pub uninterp spec fn next_ready(self) -> Poll<Result<(), u8>>;

    #[verifier::external_body]
    pub fn poll_ready(&mut self, cx: &mut Context) -> (r: Poll<Result<(), u8>>)
        ensures r == old(self).next_ready(), (r matches Poll::Ready(Ok(_))) ==> final(self).has_room(),
    { unimplemented!() }

    pub uninterp spec fn has_room(self) -> bool;

    /// FramedWrite::buffer asserts has_capacity(): only after poll_ready answered Ready(Ok) (C08)
    #[verifier::external_body]
    pub fn buffer(&mut self, item: FSettings, log: &mut Log) -> (r: Result<(), UserError>)
        requires old(self).has_room(),
        ensures r is Ok, final(log).ev@ == old(log).ev@.push(Ev::Buffered(item)),
    { unimplemented!() }

    #[verifier::external_body]
    pub fn set_max_recv_frame_size(&mut self, v: usize, log: &mut Log) ensures final(log).ev@ == old(log).ev@.push(Ev::RecvMaxFrame(v)), final(self).has_room() == old(self).has_room(), final(self).next_ready() == old(self).next_ready() { unimplemented!() }
    #[verifier::external_body]
    pub fn set_max_recv_header_list_size(&mut self, v: usize, log: &mut Log) ensures final(log).ev@ == old(log).ev@.push(Ev::RecvHeaderList(v)), final(self).has_room() == old(self).has_room(), final(self).next_ready() == old(self).next_ready() { unimplemented!() }
    #[verifier::external_body]
    pub fn set_recv_header_table_size(&mut self, v: usize, log: &mut Log) ensures final(log).ev@ == old(log).ev@.push(Ev::RecvTable(v)), final(self).has_room() == old(self).has_room(), final(self).next_ready() == old(self).next_ready() { unimplemented!() }
    #[verifier::external_body]
    pub fn set_send_header_table_size(&mut self, v: usize, log: &mut Log) ensures final(log).ev@ == old(log).ev@.push(Ev::SendTable(v)), final(self).next_ready() == old(self).next_ready() { unimplemented!() }
    #[verifier::external_body]
    pub fn set_max_send_frame_size(&mut self, v: usize, log: &mut Log) ensures final(log).ev@ == old(log).ev@.push(Ev::SendMaxFrame(v)), final(self).next_ready() == old(self).next_ready() { unimplemented!() }
}

pub struct Streams { pub tag: u8 }
impl Streams {
    #[verifier::external_body]
    pub fn apply_local_settings(&mut self, local: &FSettings, log: &mut Log) -> (r: Result<(), Error>)
        ensures final(log).ev@ == old(log).ev@.push(Ev::ApplyLocal(*local)),
    { unimplemented!() }
    #[verifier::external_body]
    pub fn apply_remote_settings(&mut self, settings: &FSettings, is_initial: bool, log: &mut Log) -> (r: Result<(), Error>)
        ensures final(log).ev@ == old(log).ev@.push(Ev::ApplyRemote(*settings, is_initial)),
    { unimplemented!() }
}

#[derive(PartialEq, Eq, Structural, Clone, Copy, Debug)]
pub enum Local { ToSend(FSettings), WaitingAck(FSettings), Synced }

pub struct Settings {
    pub local: Local,
    pub remote: Option<FSettings>,
    pub has_received_remote_initial_settings: bool,
}

impl Settings {
    //@extract src/proto/settings.rs Settings::new
    //@ret r
    //@spec     ensures r.local == Local::WaitingAck(local) && r.remote is None && !r.has_received_remote_initial_settings,
    //@end

    //@extract src/proto/settings.rs Settings::mark_remote_initial_settings_as_received
    //@ret r
    //@spec     ensures r == !old(self).has_received_remote_initial_settings && final(self).has_received_remote_initial_settings
    //@spec         && final(self).local == old(self).local && final(self).remote == old(self).remote,
    //@end

    //@extract src/proto/settings.rs Settings::send_settings
    //@ret r
    //@spec     requires !frame.ack,      // the real assert!: the API never builds an ACK
    //@spec     ensures
    //@spec         // one set of local settings in flight at a time
    //@spec         old(self).local == Local::Synced ==> r is Ok && final(self).local == Local::ToSend(frame),
    //@spec         old(self).local != Local::Synced ==> r == Err::<(), UserError>(UserError::SendSettingsWhilePending) && final(self).local == old(self).local,
    //@spec         final(self).remote == old(self).remote && final(self).has_received_remote_initial_settings == old(self).has_received_remote_initial_settings,
    //@end

    //@extract src/proto/settings.rs Settings::recv_settings
    //@subst_re pub fn recv_settings<T, B, C, P>\(\s*&mut self,\s*frame: frame::Settings,\s*codec: &mut Codec<T, B>,\s*streams: &mut Streams<C, P>,\s*\) -> Result<\(\), Error>\s*where\s*T: AsyncWrite \+ Unpin,\s*B: Buf,\s*C: Buf,\s*P: Peer,=>pub fn recv_settings(&mut self, frame: frame::Settings, codec: &mut Codec, streams: &mut Streams, log: &mut Log) -> Result<(), Error>
    //@subst match &self.local {=>match self.local {
    //@subst codec.set_max_recv_frame_size(max as usize);=>codec.set_max_recv_frame_size(max as usize, log);
    //@subst codec.set_max_recv_header_list_size(max as usize);=>codec.set_max_recv_header_list_size(max as usize, log);
    //@subst codec.set_recv_header_table_size(val as usize);=>codec.set_recv_header_table_size(val as usize, log);
    //@subst streams.apply_local_settings(local)?;=>streams.apply_local_settings(&local, log)?;
    //@ret r
    //@spec     requires
    //@spec         // I-single-slot: the previous SETTINGS frame was acknowledged before the next frame is read (Connection::poll_ready)
    //@spec         !frame.ack ==> old(self).remote is None,
    //@spec     ensures
    //@spec         final(self).has_received_remote_initial_settings == old(self).has_received_remote_initial_settings,
    //@spec         // a SETTINGS frame of the peer is parked; nothing is applied yet
    //@spec         !frame.ack ==> r is Ok && final(self).remote == Some(frame) && final(self).local == old(self).local && final(log).ev@ == old(log).ev@,
    //@spec         // the ACK of OUR settings: exactly the settings that were sent take effect, receive side of the codec first, then the streams
    //@spec         (frame.ack && (old(self).local matches Local::WaitingAck(l))) ==> {
    //@spec             let l = old(self).local->WaitingAck_0;
    //@spec             let e1 = if l.max_frame_size is Some { old(log).ev@.push(Ev::RecvMaxFrame(l.max_frame_size->Some_0 as usize)) } else { old(log).ev@ };
    //@spec             let e2 = if l.max_header_list_size is Some { e1.push(Ev::RecvHeaderList(l.max_header_list_size->Some_0 as usize)) } else { e1 };
    //@spec             let e3 = if l.header_table_size is Some { e2.push(Ev::RecvTable(l.header_table_size->Some_0 as usize)) } else { e2 };
    //@spec             &&& final(log).ev@ == e3.push(Ev::ApplyLocal(l))
    //@spec             &&& final(self).remote == old(self).remote
    //@spec             &&& (r is Ok ==> final(self).local == Local::Synced)
    //@spec             &&& (r is Err ==> final(self).local == old(self).local)
    //@spec         },
    //@spec         // an ACK nobody waits for: connection error, nothing applied
    //@spec         (frame.ack && !(old(self).local matches Local::WaitingAck(l))) ==> r == Err::<(), Error>(Error::GoAway(Reason::PROTOCOL_ERROR, Initiator::Library))
    //@spec             && final(self).local == old(self).local && final(self).remote == old(self).remote && final(log).ev@ == old(log).ev@,
    //@end

    //@extract src/proto/settings.rs Settings::poll_send
    //@subst_re pub fn poll_send<T, B, C, P>\(\s*&mut self,\s*cx: &mut Context,\s*dst: &mut Codec<T, B>,\s*streams: &mut Streams<C, P>,\s*\) -> Poll<Result<\(\), Error>>\s*where\s*T: AsyncWrite \+ Unpin,\s*B: Buf,\s*C: Buf,\s*P: Peer,=>pub fn poll_send(&mut self, cx: &mut Context, dst: &mut Codec, streams: &mut Streams, log: &mut Log) -> Poll<Result<(), Error>>
    //@subst if !dst.poll_ready(cx)?.is_ready() {=>let _pr = dst.poll_ready(cx); if let Poll::Ready(Err(e)) = _pr { return Poll::Ready(Err(Error::Io(e))); } if !_pr.is_ready() {
    //@subst dst.buffer(frame.into()).expect("invalid settings frame");=>let _b = dst.buffer(frame, log); assert(_b.is_ok());
    //@subst streams.apply_remote_settings(&settings, is_initial)?;=>if let Err(e) = streams.apply_remote_settings(&settings, is_initial, log) { return Poll::Ready(Err(e)); }
    //@subst dst.set_send_header_table_size(val as usize);=>dst.set_send_header_table_size(val as usize, log);
    //@subst dst.set_max_send_frame_size(val as usize);=>dst.set_max_send_frame_size(val as usize, log);
    //@subst match &self.local {=>match self.local {
    //@subst_re dst\.buffer\(settings\.clone\(\)\.into\(\)\)\s*\.expect\("invalid settings frame"\);=>let _b2 = dst.buffer(settings.clone(), log); assert(_b2.is_ok());
    //@ret r
    //@spec     ensures
    //@spec         // ---- the peer's SETTINGS, owed an ACK
    //@spec         old(self).remote matches Some(s) ==> (match old(dst).next_ready() {
    //@spec             // the codec cannot take the ACK now: NOTHING is applied, the frame stays owed (C14: apply at the ACK, not before)
    //@spec             Poll::Pending => r is Pending && *final(self) == *old(self) && final(log).ev@ == old(log).ev@,
    //@spec             Poll::Ready(Err(e)) => r == Poll::<Result<(), Error>>::Ready(Err(Error::Io(e))) && *final(self) == *old(self) && final(log).ev@ == old(log).ev@,
    //@spec             // it can: exactly one ACK is buffered FIRST, then the settings are applied (initial-ness decided by history)
    //@spec             Poll::Ready(Ok(_)) => final(log).ev@.len() >= old(log).ev@.len() + 2
    //@spec                 && (final(log).ev@[old(log).ev@.len() as int] matches Ev::Buffered(a) && a.ack)
    //@spec                 && final(log).ev@[old(log).ev@.len() as int + 1] == Ev::ApplyRemote(s, !old(self).has_received_remote_initial_settings)
    //@spec                 && final(self).has_received_remote_initial_settings
    //@spec                 // acknowledged exactly once: the slot is empty unless applying failed
    //@spec                 && (r matches Poll::Ready(Ok(_)) ==> final(self).remote is None),
    //@spec         }),
    //@spec         // the single slot never fills here (I-single-slot, used by Connection::poll_ready in unit v_connection)
    //@spec         old(self).remote is None ==> final(self).remote is None,
    //@spec         (r matches Poll::Ready(Ok(_))) ==> final(self).remote is None,
    //@spec         // ---- nothing owed: no ACK is invented, nothing is applied
    //@spec         (old(self).remote is None && !(old(self).local matches Local::ToSend(_))) ==> r == Poll::<Result<(), Error>>::Ready(Ok(())) && *final(self) == *old(self) && final(log).ev@ == old(log).ev@,
    //@spec         // ---- our queued SETTINGS: sent once, then waiting for the ACK with exactly those values
    //@spec         (old(self).remote is None && (old(self).local matches Local::ToSend(l))) ==> (match old(dst).next_ready() {
    //@spec             Poll::Pending => r is Pending && *final(self) == *old(self) && final(log).ev@ == old(log).ev@,
    //@spec             Poll::Ready(Err(e)) => r == Poll::<Result<(), Error>>::Ready(Err(Error::Io(e))) && final(self).local == old(self).local && final(log).ev@ == old(log).ev@,
    //@spec             Poll::Ready(Ok(_)) => r == Poll::<Result<(), Error>>::Ready(Ok(())) && final(self).local == Local::WaitingAck(old(self).local->ToSend_0)
    //@spec                 && final(log).ev@ == old(log).ev@.push(Ev::Buffered(old(self).local->ToSend_0)),
    //@spec         }),
    //@end
}

proof fn vacuity_probe_settings()
    ensures false,
{
}

} // verus!
