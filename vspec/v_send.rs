// @unit id=v_send props=C17,C04,C16,C02,C06,C07,C08,C14,C15,C13,C05,C01 tier=quick rlimit=100
// Verus contracts on the real bodies of src/proto/streams/send.rs, extracted on every run, on top of the verified
// scheduler (inc/prioritize.inc).  Modular: callees are used through their contracts.
use vstd::prelude::*;
use vstd::std_specs::cmp::*;
use std::cmp::{self, Ordering};
use std::mem;

verus! {

//@include prioritize.inc

#[derive(Clone, Copy, Debug)]
pub struct StreamIdOverflow;

impl StreamId {
    pub const MAX: StreamId = StreamId(0x7fff_ffff);

    //@extract src/frame/stream_id.rs StreamId::next_id
    //@ret r
    //@spec     requires self.0 <= 0x7fff_ffff,
    //@spec     ensures
    //@spec         self.0 + 2 <= 0x7fff_ffff ==> r is Ok && r->Ok_0.0 == self.0 + 2,
    //@spec         self.0 + 2 > 0x7fff_ffff ==> r is Err,
    //@end
}

// `#[derive(PartialOrd)]` on `struct StreamId(u32)` (R5: written out)
impl PartialOrdSpecImpl for StreamId {
    open spec fn obeys_partial_cmp_spec() -> bool { true }
    open spec fn partial_cmp_spec(&self, other: &StreamId) -> Option<core::cmp::Ordering> {
        if self.0 < other.0 { Some(core::cmp::Ordering::Less) }
        else if self.0 == other.0 { Some(core::cmp::Ordering::Equal) }
        else { Some(core::cmp::Ordering::Greater) }
    }
}
impl PartialOrd for StreamId {
    fn partial_cmp(&self, other: &StreamId) -> Option<core::cmp::Ordering> { self.0.partial_cmp(&other.0) }
}

pub mod settings_frame {
    /// frame::Settings reduced to the parameters send.rs reads (accessors are field reads in /repo).
    pub struct Settings {
        pub initial_window_size: Option<u32>,
        pub enable_push: Option<bool>,
        pub enable_connect_protocol: Option<bool>,
    }
}

impl settings_frame::Settings {
    pub fn initial_window_size(&self) -> (r: Option<u32>) ensures r == self.initial_window_size { self.initial_window_size }
    pub fn is_push_enabled(&self) -> (r: Option<bool>) ensures r == self.enable_push { self.enable_push }
    pub fn is_extended_connect_protocol_enabled(&self) -> (r: Option<bool>) ensures r == self.enable_connect_protocol { self.enable_connect_protocol }
}

pub struct Send {
    pub next_stream_id: Result<StreamId, StreamIdOverflow>,
    pub max_stream_id: StreamId,
    pub init_window_sz: WindowSize,
    pub prioritize: Prioritize,
    pub is_push_enabled: bool,
    pub is_extended_connect_protocol_enabled: bool,
}

/// What `Context::waker().clone()` yields (opaque).
pub struct Context { pub tag: u8 }
impl Context {
    #[verifier::external_body]
    pub fn waker(&self) -> (r: &Waker) { unimplemented!() }
}
impl Clone for Waker {
    #[verifier::external_body]
    fn clone(&self) -> (r: Waker) { unimplemented!() }
}

pub enum Poll<T> { Ready(T), Pending }

/// Send::check_headers(frame.fields()) — RFC 9113 8.2.2 connection-specific fields; its verdict is carried by the reduced frame
pub fn check_headers_verdict(fields_ok: bool) -> (r: Result<(), UserError>)
    ensures fields_ok ==> r is Ok, !fields_ok ==> r == Err::<(), UserError>(UserError::MalformedHeaders),
{ if fields_ok { Ok(()) } else { Err(UserError::MalformedHeaders) } }

/// counts.peer().is_local_init(id): the stream id belongs to this endpoint's half of the id space (peer.rs; asserts id != 0)
pub uninterp spec fn local_init_spec(c: Counts, id: StreamId) -> bool;
pub struct PeerView { pub c: Ghost<Counts> }
impl PeerView {
    #[verifier::external_body]
    pub fn is_local_init(&self, id: StreamId) -> (r: bool)
        requires id.0 != 0,
        ensures r == local_init_spec(self.c@, id),
    { unimplemented!() }
}
impl Counts {
    #[verifier::external_body]
    pub fn peer(&self) -> (r: PeerView) ensures r.c@ == *self { unimplemented!() }
}

impl Stream {
    //@extract src/proto/streams/stream.rs Stream::wait_send
    //@spec     ensures *final(self) == (Stream { send_task: final(self).send_task, ..*old(self) }) && final(self).send_task is Some,
    //@end
}

impl Send {
    pub open spec fn ids_ok(self) -> bool {
        (self.next_stream_id is Ok ==> 1 <= self.next_stream_id->Ok_0.0 <= 0x7fff_ffff) && self.max_stream_id.0 <= 0x7fff_ffff
    }

    //@extract src/proto/streams/send.rs Send::ensure_next_stream_id
    //@subst_re self\.next_stream_id\s*\.map_err\(\|_\| UserError::OverflowedStreamId\)=>match self.next_stream_id { Ok(id) => Ok(id), Err(_) => Err(UserError::Other(0)) }
    //@ret r
    //@spec     ensures
    //@spec         self.next_stream_id is Ok ==> r is Ok && r->Ok_0 == self.next_stream_id->Ok_0,
    //@spec         self.next_stream_id is Err ==> r is Err,
    //@end

    //@extract src/proto/streams/send.rs Send::open
    //@ret r
    //@spec     requires old(self).ids_ok(),
    //@spec     ensures
    //@spec         final(self).ids_ok(),
    //@spec         // C04: identifiers strictly increase by two (parity kept); when they run out every request is refused
    //@spec         old(self).next_stream_id is Ok ==> r is Ok && r->Ok_0 == old(self).next_stream_id->Ok_0
    //@spec             && (if r->Ok_0.0 + 2 <= 0x7fff_ffff { final(self).next_stream_id is Ok && final(self).next_stream_id->Ok_0.0 == r->Ok_0.0 + 2 } else { final(self).next_stream_id is Err }),
    //@spec         old(self).next_stream_id is Err ==> r is Err && final(self).next_stream_id is Err,
    //@spec         final(self).max_stream_id == old(self).max_stream_id,
    //@end

    //@extract src/proto/streams/send.rs Send::ensure_not_idle
    //@ret r
    //@spec     ensures
    //@spec         // idle <=> not yet used by us (id >= next); frames on idle streams are PROTOCOL_ERROR
    //@spec         r is Err <==> (self.next_stream_id is Ok && id.0 >= self.next_stream_id->Ok_0.0),
    //@spec         r is Err ==> r == Err::<(), Reason>(Reason(1)),
    //@end

    //@extract src/proto/streams/send.rs Send::maybe_reset_next_stream_id
    //@subst_re assert!\(\(id\.is_server_initiated\(\)\) == \(next_id\.is_server_initiated\(\)\)\);=>
    //@spec     requires old(self).ids_ok() && id.0 <= 0x7fff_ffff,
    //@spec     ensures
    //@spec         final(self).ids_ok(),
    //@spec         // C04: the next identifier only ever grows
    //@spec         old(self).next_stream_id is Err ==> final(self).next_stream_id is Err,
    //@spec         old(self).next_stream_id is Ok && id.0 < old(self).next_stream_id->Ok_0.0 ==> final(self).next_stream_id == old(self).next_stream_id,
    //@spec         old(self).next_stream_id is Ok && id.0 >= old(self).next_stream_id->Ok_0.0 ==>
    //@spec             (if id.0 + 2 <= 0x7fff_ffff { final(self).next_stream_id is Ok && final(self).next_stream_id->Ok_0.0 == id.0 + 2 } else { final(self).next_stream_id is Err }),
    //@end

    //@extract src/proto/streams/send.rs Send::recv_go_away
    //@subst Err(Error::library_go_away(Reason::PROTOCOL_ERROR))=>Err(Error::GoAway(Reason(1), Initiator::Library))
    //@ret r
    //@spec     ensures
    //@spec         // C15: the peer's cut-off never increases; an increase is a connection PROTOCOL_ERROR and changes nothing
    //@spec         last_stream_id.0 > old(self).max_stream_id.0 ==> r is Err && final(self).max_stream_id == old(self).max_stream_id,
    //@spec         last_stream_id.0 <= old(self).max_stream_id.0 ==> r is Ok && final(self).max_stream_id == last_stream_id,
    //@end

    //@extract src/proto/streams/send.rs Send::capacity
    //@subst stream: &mut store::Ptr=>stream: &mut Stream
    //@ret r
    //@spec     ensures r as int == old(stream).cap(self.prioritize.max_buffer_size) && *final(stream) == *old(stream),
    //@end

    //@extract src/proto/streams/send.rs Send::poll_capacity
    //@subst stream: &mut store::Ptr=>stream: &mut Stream
    //@ret r
    //@spec     ensures
    //@spec         // C16: a capacity notification never reports zero
    //@spec         !(r matches Poll::Ready(Some(Ok(n))) && n == 0),
    //@spec         // C07/C16: the wait ends when the stream can no longer send
    //@spec         !old(stream).state.send_streaming() ==> r matches Poll::Ready(None),
    //@spec         // Ready(n): n is exactly the capacity, and the notification is consumed
    //@spec         r matches Poll::Ready(Some(Ok(n))) ==> n as int == old(stream).cap(old(self).prioritize.max_buffer_size) && !final(stream).send_capacity_inc,
    //@spec         old(stream).state.send_streaming() && old(stream).send_capacity_inc && old(stream).cap(old(self).prioritize.max_buffer_size) > 0 ==> r matches Poll::Ready(Some(Ok(_))),
    //@spec         // C06: Pending only after the waker has been stored
    //@spec         r is Pending ==> final(stream).send_task is Some,
    //@spec         final(stream).send_flow == old(stream).send_flow && final(stream).state == old(stream).state && final(stream).buffered_send_data == old(stream).buffered_send_data,
    //@end

    // ---- sending the parts of a message (C04 / C13 / C01 / C06).  On EVERY refusal — a field section Send::check_headers
    // rejects (connection-specific fields, RFC 9113 8.2.2), a stream state that does not allow the frame, push disabled by
    // the peer — NOTHING is queued and the stream is exactly as it was: the endpoint cannot be made to emit an illegal or
    // malformed sequence, and a refused call can be retried with a valid one.  On success exactly that frame is appended at
    // the BACK of the stream's queue, the state moves as RFC 9113 5.1 says, a locally initiated stream that is not a push
    // waits for a concurrency slot (pending_open) instead of pending_send, and the connection task is woken.
    // Listed substitutions: generics / Ptr types; `Self::check_headers(frame.fields())?` => the verdict recorded in the
    // reduced frame (`check_headers_verdict`); `frame.into()` => the Frame variant.
    //@extract src/proto/streams/send.rs Send::send_headers
    //@subst send_headers<B>(=>send_headers(
    //@subst buffer: &mut Buffer<Frame<B>>=>buffer: &mut Buffer
    //@subst stream: &mut store::Ptr=>stream: &mut Stream
    //@subst_opt_re Self::check_headers\(frame\.fields\(\)\)\?; ==>> check_headers_verdict(frame.fields_ok)?;
    //@subst_re \.queue_frame\(frame\.into\(\), buffer, stream, task\);=>.queue_frame(Frame::Headers(frame), buffer, stream, task);
    //@ret r
    //@spec     requires
    //@spec         frame.stream_id.0 != 0,
    //@spec         // a stream this endpoint opens with these HEADERS has never been scheduled (the debug_assert of NextOpen::set_queued)
    //@spec         (local_init_spec(*old(counts), frame.stream_id) && !old(stream).is_pending_push) ==> !old(stream).is_pending_send,
    //@spec     ensures
    //@spec         final(self).prioritize.flow == old(self).prioritize.flow && final(self).init_window_sz == old(self).init_window_sz,
    //@spec         // refused: nothing happened
    //@spec         (!frame.fields_ok) ==> r == Err::<(), UserError>(UserError::MalformedHeaders) && *final(stream) == *old(stream) && *final(task) == *old(task),
    //@spec         (frame.fields_ok && old(stream).state.after_send_open(frame.eos) is None) ==> r == Err::<(), UserError>(UserError::UnexpectedFrameType)
    //@spec             && *final(stream) == *old(stream) && *final(task) == *old(task),
    //@spec         // accepted
    //@spec         (frame.fields_ok && (old(stream).state.after_send_open(frame.eos) matches Some(n))) ==> r is Ok
    //@spec             && final(stream).state.inner == old(stream).state.after_send_open(frame.eos)->Some_0
    //@spec             && final(stream).pending_send@ == old(stream).pending_send@.push(Frame::Headers(frame))
    //@spec             // C05: a stream this endpoint initiates (and that is not a promised stream) waits for a slot
    //@spec             && (final(stream).is_pending_open == (old(stream).is_pending_open || (local_init_spec(*old(counts), frame.stream_id) && !old(stream).is_pending_push)))
    //@spec             // C06: somebody is told — the connection task is woken
    //@spec             && ((*final(task) is None) || ((old(stream).is_pending_push || old(stream).is_pending_open) && *final(task) == *old(task))),
    //@end

    //@extract src/proto/streams/send.rs Send::send_interim_informational_headers
    //@subst send_interim_informational_headers<B>(=>send_interim_informational_headers(
    //@subst buffer: &mut Buffer<Frame<B>>=>buffer: &mut Buffer
    //@subst stream: &mut store::Ptr=>stream: &mut Stream
    //@subst_opt_re Self::check_headers\(frame\.fields\(\)\)\?; ==>> check_headers_verdict(frame.fields_ok)?;
    //@subst_re assert!\(frame\.is_informational\(\),\s*".*?"\);=>assert!(frame.is_informational());
    //@subst_re assert!\(!frame\.is_end_stream\(\),\s*".*?"\);=>assert!(!frame.is_end_stream());
    //@subst_re \.queue_frame\(frame\.into\(\), buffer, stream, task\);=>.queue_frame(Frame::Headers(frame), buffer, stream, task);
    //@ret r
    //@spec     requires frame.fields_ok ==> frame.informational && !frame.eos,      // the two real debug_assert!s (share.rs validates at the API boundary)
    //@spec     ensures
    //@spec         (!frame.fields_ok) ==> r == Err::<(), UserError>(UserError::MalformedHeaders) && *final(stream) == *old(stream) && *final(task) == *old(task),
    //@spec         // a 1xx response does not move the state machine
    //@spec         frame.fields_ok ==> r is Ok && final(stream).state == old(stream).state && final(stream).pending_send@ == old(stream).pending_send@.push(Frame::Headers(frame)),
    //@end

    //@extract src/proto/streams/send.rs Send::send_push_promise
    //@subst send_push_promise<B>(=>send_push_promise(
    //@subst buffer: &mut Buffer<Frame<B>>=>buffer: &mut Buffer
    //@subst stream: &mut store::Ptr=>stream: &mut Stream
    //@subst_opt_re Self::check_headers\(frame\.fields\(\)\)\?; ==>> check_headers_verdict(frame.fields_ok)?;
    //@subst_re \.queue_frame\(frame\.into\(\), buffer, stream, task\);=>.queue_frame(Frame::PushPromise(frame), buffer, stream, task);
    //@ret r
    //@spec     ensures
    //@spec         // RFC 9113 6.6 / 6.5.2: never a PUSH_PROMISE to a peer that set SETTINGS_ENABLE_PUSH = 0
    //@spec         !old(self).is_push_enabled ==> r == Err::<(), UserError>(UserError::PeerDisabledServerPush) && *final(stream) == *old(stream) && *final(task) == *old(task),
    //@spec         (old(self).is_push_enabled && !frame.fields_ok) ==> r == Err::<(), UserError>(UserError::MalformedHeaders) && *final(stream) == *old(stream) && *final(task) == *old(task),
    //@spec         (old(self).is_push_enabled && frame.fields_ok) ==> r is Ok && final(stream).pending_send@ == old(stream).pending_send@.push(Frame::PushPromise(frame))
    //@spec             && final(stream).state == old(stream).state,
    //@end

    //@extract src/proto/streams/send.rs Send::send_trailers
    //@subst send_trailers<B>(=>send_trailers(
    //@subst buffer: &mut Buffer<Frame<B>>=>buffer: &mut Buffer
    //@subst stream: &mut store::Ptr=>stream: &mut Stream
    //@subst_opt_re Self::check_headers\(frame\.fields\(\)\)\?; ==>> check_headers_verdict(frame.fields_ok)?;
    //@subst_re \.queue_frame\(frame\.into\(\), buffer, stream, task\);=>.queue_frame(Frame::Headers(frame), buffer, stream, task);
    //@ret r
    //@spec     requires
    //@spec         wf_send(*old(stream)) && wf_pool(old(self).prioritize),
    //@spec         old(self).prioritize.flow.a() + old(stream).send_flow.a() <= 0x7fff_ffff,
    //@spec         old(stream).buffered_send_data <= 0xff_ffff_ffff,
    //@spec         !(old(stream).is_pending_open && old(stream).is_pending_push),
    //@spec     ensures
    //@spec         (!frame.fields_ok) ==> r == Err::<(), UserError>(UserError::MalformedHeaders) && *final(stream) == *old(stream) && *final(task) == *old(task) && final(self).prioritize.flow == old(self).prioritize.flow,
    //@spec         // trailers only while the send half is streaming (after HEADERS, before END_STREAM)
    //@spec         (frame.fields_ok && !old(stream).state.send_streaming()) ==> r == Err::<(), UserError>(UserError::UnexpectedFrameType) && *final(stream) == *old(stream) && *final(task) == *old(task),
    //@spec         // accepted: the send half is closed, the trailers are the LAST frame of the queue, excess capacity goes back
    //@spec         (frame.fields_ok && old(stream).state.send_streaming()) ==> r is Ok && final(stream).state.send_closed()
    //@spec             && final(stream).pending_send@ == old(stream).pending_send@.push(Frame::Headers(frame))
    //@spec             && final(self).prioritize.flow.a() + final(stream).send_flow.a() <= old(self).prioritize.flow.a() + old(stream).send_flow.a(),
    //@end

    //@extract src/proto/streams/send.rs Send::send_reset
    //@subst send_reset<B>(=>send_reset(
    //@subst buffer: &mut Buffer<Frame<B>>=>buffer: &mut Buffer
    //@subst stream: &mut store::Ptr=>stream: &mut Stream
    //@subst frame.into()=>Frame::Reset(frame)
    //@spec     requires
    //@spec         stream_inv(*old(stream)) && wf_pool(old(self).prioritize),
    //@spec         old(self).prioritize.flow.a() + old(stream).send_flow.a() <= 0x7fff_ffff,
    //@spec     ensures
    //@spec         final(stream).send_flow.w() == old(stream).send_flow.w() && final(self).prioritize.flow.w() == old(self).prioritize.flow.w(),
    //@spec         final(stream).send_flow.a() >= 0 && final(self).prioritize.flow.a() >= 0,
    //@spec         final(self).prioritize.flow.a() + final(stream).send_flow.a() <= old(self).prioritize.flow.a() + old(stream).send_flow.a(),
    //@spec         *final(self) == (Send { prioritize: final(self).prioritize, ..*old(self) }),
    //@spec         // C17: a stream that is already reset gets no second RST_STREAM: nothing happens at all
    //@spec         old(stream).state.is_reset_spec() ==> *final(stream) == *old(stream) && final(self).prioritize == old(self).prioritize,
    //@spec         // otherwise the state records exactly (id, code, initiator) and every waiter is woken
    //@spec         !old(stream).state.is_reset_spec() ==> final(stream).state.inner == Inner::Closed(Cause::Error(Error::Reset(old(stream).id, reason, initiator)))
    //@spec             && final(stream).send_task is None && final(stream).recv_task is None && final(stream).push_task is None,
    //@spec         // closed cleanly and flushed: no frame
    //@spec         !old(stream).state.is_reset_spec() && old(stream).state.closed() && old(stream).pending_send@.len() == 0 ==>
    //@spec             final(stream).pending_send@.len() == 0 && final(stream).send_flow == old(stream).send_flow && final(self).prioritize == old(self).prioritize,
    //@spec         // otherwise EXACTLY ONE RST_STREAM(id, code) is queued LAST; unsent frames are discarded — except that the
    //@spec         // opening HEADERS of a stream still waiting for a concurrency slot stay in front (never RST on an idle stream)
    //@spec         !old(stream).state.is_reset_spec() && !(old(stream).state.closed() && old(stream).pending_send@.len() == 0) ==> (
    //@spec             final(stream).pending_send@ == (if old(stream).is_pending_open { old(stream).pending_send@ } else { Seq::<QFrame>::empty() }).push(Frame::Reset(frame::Reset { stream_id: old(stream).id, error_code: reason }))
    //@spec             // C16: whatever capacity it held is back in the pool (or passed on): nothing leaks
    //@spec             && final(self).prioritize.flow.a() + final(stream).send_flow.a() <= old(self).prioritize.flow.a() + old(stream).send_flow.a()
    //@spec             && final(stream).send_flow.a() >= 0 && final(self).prioritize.flow.a() >= 0),
    //@end

    //@extract src/proto/streams/send.rs Send::schedule_implicit_reset
    //@subst stream: &mut store::Ptr=>stream: &mut Stream
    //@spec     requires
    //@spec         stream_inv(*old(stream)) && wf_pool(old(self).prioritize),
    //@spec         old(self).prioritize.flow.a() + old(stream).send_flow.a() <= 0x7fff_ffff,
    //@spec         // NO_ERROR is only scheduled by a server that has completed its response (maybe_cancel)
    //@spec         reason == Reason::NO_ERROR ==> old(stream).state.send_closed(),
    //@spec     ensures
    //@spec         // C17: a closed stream gets nothing; otherwise the reset is scheduled with exactly this code
    //@spec         old(stream).state.closed() ==> *final(stream) == *old(stream) && final(self).prioritize == old(self).prioritize,
    //@spec         !old(stream).state.closed() ==> final(stream).state.inner == Inner::Closed(Cause::ScheduledLibraryReset(reason)),
    //@spec         // queued frames stay (they are sent or discarded by pop_frame, then the RST_STREAM follows)
    //@spec         final(stream).pending_send == old(stream).pending_send && final(stream).buffered_send_data == old(stream).buffered_send_data,
    //@spec         // C16: capacity reserved but not needed for buffered data returns to the pool; nothing is created
    //@spec         final(stream).send_flow.w() == old(stream).send_flow.w() && final(self).prioritize.flow.w() == old(self).prioritize.flow.w(),
    //@spec         final(self).prioritize.flow.a() + final(stream).send_flow.a() <= old(self).prioritize.flow.a() + old(stream).send_flow.a(),
    //@spec         final(self).prioritize.flow.a() >= 0,
    //@spec         // C06: the stream is scheduled (and the connection task woken) so that the RST_STREAM goes out
    //@spec         !old(stream).state.closed() && !old(stream).is_pending_open && !old(stream).is_pending_push ==> final(stream).is_pending_send && *final(task) is None,
    //@spec         stream_inv(*final(stream)),
    //@end

    //@extract src/proto/streams/send.rs Send::handle_error
    //@subst handle_error<B>(=>handle_error(
    //@subst buffer: &mut Buffer<Frame<B>>=>buffer: &mut Buffer
    //@subst stream: &mut store::Ptr=>stream: &mut Stream
    //@spec     requires
    //@spec         0 <= old(stream).send_flow.a() && wf_pool(old(self).prioritize),
    //@spec         old(self).prioritize.flow.a() + old(stream).send_flow.a() <= 0x7fff_ffff,
    //@spec     ensures
    //@spec         // C07/C17: everything unsent is discarded and ALL capacity is back in the pool (or passed on)
    //@spec         final(stream).pending_send@.len() == 0 && final(stream).buffered_send_data == 0 && final(stream).requested_send_capacity == 0,
    //@spec         final(stream).send_flow.a() == 0,
    //@spec         final(self).prioritize.flow.a() <= old(self).prioritize.flow.a() + old(stream).send_flow.a() && final(self).prioritize.flow.a() >= 0,
    //@spec         final(stream).send_flow.w() == old(stream).send_flow.w() && final(self).prioritize.flow.w() == old(self).prioritize.flow.w(),
    //@spec         final(stream).state == old(stream).state,
    //@end

    //@extract src/proto/streams/send.rs Send::recv_stream_window_update
    //@subst recv_stream_window_update<B>(=>recv_stream_window_update(
    //@subst buffer: &mut Buffer<Frame<B>>=>buffer: &mut Buffer
    //@subst stream: &mut store::Ptr=>stream: &mut Stream
    //@ret r
    //@spec     requires
    //@spec         sz_ok(sz) && sz >= 1,
    //@spec         stream_inv(*old(stream)) && wf_pool(old(self).prioritize),
    //@spec         old(self).prioritize.flow.a() + old(stream).send_flow.a() <= 0x7fff_ffff,
    //@spec     ensures
    //@spec         final(self).prioritize.flow.w() == old(self).prioritize.flow.w(),
    //@spec         *final(self) == (Send { prioritize: final(self).prioritize, ..*old(self) }),
    //@spec         // C09: a WINDOW_UPDATE that overflows the stream window resets THAT stream with FLOW_CONTROL_ERROR
    //@spec         (!(old(stream).state.send_closed() && old(stream).buffered_send_data == 0) && old(stream).send_flow.w() + sz > 0x7fff_ffff) ==> (
    //@spec             r == Err::<(), Reason>(Reason::FLOW_CONTROL_ERROR)
    //@spec             && (!old(stream).state.is_reset_spec() ==> final(stream).state.inner == Inner::Closed(Cause::Error(Error::Reset(old(stream).id, Reason::FLOW_CONTROL_ERROR, Initiator::Library))))),
    //@spec         // otherwise the window grows by exactly sz (or the update is ignored by a stream that can never send again)
    //@spec         !(!(old(stream).state.send_closed() && old(stream).buffered_send_data == 0) && old(stream).send_flow.w() + sz > 0x7fff_ffff) ==> r.is_ok(),
    //@spec         r.is_ok() && !(old(stream).state.send_closed() && old(stream).buffered_send_data == 0) ==> final(stream).send_flow.w() == old(stream).send_flow.w() + sz,
    //@spec         final(stream).send_flow.a() >= 0 && final(self).prioritize.flow.a() >= 0,
    //@spec         final(self).prioritize.flow.a() + final(stream).send_flow.a() <= old(self).prioritize.flow.a() + old(stream).send_flow.a(),
    //@end

    /// what apply_remote_settings must do to ONE stream when the peer lowers INITIAL_WINDOW_SIZE by `dec`
    /// (RFC 9113 6.9.2): every stream that may still emit DATA has its window moved by exactly -dec (possibly below
    /// zero); capacity beyond the new window is taken back; only a stream that can never send again may be skipped.
    pub open spec fn lowered(s0: Stream, s1: Stream, dec: int) -> bool {
        if s0.state.send_closed() && s0.buffered_send_data == 0 {
            s1 == s0
        } else {
            &&& s1.send_flow.w() == s0.send_flow.w() - dec
            &&& s1.send_flow.a() == (if s0.send_flow.a() <= pos(s0.send_flow.w() - dec) { s0.send_flow.a() } else { pos(s0.send_flow.w() - dec) })
        }
    }

    //@extract src/proto/streams/send.rs Send::apply_remote_settings
    //@attr #[verifier::exec_allows_no_decreases_clause]
    //@subst apply_remote_settings<B>(=>apply_remote_settings(
    //@subst settings: &frame::Settings=>settings: &settings_frame::Settings
    //@subst buffer: &mut Buffer<Frame<B>>=>buffer: &mut Buffer
    //@subst_re store\.try_for_each\(\|mut stream\| \{\s*let stream = &mut \*stream;=>store.iter_begin(); let ghost self0 = *self; loop invariant *self == (Send { prioritize: self.prioritize, ..self0 }), self0.init_window_sz == val && settings.initial_window_size == Some(val) && (settings.enable_connect_protocol is Some ==> self0.is_extended_connect_protocol_enabled == settings.enable_connect_protocol->Some_0), store.held() == old(store).held(), self.prioritize.flow.a() + store.sum() + total_reclaimed == old(self).prioritize.flow.a() + old(store).sum(), self.prioritize.flow.a() >= 0 && store.sum() >= 0, self.prioritize == old(self).prioritize, old(self).prioritize.flow.a() + old(store).sum() <= 0x7fff_ffff, sz_ok(dec), { let mut stream = match store.iter_next() { Some(s) => s, None => { break; } }; let ghost s0 = stream;
    //@subst_re return Ok\(\(\)\);=>proof { assert(Send::lowered(s0, stream, dec as int)); } store.put_back(stream); continue;
    //@subst .map_err(proto::Error::library_go_away)=>.map_err_go_away()
    //@subst_re Ok::<_, proto::Error>\(\(\)\)\s*\}\)\?;=>proof { assert(Send::lowered(s0, stream, dec as int)); } store.put_back(stream); }
    //@subst_re store\.try_for_each\(\|mut stream\| \{\s*self\.recv_stream_window_update\(inc, buffer, &mut stream, counts, task\)\s*\.map_err\(Error::library_go_away\)\s*\}\)\?;=>store.iter_begin(); let ghost self0 = *self; loop invariant *self == (Send { prioritize: self.prioritize, ..self0 }), self0.init_window_sz == val && settings.initial_window_size == Some(val) && (settings.enable_connect_protocol is Some ==> self0.is_extended_connect_protocol_enabled == settings.enable_connect_protocol->Some_0), store.held() == old(store).held(), self.prioritize.flow.a() + store.sum() <= old(self).prioritize.flow.a() + old(store).sum(), self.prioritize.flow.a() >= 0 && store.sum() >= 0, self.prioritize.flow.w() == old(self).prioritize.flow.w(), old(self).prioritize.flow.a() + old(store).sum() <= 0x7fff_ffff, sz_ok(inc) && inc >= 1, { let mut stream = match store.iter_next() { Some(s) => s, None => { break; } }; let ghost s0 = stream; let r = self.recv_stream_window_update(inc, buffer, &mut stream, counts, task); proof { assert(r.is_ok() && !(s0.state.send_closed() && s0.buffered_send_data == 0) ==> stream.send_flow.w() == s0.send_flow.w() + inc); } match r { Ok(()) => { store.put_back_any(stream); }, Err(e) => { store.put_back_any(stream); return Err(Error::GoAway(e, Initiator::Library)); } } }
    //@ret r
    //@spec     requires
    //@spec         old(self).init_window_sz <= 0x7fff_ffff,
    //@spec         settings.initial_window_size is Some ==> settings.initial_window_size->Some_0 <= 0x7fff_ffff,   // Settings::load
    //@spec         old(self).prioritize.pool_inv(*old(store), 0),
    //@spec     ensures
    //@spec         // C14: what the peer's SETTINGS say governs what is sent from now on
    //@spec         settings.initial_window_size is Some ==> final(self).init_window_sz == settings.initial_window_size->Some_0,
    //@spec         settings.initial_window_size is None ==> final(self).init_window_sz == old(self).init_window_sz,
    //@spec         r.is_ok() && settings.enable_push is Some ==> final(self).is_push_enabled == settings.enable_push->Some_0,
    //@spec         // C02/C16: the connection window is untouched; on a decrease all capacity is conserved (what streams lose is
    //@spec         // in the pool or re-assigned); every path hands its stream back
    //@spec         final(self).prioritize.flow.w() == old(self).prioritize.flow.w(),
    //@spec         r.is_ok() ==> final(store).held() == old(store).held(),
    //@spec         (r.is_ok() && settings.initial_window_size is Some && settings.initial_window_size->Some_0 <= old(self).init_window_sz) ==>
    //@spec             final(self).prioritize.flow.a() + final(store).sum() == old(self).prioritize.flow.a() + old(store).sum(),
    //@end
}

proof fn vacuity_probe_send()
    ensures false,
{
}

} // verus!
