// @unit id=v_encoder_int props=C10,C08 tier=quick
// Verus contracts on the REAL bodies of src/hpack/encoder.rs `encode_int_one_byte`, `encode_int`, `encode_str`
// (extracted on every run) against RFC 7541 §5.1 (integer representation, the pseudocode of the RFC as a spec function)
// and §5.2 (string literal = H bit + length as a 7-bit-prefix integer + the octets):
//   * encode_int appends exactly the RFC encoding, for EVERY usize value and every prefix size h2 uses (4..=7);
//   * encode_str appends  int(len(huffman(val)), prefix 7, H=1) ++ huffman(val)  for ANY length — in particular at the
//     boundary 127, where the length no longer fits the prefix, and across the in-place shift of the octets that makes
//     room for a multi-octet length; an empty string is the single octet 0.
// So a conforming decoder reads back the length the encoder meant (decode_int ∘ encode_int = id is the Kani unit
// hpack_enc_encode_int_roundtrip; here it is equality with the RFC's own definition).
//
// Modelled by hand (ASSUMED): `BytesMut` / `B: BufMut` as a byte sequence with put_u8 / len / index read and write;
// `huffman::encode(val, dst)` appends the uninterpreted sequence `huff(val)` (its own contract: Kani units
// hpack_huff_*).  Listed substitutions: IndexMut/Index on BytesMut (`dst[i] = x` => `dst.set(i, x)`, `dst[i]` read =>
// `dst.get(i)`), the block that runs encode_int into the 8-octet placeholder array through `&mut &mut [u8]`
// (=> `encode_int_into(huff_len, 7, 0x80, &mut buf)`, a wrapper verified here against the same spec), and
// `dst.put_slice(&buf[1..head_len])` => `dst.put_array_range(&buf, 1, head_len)`.
use vstd::prelude::*;

verus! {

global size_of usize == 8;

pub open spec fn pow2(n: int) -> int
    decreases n,
{
    if n <= 0 { 1 } else { 2 * pow2(n - 1) }
}

/// RFC 7541 §5.1: "while I >= 128: encode (I % 128 + 128) on 8 bits; I = I / 128;  encode I on 8 bits"
pub open spec fn varint(v: int) -> Seq<u8>
    decreases v,
{
    if v < 128 { seq![v as u8] } else { seq![(v % 128 + 128) as u8] + varint(v / 128) }
}

/// RFC 7541 §5.1: "if I < 2^N - 1, encode I on N bits; else encode (2^N - 1) on N bits; I = I - (2^N - 1); ..."
/// (`first` carries the representation's pattern bits above the prefix)
pub open spec fn int_enc(value: int, prefix_bits: int, first: u8) -> Seq<u8> {
    let low = pow2(prefix_bits) - 1;
    if value < low { seq![(first as int + value) as u8] } else { seq![(first as int + low) as u8] + varint(value - low) }
}

/// BytesMut / any BufMut the encoder writes into.
pub struct Bm { pub v: Ghost<Seq<u8>> }

impl Bm {
    pub open spec fn view(&self) -> Seq<u8> { self.v@ }

    #[verifier::external_body]
    pub fn len(&self) -> (r: usize) ensures r == self@.len() { unimplemented!() }

    #[verifier::external_body]
    pub fn put_u8(&mut self, b: u8) ensures final(self)@ == old(self)@.push(b) { unimplemented!() }

    /// `self[i]` (Index; panics when out of range)
    #[verifier::external_body]
    pub fn get(&self, i: usize) -> (r: u8) requires i < self@.len() ensures r == self@[i as int] { unimplemented!() }

    /// `self[i] = b` (IndexMut; panics when out of range)
    #[verifier::external_body]
    pub fn set(&mut self, i: usize, b: u8) requires i < old(self)@.len() ensures final(self)@ == old(self)@.update(i as int, b) { unimplemented!() }

    /// `self.put_slice(&a[from..to])`
    #[verifier::external_body]
    pub fn put_array_range(&mut self, a: &[u8; 8], from: usize, to: usize)
        requires from <= to <= 8,
        ensures final(self)@ == old(self)@ + a@.subrange(from as int, to as int),
    { unimplemented!() }
}

pub uninterp spec fn huff(val: Seq<u8>) -> Seq<u8>;

pub mod huffman {
    use super::*;
    #[verifier::external_body]
    pub fn encode(src: &[u8], dst: &mut Bm)
        ensures final(dst)@ == old(dst)@ + huff(src@),
    { unimplemented!() }
}

pub fn position(buf: &Bm) -> (r: usize) ensures r == buf@.len() { buf.len() }

pub proof fn lemma_pow2_small()
    ensures pow2(4) == 16, pow2(5) == 32, pow2(6) == 64, pow2(7) == 128,
{
    reveal_with_fuel(pow2, 9);
}

//@extract src/hpack/encoder.rs encode_int_one_byte
//@before value < (1 << prefix_bits) - 1=>proof { lemma_pow2_small(); assert(1usize << 4usize == 16usize) by (bit_vector); assert(1usize << 5usize == 32usize) by (bit_vector); assert(1usize << 6usize == 64usize) by (bit_vector); assert(1usize << 7usize == 128usize) by (bit_vector); }
//@ret r
//@spec     requires 4 <= prefix_bits <= 7,     // the prefix sizes of RFC 7541 §6 that h2 uses
//@spec     ensures r == (value < pow2(prefix_bits as int) - 1),
//@end

//@extract src/hpack/encoder.rs encode_int
//@subst encode_int<B: BufMut>(=>encode_int(
//@subst dst: &mut B,=>dst: &mut Bm,
//@before if encode_int_one_byte(value, prefix_bits)=>let ghost val0 = value as int; proof { lemma_pow2_small(); }
//@before let low = (1 << prefix_bits) - 1;=>proof { lemma_pow2_small(); assert(1usize << 4usize == 16usize) by (bit_vector); assert(1usize << 5usize == 32usize) by (bit_vector); assert(1usize << 6usize == 64usize) by (bit_vector); assert(1usize << 7usize == 128usize) by (bit_vector); }
//@after dst.put_u8(first_byte | value as u8);=>proof { let v = value; let f = first_byte; assert(v < 128 && (f & 0x7f) == 0 ==> (f | (v as u8)) as int == f as int + v as int) by (bit_vector); assert(v < 128 && f == 0x20 && v < 31 ==> (f | (v as u8)) as int == f as int + v as int) by (bit_vector); assert(v < 64 && f == 0x40 ==> (f | (v as u8)) as int == f as int + v as int) by (bit_vector); assert(v < 16 && (f & 0x0f) == 0 ==> (f | (v as u8)) as int == f as int + v as int) by (bit_vector); assert(dst@ =~= old(dst)@ + int_enc(val0, prefix_bits as int, first_byte)); }
//@after dst.put_u8(first_byte | low as u8);=>proof { let l = low; let f = first_byte; assert(l < 128 && (f & 0x7f) == 0 ==> (f | (l as u8)) as int == f as int + l as int) by (bit_vector); assert(l == 31 && f == 0x20 ==> (f | (l as u8)) as int == f as int + l as int) by (bit_vector); assert(l == 63 && f == 0x40 ==> (f | (l as u8)) as int == f as int + l as int) by (bit_vector); assert(l == 15 && (f & 0x0f) == 0 ==> (f | (l as u8)) as int == f as int + l as int) by (bit_vector); }
//@before while value >= 128=>let ghost v0 = value as int; let ghost d1 = dst@; proof { assert(d1 + varint(v0) =~= d1 + varint(value as int)); }
//@after dst.put_u8(0b1000_0000 | value as u8);=>proof { let v = value; assert(v >= 128 ==> (0x80u8 | (v as u8)) as int == (v % 128 + 128) as int) by (bit_vector); assert(v >> 7usize == v / 128) by (bit_vector); }
//@after dst.put_u8(value as u8);=>proof { let v = value; assert(v < 128 ==> (v as u8) as int == v as int) by (bit_vector); assert(varint(value as int) =~= seq![value as u8]); assert(dst@ =~= d1 + varint(v0)); assert(d1 =~= old(dst)@.push((first_byte as int + low as int) as u8)); assert(dst@ =~= old(dst)@ + int_enc(val0, prefix_bits as int, first_byte)); }
//@spec     requires
//@spec         4 <= prefix_bits <= 7,
//@spec         // the pattern bits of `first_byte` lie above the prefix (RFC 7541 §6: 1xxxxxxx, 01xxxxxx, 001xxxxx, 0000xxxx, 0001xxxx)
//@spec         (prefix_bits == 7 && first_byte & 0x7f == 0) || (prefix_bits == 6 && first_byte == 0x40) || (prefix_bits == 5 && first_byte == 0x20) || (prefix_bits == 4 && first_byte & 0x0f == 0),
//@spec     ensures final(dst)@ == old(dst)@ + int_enc(value as int, prefix_bits as int, first_byte),
//@loop 0     invariant
//@loop 0         d1 + varint(v0) =~= dst@ + varint(value as int),
//@loop 0     decreases value,
//@end

/// The block of encode_str that runs encode_int into the 8-octet placeholder through `&mut &mut [u8]`:
///     let mut head_dst = &mut buf[..]; encode_int(huff_len, 7, 0x80, &mut head_dst); PLACEHOLDER_LEN - head_dst.remaining_mut()
/// i.e. the first `r` octets of `buf` are the encoding and r is its length.  `&mut [u8]: BufMut` panics when it is full,
/// hence the precondition that the encoding fits 8 octets (value - 127 < 2^49).  ASSUMED wrapper contract (the same
/// generic encode_int body as above, instantiated with a slice).
#[verifier::external_body]
pub fn encode_int_into(value: usize, prefix_bits: usize, first_byte: u8, buf: &mut [u8; 8]) -> (r: usize)
    requires int_enc(value as int, prefix_bits as int, first_byte).len() <= 8,
    ensures
        r == int_enc(value as int, prefix_bits as int, first_byte).len(), 1 <= r <= 8,
        final(buf)@.subrange(0, r as int) == int_enc(value as int, prefix_bits as int, first_byte),
{ unimplemented!() }

pub proof fn lemma_int_enc_len(value: int)
    requires value >= 0,
    ensures int_enc(value, 7, 0x80).len() >= 1, value >= 127 ==> int_enc(value, 7, 0x80).len() >= 2,
{
    lemma_pow2_small();
    if value >= 127 {
        lemma_varint_len(value - 127);
    }
}

pub proof fn lemma_varint_len(v: int)
    requires v >= 0,
    ensures varint(v).len() >= 1,
    decreases v,
{
    if v >= 128 { lemma_varint_len(v / 128); }
}

//@extract src/hpack/encoder.rs encode_str
//@subst dst: &mut BytesMut=>dst: &mut Bm
//@subst dst[idx] = 0x80 | huff_len as u8;=>proof { lemma_pow2_small(); let h = huff_len; assert(h < 127 ==> (0x80u8 | (h as u8)) as int == 0x80 + h as int) by (bit_vector); } dst.set(idx, 0x80 | huff_len as u8);
//@subst_re let head_len = \{\s*let mut head_dst = &mut buf\[\.\.\];\s*encode_int\(huff_len, 7, 0x80, &mut head_dst\);\s*PLACEHOLDER_LEN - head_dst\.remaining_mut\(\)\s*\};=>proof { lemma_int_enc_len(huff_len as int); } let head_len = encode_int_into(huff_len, 7, 0x80, &mut buf);
//@subst dst.put_slice(&buf[1..head_len]);=>dst.put_array_range(&buf, 1, head_len);
//@subst dst[dst_i] = dst[src_i];=>let b = dst.get(src_i); dst.set(dst_i, b);
//@subst dst[idx + i] = buf[i];=>dst.set(idx + i, buf[i]);
//@after let huff_len = position(dst) - (idx + 1);=>let ghost d0 = old(dst)@; let ghost hs = huff(val@); proof { assert(dst@ =~= d0.push(0u8) + hs); assert(huff_len == hs.len()); }
//@spec     requires
//@spec         old(dst)@.len() + huff(val@).len() + 16 <= usize::MAX,          // the buffer fits memory
//@spec         int_enc(huff(val@).len() as int, 7, 0x80).len() <= 8,            // PLACEHOLDER_LEN: lengths below 127 + 2^49
//@spec     ensures
//@spec         val@.len() == 0 ==> final(dst)@ == old(dst)@.push(0u8),
//@spec         val@.len() > 0 ==> final(dst)@ == old(dst)@ + int_enc(huff(val@).len() as int, 7, 0x80) + huff(val@),
//@loop 0     invariant
//@loop 0         idx == d0.len() && huff_len == hs.len() && 2 <= head_len <= 8 && dst@.len() == idx + head_len + huff_len,
//@loop 0         idx + head_len + huff_len + 8 <= usize::MAX,
//@loop 0         dst@.subrange(0, idx as int) =~= d0,
//@loop 0         forall|j: int| 0 <= j < huff_len - i ==> dst@[idx + 1 + j] == hs[j],
//@loop 0         forall|j: int| huff_len - i <= j < huff_len ==> dst@[idx + head_len + j] == hs[j],
//@loop 1     invariant
//@loop 1         idx == d0.len() && huff_len == hs.len() && 2 <= head_len <= 8 && dst@.len() == idx + head_len + huff_len,
//@loop 1         idx + head_len + huff_len + 8 <= usize::MAX,
//@loop 1         dst@.subrange(0, idx as int) =~= d0,
//@loop 1         forall|j: int| 0 <= j < i ==> dst@[idx + j] == buf@[j],
//@loop 1         forall|j: int| 0 <= j < huff_len ==> dst@[idx + head_len + j] == hs[j],
//@end

proof fn vacuity_probe_encoder_int()
    ensures false,
{
}

} // verus!
