// @unit id=v_decoder_table props=C11,C08,C18 tier=quick
// Verus contracts (unbounded: loop invariants over a table of ANY number of entries) on the real bodies of the
// HPACK decoder's dynamic table, src/hpack/decoder.rs `impl Table`, extracted on every run.
//   RFC 7541 4.1-4.4: size == sum of entry sizes <= max_size after every operation; eviction drops the OLDEST
//   entries (the back); an entry larger than the table empties it; index 0 and indices beyond
//   static+dynamic are errors.
#![feature(allocator_api)]
use vstd::prelude::*;
use std::collections::VecDeque;

verus! {

// ---- reduced / opaque views (R4/R5).  `Header` is opaque: only its size matters to the table.
pub struct Header {
    pub sz: usize,
    pub tag: u64,
}

impl Header {
    pub open spec fn hlen(self) -> nat {
        self.sz as nat
    }

    // hpack::Header::len() = name.len() + value.len() + 32 in /repo (src/hpack/header.rs); here its value is
    // the abstract size of the entry.  ASSUMED: it is a pure function of the entry.
    #[verifier::external_body]
    pub fn len(&self) -> (r: usize)
        ensures r as nat == self.hlen(),
    {
        self.sz
    }
}

impl Clone for Header {
    #[verifier::external_body]
    fn clone(&self) -> (r: Header)
        ensures r == *self,
    {
        Header { sz: self.sz, tag: self.tag }
    }
}

pub enum DecoderError {
    InvalidTableIndex,
}

pub uninterp spec fn static_entry(index: usize) -> Header;

#[verifier::external_body]
pub fn get_static(index: usize) -> (r: Header)
    requires 1 <= index <= 61,
    ensures r == static_entry(index),
{
    Header { sz: 0, tag: index as u64 }
}

pub assume_specification<T, A: std::alloc::Allocator> [VecDeque::<T, A>::back] (v: &VecDeque<T, A>) -> (r: Option<&T>)
    ensures
        match r {
            Some(x) => v@.len() > 0 && *x == v@.last(),
            None => v@.len() == 0,
        },
;

pub assume_specification<T, A: std::alloc::Allocator> [VecDeque::<T, A>::get] (v: &VecDeque<T, A>, i: usize) -> (r: Option<&T>)
    ensures
        match r {
            Some(x) => i < v@.len() && *x == v@[i as int],
            None => i >= v@.len(),
        },
;

pub struct Table {
    pub entries: VecDeque<Header>,
    pub size: usize,
    pub max_size: usize,
}

// ---- specification side
pub open spec fn total(s: Seq<Header>) -> nat
    decreases s.len(),
{
    if s.len() == 0 {
        0
    } else {
        total(s.drop_last()) + s.last().hlen()
    }
}

pub proof fn lemma_total_push_front(x: Header, s: Seq<Header>)
    ensures total(seq![x] + s) == x.hlen() + total(s),
    decreases s.len(),
{
    if s.len() == 0 {
        assert((seq![x] + s) =~= seq![x]);
        assert(seq![x].drop_last() =~= Seq::<Header>::empty());
        assert(total(seq![x].drop_last()) == 0);
    } else {
        lemma_total_push_front(x, s.drop_last());
        assert((seq![x] + s).drop_last() =~= seq![x] + s.drop_last());
        assert((seq![x] + s).last() == s.last());
    }
}

pub proof fn lemma_total_zero_is_possible_only_if_sum_zero(s: Seq<Header>)
    ensures s.len() == 0 ==> total(s) == 0,
{
}

impl Table {
    pub open spec fn view(self) -> Seq<Header> {
        self.entries@
    }

    /// size is the sum of the entry sizes (RFC 7541 4.1)
    pub open spec fn accounted(self) -> bool {
        self.size as nat == total(self.entries@)
    }

    /// ... and fits the limit (RFC 7541 4.2)
    pub open spec fn wf(self) -> bool {
        self.accounted() && self.size <= self.max_size
    }

    //@extract src/hpack/decoder.rs Table::size
    //@ret r
    //@spec     ensures r == self.size,
    //@end

    //@extract src/hpack/decoder.rs Table::get
    //@ret r
    //@spec     ensures
    //@spec         index == 0 ==> r is Err,
    //@spec         1 <= index <= 61 ==> r is Ok && r->Ok_0 == static_entry(index),
    //@spec         index >= 62 && index - 62 < self.view().len() ==> r is Ok && r->Ok_0 == self.view()[index - 62],
    //@spec         index >= 62 && index - 62 >= self.view().len() ==> r is Err,
    //@end

    //@extract src/hpack/decoder.rs Table::reserve
    //@spec     requires
    //@spec         old(self).accounted(),
    //@spec         old(self).size + size <= usize::MAX,
    //@spec     ensures
    //@spec         final(self).accounted(),
    //@spec         final(self).max_size == old(self).max_size,
    //@spec         final(self).size <= old(self).size,
    //@spec         // enough room now, or nothing left to evict
    //@spec         final(self).size + size <= final(self).max_size || final(self).view().len() == 0,
    //@spec         // eviction removes from the back only (oldest first): what remains is a prefix
    //@spec         final(self).view().len() <= old(self).view().len(),
    //@spec         final(self).view() =~= old(self).view().subrange(0, final(self).view().len() as int),
    //@loop 0     invariant
    //@loop 0         self.accounted(),
    //@loop 0         self.max_size == old(self).max_size,
    //@loop 0         self.size <= old(self).size,
    //@loop 0         self.size + size <= usize::MAX,
    //@loop 0         self.view().len() <= old(self).view().len(),
    //@loop 0         self.view() =~= old(self).view().subrange(0, self.view().len() as int),
    //@loop 0     decreases self.view().len(),
    //@end

    //@extract src/hpack/decoder.rs Table::insert
    //@spec     requires
    //@spec         old(self).wf(),
    //@spec         old(self).max_size + entry.hlen() <= usize::MAX,
    //@spec     ensures
    //@spec         final(self).wf(),
    //@spec         final(self).max_size == old(self).max_size,
    //@spec         // an entry larger than the whole table empties it and is not stored (RFC 7541 4.4)
    //@spec         entry.hlen() > old(self).max_size ==> final(self).view().len() == 0,
    //@spec         // otherwise it becomes entry 0 (index 62) and the survivors keep their order behind it
    //@spec         entry.hlen() <= old(self).max_size ==> final(self).view().len() >= 1 && final(self).view()[0] == entry
    //@spec             && final(self).view().subrange(1, final(self).view().len() as int) =~= old(self).view().subrange(0, final(self).view().len() - 1),
    //@after self.reserve(len);=>proof { lemma_total_push_front(entry, self.entries@); if self.entries@.len() == 0 { assert(total(self.entries@) == 0); } }
    //@end

    //@extract src/hpack/decoder.rs Table::consolidate
    //@subst panic!("Size of table != 0, but no headers left!");=>assert(false); return;
    //@spec     requires old(self).accounted(),
    //@spec     ensures
    //@spec         final(self).wf(),
    //@spec         final(self).max_size == old(self).max_size,
    //@spec         final(self).view().len() <= old(self).view().len(),
    //@spec         final(self).view() =~= old(self).view().subrange(0, final(self).view().len() as int),
    //@spec         old(self).size <= old(self).max_size ==> final(self).view() =~= old(self).view(),
    //@loop 0     invariant
    //@loop 0         self.accounted(),
    //@loop 0         self.max_size == old(self).max_size,
    //@loop 0         self.view().len() <= old(self).view().len(),
    //@loop 0         self.view() =~= old(self).view().subrange(0, self.view().len() as int),
    //@loop 0         old(self).size <= old(self).max_size ==> self.size == old(self).size && self.view() =~= old(self).view(),
    //@loop 0     decreases self.view().len(),
    //@end

    //@extract src/hpack/decoder.rs Table::set_max_size
    //@spec     requires old(self).accounted(),
    //@spec     ensures
    //@spec         final(self).wf(),
    //@spec         final(self).max_size == size,
    //@spec         final(self).view() =~= old(self).view().subrange(0, final(self).view().len() as int),
    //@end
}

proof fn vacuity_probe_decoder_table()
    ensures false,
{
}

} // verus!
