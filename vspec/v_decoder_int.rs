// @unit id=v_decoder_int props=C11,C10,C08 tier=quick
// Verus contract on the REAL body of src/hpack/decoder.rs `decode_int` (extracted on every run): HPACK integers with an
// N-bit prefix, RFC 7541 5.1, for EVERY input and every prefix size.
//
// C11:  the value is  I = prefix bits, and if those are all ones  I + sum over the continuation octets b_i of
//       (b_i & 127) * 128^i  up to and including the first octet without the continuation bit — equal to the spec function
//       `int_dec`; the octets consumed are exactly those; the input ending before that octet is NeedMore(IntegerUnderflow);
//       a fifth octet that still has the continuation bit set is IntegerOverflow (h2's bound: the value then fits 32 bits);
//       a prefix size outside 1..=8 is InvalidIntegerPrefix.  This is the `int_parse` that unit v_decoder_strings leaves
//       uninterpreted (there: "consumes at least one and at most the available octets" — proved here).
// C08:  `ret +=`, `<< shift`, `shift += 7` cannot overflow; `get_u8` is never called on an empty buffer.
//
// Modelled by hand (ASSUMED): `B: Buf` as (bytes, position) with `has_remaining` / `get_u8`.  Listed substitution: the
// generic signature instantiated with the model; `(1u8 << prefix_size).wrapping_sub(1)` => `low_mask(prefix_size)` (its
// value is proved by bit-vector reasoning in the model function).
use vstd::prelude::*;

verus! {

global size_of usize == 8;

//@struct src/hpack/decoder.rs DecoderError
//@struct src/hpack/decoder.rs NeedMore
impl Copy for DecoderError {}
impl Clone for DecoderError { fn clone(&self) -> Self { *self } }
impl Copy for NeedMore {}
impl Clone for NeedMore { fn clone(&self) -> Self { *self } }

pub struct Cur { pub bytes: Ghost<Seq<u8>>, pub pos: Ghost<int> }
impl Cur {
    pub open spec fn wf(self) -> bool { 0 <= self.pos@ <= self.bytes@.len() }
    pub open spec fn rest(self) -> Seq<u8> { self.bytes@.skip(self.pos@) }
    #[verifier::external_body]
    pub fn has_remaining(&self) -> (r: bool) requires self.wf(), ensures r == (self.pos@ < self.bytes@.len()) { unimplemented!() }
    /// Buf::get_u8: panics on an empty buffer
    #[verifier::external_body]
    pub fn get_u8(&mut self) -> (r: u8)
        requires old(self).wf(), old(self).pos@ < old(self).bytes@.len(),
        ensures r == old(self).bytes@[old(self).pos@], final(self).pos@ == old(self).pos@ + 1, final(self).bytes@ == old(self).bytes@,
    { unimplemented!() }
}

pub open spec fn pow2(n: nat) -> nat decreases n { if n == 0 { 1 } else { 2 * pow2((n - 1) as nat) } }
pub open spec fn pow128(n: nat) -> nat decreases n { if n == 0 { 1 } else { 128 * pow128((n - 1) as nat) } }

/// `(1u8 << prefix_size).wrapping_sub(1)` for 1 <= prefix_size < 8: the low prefix_size bits
pub fn low_mask(prefix_size: u8) -> (r: u8)
    requires 1 <= prefix_size < 8,
    ensures r as nat == pow2(prefix_size as nat) - 1,
{
    let r = (1u8 << prefix_size).wrapping_sub(1);
    proof {
        reveal_with_fuel(pow2, 9);
        assert(prefix_size == 1 ==> (1u8 << 1u8) == 2u8) by (bit_vector);
        assert(prefix_size == 2 ==> (1u8 << prefix_size) == 4u8) by (bit_vector);
        assert(prefix_size == 3 ==> (1u8 << prefix_size) == 8u8) by (bit_vector);
        assert(prefix_size == 4 ==> (1u8 << prefix_size) == 16u8) by (bit_vector);
        assert(prefix_size == 5 ==> (1u8 << prefix_size) == 32u8) by (bit_vector);
        assert(prefix_size == 6 ==> (1u8 << prefix_size) == 64u8) by (bit_vector);
        assert(prefix_size == 7 ==> (1u8 << prefix_size) == 128u8) by (bit_vector);
    }
    r
}

pub enum IntRes { Value(nat, int), Underflow, Overflow }

/// RFC 7541 5.1, continuation octets: s[i..], i-th continuation octet (0-based `j`), accumulated value
pub open spec fn cont_dec(s: Seq<u8>, i: int, j: nat, acc: nat) -> IntRes
    decreases s.len() - i,
{
    if i < 0 || i >= s.len() { IntRes::Underflow }
    else {
        let b = s[i];
        let acc2 = acc + ((b % 128) as nat) * pow128(j);
        if b < 128 { IntRes::Value(acc2, i + 1) }
        else if j == 3 { IntRes::Overflow }          // the 5th octet of the integer still continues
        else { cont_dec(s, i + 1, j + 1, acc2) }
    }
}

/// RFC 7541 5.1: integer with an N-bit prefix at the front of s
pub open spec fn int_dec(s: Seq<u8>, prefix: nat) -> IntRes {
    if s.len() == 0 { IntRes::Underflow }
    else {
        let m = (pow2(prefix) - 1) as nat;
        let i = (s[0] as nat) % pow2(prefix);
        if i < m { IntRes::Value(i, 1) } else { cont_dec(s, 1, 0, i) }
    }
}

//@extract src/hpack/decoder.rs decode_int
//@attr #[verifier::exec_allows_no_decreases_clause]
//@subst fn decode_int<B: Buf>(buf: &mut B, prefix_size: u8) -> Result<usize, DecoderError>=>fn decode_int(buf: &mut Cur, prefix_size: u8) -> Result<usize, DecoderError>
//@subst (1u8 << prefix_size).wrapping_sub(1)=>low_mask(prefix_size)
//@before let mut ret = (buf.get_u8() & mask) as usize;=>let ghost rest = old(buf).rest(); let ghost p = prefix_size as nat; proof { reveal_with_fuel(pow2, 9); assert(rest[0] == old(buf).bytes@[old(buf).pos@]); assert(forall|x: u8| x & 0xFFu8 == x) by (bit_vector); assert(forall|x: u8| x & 1u8 == x % 2u8) by (bit_vector); assert(forall|x: u8| x & 3u8 == x % 4u8) by (bit_vector); assert(forall|x: u8| x & 7u8 == x % 8u8) by (bit_vector); assert(forall|x: u8| x & 15u8 == x % 16u8) by (bit_vector); assert(forall|x: u8| x & 31u8 == x % 32u8) by (bit_vector); assert(forall|x: u8| x & 63u8 == x % 64u8) by (bit_vector); assert(forall|x: u8| x & 127u8 == x % 128u8) by (bit_vector); assert(forall|x: u8| (x & 128u8 == 0u8) == (x < 128u8)) by (bit_vector); } let ghost b0 = rest[0];
//@after let mut ret = (buf.get_u8() & mask) as usize;=>proof { assert(pow2(1) == 2 && pow2(2) == 4 && pow2(3) == 8 && pow2(4) == 16 && pow2(5) == 32 && pow2(6) == 64 && pow2(7) == 128 && pow2(8) == 256); assert(mask as nat == pow2(p) - 1); assert(p == 1 || p == 2 || p == 3 || p == 4 || p == 5 || p == 6 || p == 7 || p == 8); assert(ret == (b0 & mask) as usize); assert(p == 1 ==> mask == 1u8 && (b0 & 1u8) == b0 % 2u8); assert(p == 2 ==> mask == 3u8 && (b0 & 3u8) == b0 % 4u8); assert(p == 3 ==> mask == 7u8 && (b0 & 7u8) == b0 % 8u8); assert(p == 4 ==> mask == 15u8 && (b0 & 15u8) == b0 % 16u8); assert(p == 5 ==> mask == 31u8 && (b0 & 31u8) == b0 % 32u8); assert(p == 6 ==> mask == 63u8 && (b0 & 63u8) == b0 % 64u8); assert(p == 7 ==> mask == 127u8 && (b0 & 127u8) == b0 % 128u8); assert(p == 8 ==> mask == 255u8 && (b0 & 0xFFu8) == b0); assert(p == 1 ==> (b0 as nat) % pow2(p) == (b0 as nat) % 2); assert(p == 2 ==> (b0 as nat) % pow2(p) == (b0 as nat) % 4); assert(p == 3 ==> (b0 as nat) % pow2(p) == (b0 as nat) % 8); assert(p == 4 ==> (b0 as nat) % pow2(p) == (b0 as nat) % 16); assert(p == 5 ==> (b0 as nat) % pow2(p) == (b0 as nat) % 32); assert(p == 6 ==> (b0 as nat) % pow2(p) == (b0 as nat) % 64); assert(p == 7 ==> (b0 as nat) % pow2(p) == (b0 as nat) % 128); assert(p == 8 ==> (b0 as nat) % pow2(p) == (b0 as nat) % 256); assert(ret as nat == (rest[0] as nat) % pow2(p)); }
//@before while buf.has_remaining() {=>let ghost mut j: nat = 0; proof { reveal_with_fuel(pow128, 6); }
//@after let b = buf.get_u8();=>proof { reveal_with_fuel(pow128, 6); assert(b == rest[1 + j as int]); let y = (b & 127u8) as usize; assert(y < 128); assert((y << 0u32) == y) by (bit_vector) requires y < 128; assert((y << 7u32) == y * 128) by (bit_vector) requires y < 128; assert((y << 14u32) == y * 16384) by (bit_vector) requires y < 128; assert((y << 21u32) == y * 2097152) by (bit_vector) requires y < 128; assert((y << shift) == y * pow128(j)); assert(pow128(0) == 1 && pow128(1) == 128 && pow128(2) == 16384 && pow128(3) == 2097152 && pow128(4) == 268435456); }
//@subst_re (shift \+= \d+;)=>\1 proof { j = j + 1; }
//@loop 0     invariant
//@loop 0         buf.wf() && buf.bytes@ == old(buf).bytes@ && buf.pos@ == old(buf).pos@ + 1 + j,
//@loop 0         rest == old(buf).rest() && old(buf).wf(),
//@loop 0         0 <= j <= 3 && bytes == 1 + j && shift == 7 * j,
//@loop 0         ret < 256 + pow128(j),
//@loop 0         1 <= prefix_size <= 8,
//@loop 0         int_dec(rest, prefix_size as nat) == cont_dec(rest, 1 + j as int, j, ret as nat),
//@loop 0         forall|x: u8| x & 127u8 == x % 128u8,
//@loop 0         forall|x: u8| (x & 128u8 == 0u8) == (x < 128u8),
//@ret r
//@spec     requires old(buf).wf(),
//@spec     ensures
//@spec         final(buf).wf() && final(buf).bytes@ == old(buf).bytes@,
//@spec         !(1 <= prefix_size <= 8) ==> r == Err::<usize, DecoderError>(DecoderError::InvalidIntegerPrefix),
//@spec         (1 <= prefix_size <= 8) ==> (match int_dec(old(buf).rest(), prefix_size as nat) {
//@spec             IntRes::Value(v, k) => r == Ok::<usize, DecoderError>(v as usize) && v < 0x1_0000_0000 && final(buf).pos@ == old(buf).pos@ + k && 1 <= k <= old(buf).rest().len(),
//@spec             IntRes::Underflow => r == Err::<usize, DecoderError>(DecoderError::NeedMore(NeedMore::IntegerUnderflow)),
//@spec             IntRes::Overflow => r == Err::<usize, DecoderError>(DecoderError::IntegerOverflow),
//@spec         }),
//@end

proof fn vacuity_probe_decoder_int()
    ensures false,
{
}

} // verus!
