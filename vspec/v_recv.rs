// @unit id=v_recv props=C03,C09,C13,C01,C04,C05,C06,C07,C08,C14,C15,C17,C18,C19 tier=quick rlimit=60
// Verus contracts on the real bodies of src/proto/streams/recv.rs, extracted on every run.
//   level (connection or stream) = (window, available, in_flight):  window = credit the peer still has,
//   available = window + released-but-unannounced, in_flight = handed out and not released.
//   I-recv-pool: available + in_flight == target (the configured size).
// Under contract here (each with its own comment): the window functions (recv_data on every exit, consume / release_*,
// set_target_connection_window, clear_recv_buffer, release_closed_capacity, apply_local_settings), the announcers
// (send_pending_refusal, send_connection_window_update, send_stream_window_updates, buffer_pending), the message functions
// (recv_headers against a decision list, recv_trailers, recv_push_promise, State::recv_open / reserve_remote), the teardown
// functions (recv_eof, handle_error, recv_reset), the application-side polls (poll_response / poll_data / poll_trailers /
// poll_informational, OpaqueStreamRef::poll_data), the queue drains (clear_queues and its three loops,
// clear_expired_reset_streams), and from streams.rs Inner::recv_data.
use vstd::prelude::*;
use vstd::std_specs::cmp::*;
use std::cmp::{self, Ordering};
use std::mem;

verus! {

//@include flow.inc

//@include frames.inc

//@include state.inc

//@include stream_send.inc

pub struct QueueWindowUpdate { pub ghost_len: usize }
impl QueueWindowUpdate {
    #[verifier::external_body]
    pub fn push(&mut self, stream: &mut Stream) -> (r: bool)
        ensures *final(stream) == (Stream { is_pending_window_update: true, ..*old(stream) }),
    { unimplemented!() }
}

impl QueueWindowUpdate {
    /// store::Queue<NextWindowUpdate>::pop: the head of the list (owned, un-flagged) or None iff the list is empty.
    /// `ghost_len` is the abstract length of the intrusive list (ASSUMED FIFO list, Kani obligation store_queue_*).
    #[verifier::external_body]
    pub fn pop(&mut self, store: &mut RStore) -> (r: Option<Stream>)
        ensures
            match r {
                Some(s) => !s.is_pending_window_update && old(self).ghost_len > 0 && final(self).ghost_len == old(self).ghost_len - 1
                    && wf_stream_level(s.recv_flow, s.in_flight_recv_data as int) && final(store).held() == old(store).held() + 1,
                None => old(self).ghost_len == 0 && *final(self) == *old(self) && final(store).held() == old(store).held(),
            },
    { unimplemented!() }
}

/// store::Queue<NextAccept>: streams a server application has not accepted yet
pub struct QueueAccept { pub ghost_len: usize }
impl QueueAccept {
    #[verifier::external_body]
    pub fn push(&mut self, stream: &mut Stream) -> (r: bool)
        ensures *final(stream) == (Stream { is_pending_accept: true, ..*old(stream) }),
            final(self).ghost_len == old(self).ghost_len + (if old(stream).is_pending_accept { 0int } else { 1int }),
    { unimplemented!() }
}

impl QueueAccept {
    #[verifier::external_body]
    pub fn pop(&mut self, store: &mut RStore) -> (r: Option<Stream>)
        ensures match r {
            Some(s) => old(self).ghost_len > 0 && final(self).ghost_len == old(self).ghost_len - 1 && final(store).held() == old(store).held() + 1,
            None => old(self).ghost_len == 0 && final(self).ghost_len == 0 && final(store).held() == old(store).held(),
        },
    { unimplemented!() }
}
/// std::time::Instant / Duration as numbers (nanoseconds); `now()` is unconstrained
#[derive(Clone, Copy)]
pub struct Instant { pub t: u64 }
#[derive(Clone, Copy)]
pub struct Duration { pub d: u64 }
impl Instant {
    #[verifier::external_body]
    pub fn now() -> (r: Instant) { unimplemented!() }
    /// Instant::saturating_duration_since
    pub fn saturating_duration_since(&self, earlier: u64) -> (r: Duration)
        ensures r.d == (if self.t >= earlier { (self.t - earlier) as u64 } else { 0u64 }),
    { Duration { d: if self.t >= earlier { self.t - earlier } else { 0 } } }
}
impl Duration {
    /// `a > b` on Durations
    pub fn gt(&self, other: &Duration) -> (r: bool) ensures r == (self.d > other.d) { self.d > other.d }
}

/// store::Queue<NextResetExpire>: locally reset streams waiting for their grace period to end
pub struct QueueResetExpire { pub ghost_len: usize }
impl QueueResetExpire {
    #[verifier::external_body]
    pub fn is_empty(&self) -> (r: bool) ensures r == (self.ghost_len == 0) { unimplemented!() }
    /// Queue::pop_if (its real body: unit v_store_queue): the front is popped iff the predicate holds for it.  A queued
    /// stream carries its flag — for this queue: `reset_at` is Some (NextResetExpire::is_queued)
    #[verifier::external_body]
    pub fn pop_if<F: Fn(&Stream) -> bool>(&mut self, store: &mut RStore, f: F) -> (r: Option<Stream>)
        requires forall|s: &Stream| s.reset_at is Some ==> #[trigger] f.requires((s,)),
        ensures match r {
            Some(s) => old(self).ghost_len > 0 && final(self).ghost_len == old(self).ghost_len - 1 && final(store).held() == old(store).held() + 1
                && (exists|s0: &Stream| s0.reset_at is Some && #[trigger] f.ensures((s0,), true)),
            None => final(self).ghost_len == old(self).ghost_len && final(store).held() == old(store).held(),
        },
    { unimplemented!() }
    #[verifier::external_body]
    pub fn pop(&mut self, store: &mut RStore) -> (r: Option<Stream>)
        ensures match r {
            Some(s) => old(self).ghost_len > 0 && final(self).ghost_len == old(self).ghost_len - 1 && final(store).held() == old(store).held() + 1,
            None => old(self).ghost_len == 0 && final(self).ghost_len == 0 && final(store).held() == old(store).held(),
        },
    { unimplemented!() }
}

/// What the receive side hands to the codec, reduced: WINDOW_UPDATE and RST_STREAM frames (frame::WindowUpdate::new /
/// frame::Reset::new + `.into()` in /repo — field-for-field constructors, see kani/frame__window_update.rs, frame__reset.rs).
#[derive(PartialEq, Eq, Structural, Clone, Copy, Debug)]
pub enum WFrame { WindowUpdate { stream_id: StreamId, incr: u32 }, Reset { stream_id: StreamId, reason: Reason } }

pub mod wframe {
    use super::*;
    pub struct WindowUpdate;
    impl WindowUpdate {
        pub fn new(stream_id: StreamId, incr: u32) -> (r: WFrame)
            ensures r == (WFrame::WindowUpdate { stream_id, incr }),
        { WFrame::WindowUpdate { stream_id, incr } }
    }
    pub struct Reset;
    impl Reset {
        pub fn new(stream_id: StreamId, reason: Reason) -> (r: WFrame)
            ensures r == (WFrame::Reset { stream_id, reason }),
        { WFrame::Reset { stream_id, reason } }
    }
}

/// Codec<T, Prioritized<B>>, write side, as the streams layer sees it: `has_send_capacity()` reports the encoder's
/// state (`room`); `buffer()` REQUIRES it — Encoder::buffer starts with `assert!(self.has_capacity())`, so a caller
/// that buffers without having checked would panic (C08) — and appends the frame to the wire order (`sent`);
/// whether there is room afterwards is unknown.  ASSUMED model of codec/mod.rs + codec/framed_write.rs (their own
/// contracts: kani/codec__framed_write.rs, kani/proto__*.rs).
pub struct WCodec { pub sent: Ghost<Seq<WFrame>>, pub room: bool }
impl WCodec {
    #[verifier::external_body]
    pub fn has_send_capacity(&mut self) -> (r: bool)
        ensures r == old(self).room && *final(self) == *old(self),
    { unimplemented!() }

    #[verifier::external_body]
    pub fn buffer(&mut self, item: WFrame) -> (r: Result<(), UserError>)
        requires old(self).room,
        ensures r is Ok && final(self).sent@ == old(self).sent@.push(item),
    { unimplemented!() }
}

#[derive(PartialEq, Eq, Structural, Clone, Copy, Debug)]
pub enum BufferStatus { Complete, CodecFull }

pub struct IoError;

/// I-owed (owed-work-is-queued, C03/C06): a stream that is receiving and whose released-but-unannounced credit reached
/// the WINDOW_UPDATE threshold is ON the pending_window_updates queue — otherwise nobody will ever announce it and the
/// peer stalls at a closed window.
pub open spec fn owed(s: Stream) -> bool {
    s.state.recv_streaming() && update_due(s.recv_flow) && !s.is_pending_window_update
}

#[derive(Clone, Copy, Debug)]
pub struct StreamIdOverflow;

pub mod settings_frame {
    pub struct Settings {
        pub initial_window_size: Option<u32>,
        pub enable_connect_protocol: Option<bool>,
    }
}
impl settings_frame::Settings {
    pub fn initial_window_size(&self) -> (r: Option<u32>) ensures r == self.initial_window_size { self.initial_window_size }
    pub fn is_extended_connect_protocol_enabled(&self) -> (r: Option<bool>) ensures r == self.enable_connect_protocol { self.enable_connect_protocol }
}

/// The store, for the receive side: `try_for_each` visits every stream once (ASSUMED, see prioritize.inc); the
/// visited stream is handed out owned and must be handed back.
pub struct RStore { pub out: Ghost<int> }
impl RStore {
    pub open spec fn held(self) -> int { self.out@ }

    #[verifier::external_body]
    pub fn iter_begin(&mut self)
        ensures final(self).held() == old(self).held(),
    { unimplemented!() }

    #[verifier::external_body]
    pub fn iter_next(&mut self, configured: Ghost<int>) -> (r: Option<Stream>)
        ensures
            match r {
                // I-recv-pool for every stored stream: available + in_flight == the configured stream window
                Some(s) => wf_stream_level(s.recv_flow, s.in_flight_recv_data as int) && s.recv_flow.a() + s.in_flight_recv_data == configured@
                    && final(self).held() == old(self).held() + 1,
                None => final(self).held() == old(self).held(),
            },
    { unimplemented!() }

    #[verifier::external_body]
    pub fn put_back(&mut self, stream: Stream)
        ensures final(self).held() == old(self).held() - 1,
    { unimplemented!() }

    /// Store::resolve(key) (owned model)
    #[verifier::external_body]
    pub fn resolve_key(&mut self, key: Key) -> (s: Stream)
        ensures s.key == key && s == old(self).spec_get(key) && final(self).held() == old(self).held() + 1,
    { unimplemented!() }

    pub uninterp spec fn spec_get(self, key: Key) -> Stream;

    /// a Ptr that goes out of scope
    #[verifier::external_body]
    pub fn put_back_any(&mut self, stream: Stream)
        ensures final(self).held() == old(self).held() - 1,
    { unimplemented!() }

    /// Store::find_mut: the stream with this id, if the store has one (owned model; I-recv-pool for the stored stream
    /// relative to the connection's in-flight total is ASSUMED here, it is the postcondition of every Recv function above)
    #[verifier::external_body]
    pub fn find_mut(&mut self, id: &StreamId, conn_in_flight: Ghost<int>) -> (r: Option<Stream>)
        ensures
            match r {
                Some(s) => s.id == *id && wf_stream_level(s.recv_flow, s.in_flight_recv_data as int)
                    && s.in_flight_recv_data <= conn_in_flight@ && s.in_flight_recv_data + conn_in_flight@ <= 0x7fff_ffff
                    && final(self).held() == old(self).held() + 1,
                None => final(self).held() == old(self).held(),
            },
    { unimplemented!() }
}

pub struct BudgetExhausted;

pub struct Counts {
    pub num_remote_reset_streams: usize,
    pub max_remote_reset_streams: usize,
    /// ghost: the arguments of every Counts::record_data_frame call so far (what the DATA-frame overhead budget was charged with)
    pub charged: Ghost<Seq<usize>>,
    /// ghost: the arguments of every Counts::release_data_frame call so far (what was credited back to the budget)
    pub released: Ghost<Seq<usize>>,
    /// ghost: number of streams admitted against the receive concurrency limit by Recv::recv_headers
    pub admitted: Ghost<int>,
    /// ghost: number of streams taken off a queue by the clear_* functions and handed to Counts::transition_after
    pub drained: Ghost<int>,
    pub tag: u8,
}
impl Counts {
    /// Counts::{peer, can_inc_num_recv_streams, inc_num_recv_streams} (real bodies: unit v_counts)
    pub uninterp spec fn is_server_spec(self) -> bool;
    pub uninterp spec fn recv_slot_free(self) -> bool;
    #[verifier::external_body]
    pub fn peer(&self) -> (r: PeerDyn) ensures (r matches PeerDyn::Server) == self.is_server_spec() { unimplemented!() }
    #[verifier::external_body]
    pub fn can_inc_num_recv_streams(&self) -> (r: bool) ensures r == self.recv_slot_free() { unimplemented!() }
    #[verifier::external_body]
    pub fn inc_num_recv_streams(&mut self, stream: &mut Stream)
        requires old(self).recv_slot_free(), !old(stream).is_counted,      // the two real assert!s
        ensures *final(stream) == (Stream { is_counted: true, ..*old(stream) }),
            final(self).charged@ == old(self).charged@ && final(self).released@ == old(self).released@ && final(self).is_server_spec() == old(self).is_server_spec()
            && final(self).admitted@ == old(self).admitted@ + 1,
    { unimplemented!() }

    /// Counts::record_data_frame (real body: Kani unit counts_data_frame_budget): logs what it is charged with.
    #[verifier::external_body]
    pub fn record_data_frame(&mut self, payload_len: usize) -> (r: Result<(), BudgetExhausted>)
        ensures *final(self) == (Counts { charged: Ghost(old(self).charged@.push(payload_len)), tag: final(self).tag, ..*old(self) }),
    { unimplemented!() }

    /// Counts::transition_after for a stream drained from a queue at the end of the connection (its first argument is the
    /// real `is_reset_counted`)
    #[verifier::external_body]
    pub fn transition_after_drained(&mut self, stream: Stream, is_reset_counted: bool, store: &mut RStore)
        ensures final(store).held() == old(store).held() - 1, *final(self) == (Counts { drained: Ghost(old(self).drained@ + 1), ..*old(self) }),
    { unimplemented!() }

    /// Counts::transition_after where the caller is not an announcer of credit (no I-owed obligation)
    #[verifier::external_body]
    pub fn transition_after_any(&mut self, stream: Stream, is_reset_counted: bool, store: &mut RStore)
        ensures final(store).held() == old(store).held() - 1, final(self).charged@ == old(self).charged@,
    { unimplemented!() }

    //@extract src/proto/streams/counts.rs Counts::max_remote_reset_streams
    //@ret r
    //@spec     ensures r == self.max_remote_reset_streams,
    //@end

    //@extract src/proto/streams/counts.rs Counts::can_inc_num_remote_reset_streams
    //@ret r
    //@spec     ensures r == (self.num_remote_reset_streams < self.max_remote_reset_streams),
    //@end

    //@extract src/proto/streams/counts.rs Counts::inc_num_remote_reset_streams
    //@spec     requires old(self).num_remote_reset_streams < old(self).max_remote_reset_streams,
    //@spec     ensures *final(self) == (Counts { num_remote_reset_streams: (old(self).num_remote_reset_streams + 1) as usize, ..*old(self) }),
    //@end

    /// Counts::transition_after consumes the Ptr: the stream goes back to the store (or is forgotten).  ASSUMED contract
    /// (real body: Kani harness counts_transition_after); the precondition is the C03 obligation I-owed.
    #[verifier::external_body]
    pub fn transition_after(&mut self, stream: Stream, is_reset_counted: bool, store: &mut RStore)
        requires !owed(stream),
        ensures final(store).held() == old(store).held() - 1,
    { unimplemented!() }

    /// Counts::release_data_frame (DATA-frame overhead budget): Kani harness counts_data_frame_budget
    #[verifier::external_body]
    pub fn release_data_frame(&mut self, payload_len: usize)
        ensures *final(self) == (Counts { released: Ghost(old(self).released@.push(payload_len)), tag: final(self).tag, ..*old(self) }),
    { unimplemented!() }
}

pub struct Recv {
    pub init_window_sz: WindowSize,
    pub flow: FlowControl,
    pub in_flight_data: WindowSize,
    pub next_stream_id: Result<StreamId, StreamIdOverflow>,
    pub last_processed_id: StreamId,
    pub max_stream_id: StreamId,
    pub pending_window_updates: QueueWindowUpdate,
    pub buffer: RecvBuffer,
    pub refused: Option<StreamId>,
    pub is_push_enabled: bool,
    pub is_extended_connect_protocol_enabled: bool,
    pub pending_accept: QueueAccept,
    pub pending_reset_expired: QueueResetExpire,
    pub reset_duration: Duration,
}

/// A received DATA frame, reduced: payload length and padding (frame::Data<Bytes> in /repo; `flow_controlled_len`
/// and `payload().len()` are verified by the frame__data.rs harnesses).
#[derive(Clone, Copy, Debug)]
pub struct RData { pub stream_id: StreamId, pub payload_len: usize, pub pad: Option<u8>, pub eos: bool }

#[derive(Clone, Copy, Debug)]
pub struct RPayload { pub len: usize }
impl RPayload {
    pub fn len(&self) -> (r: usize) ensures r == self.len { self.len }
    pub fn is_empty(&self) -> (r: bool) ensures r == (self.len == 0) { self.len == 0 }
}

/// A received trailers HEADERS frame, reduced to an opaque tag for its field list (frame::Headers in /repo; the field
/// contents are checked by HeaderBlock::load / the frame__headers.rs harnesses, not here).
#[derive(Clone, Copy, Debug)]
pub struct RTrailers { pub fields: u8 }
impl RTrailers {
    pub fn into_fields(self) -> (r: u8) ensures r == self.fields { self.fields }
}

impl RData {
    pub open spec fn fc_len(self) -> int {
        self.payload_len + (match self.pad { Some(p) => p as int + 1, None => 0 })
    }

    pub fn flow_controlled_len(&self) -> (r: usize)
        requires self.payload_len <= 0xff_ffff,
        ensures r as int == self.fc_len(),
    {
        match self.pad { Some(p) => self.payload_len + p as usize + 1, None => self.payload_len }
    }

    pub fn stream_id(&self) -> (r: StreamId) ensures r == self.stream_id { self.stream_id }
    pub fn payload(&self) -> (r: RPayload) ensures r.len == self.payload_len { RPayload { len: self.payload_len } }
    pub fn is_end_stream(&self) -> (r: bool) ensures r == self.eos { self.eos }
    pub fn into_payload(self) -> (r: RPayload) ensures r.len == self.payload_len { RPayload { len: self.payload_len } }
}

/// one level of receive accounting is well formed (derivation: kani/proto__streams__recv.rs, wf_recv_level / wf_recv_conn)
pub open spec fn wf_conn(fc: FlowControl, in_flight: int) -> bool {
    &&& fc.w() >= 0 && in_flight >= 0 && in_flight <= 0x7fff_ffff
    &&& 0 <= fc.a() + in_flight <= 0x7fff_ffff
    &&& fc.w() + in_flight <= 0x7fff_ffff
}

pub open spec fn wf_stream_level(fc: FlowControl, in_flight: int) -> bool {
    &&& fc.w() <= fc.a() && in_flight >= 0 && in_flight <= 0x7fff_ffff
    &&& 0 <= fc.a() + in_flight <= 0x7fff_ffff
    &&& (fc.a() - fc.w()) + in_flight <= 0x7fff_ffff
}

/// a WINDOW_UPDATE is owed (FlowControl::unclaimed_capacity is Some)
/// What `Context::waker().clone()` yields (opaque).
pub struct Context { pub tag: u8 }
impl Context {
    #[verifier::external_body]
    pub fn waker(&self) -> (r: &Waker) { unimplemented!() }
}
impl Clone for Waker {
    #[verifier::external_body]
    fn clone(&self) -> (r: Waker) { unimplemented!() }
}

pub enum Poll<T> { Ready(T), Pending }

pub open spec fn update_due(fc: FlowControl) -> bool {
    fc.a() > fc.w() && fc.a() - fc.w() >= fc.w() / 2
}

impl Recv {
    //@extract src/proto/streams/recv.rs Recv::consume_connection_window
    //@subst .map_err(Error::library_go_away)=>.map_err_go_away()
    //@ret r
    //@spec     requires sz_ok(sz) && wf_conn(old(self).flow, old(self).in_flight_data as int),
    //@spec     ensures
    //@spec         *final(self) == (Recv { flow: final(self).flow, in_flight_data: final(self).in_flight_data, ..*old(self) }),
    //@spec         // C09: exceeding the connection window is a connection FLOW_CONTROL_ERROR, and changes nothing
    //@spec         sz > old(self).flow.w() ==> r == Err::<(), Error>(Error::GoAway(Reason::FLOW_CONTROL_ERROR, Initiator::Library)) && final(self).flow == old(self).flow && final(self).in_flight_data == old(self).in_flight_data,
    //@spec         // C03: otherwise window and available drop by sz, in-flight grows by sz (available + in_flight conserved)
    //@spec         sz <= old(self).flow.w() ==> r is Ok && final(self).flow.w() == old(self).flow.w() - sz && final(self).flow.a() == old(self).flow.a() - sz
    //@spec             && final(self).in_flight_data == old(self).in_flight_data + sz && wf_conn(final(self).flow, final(self).in_flight_data as int),
    //@end

    //@extract src/proto/streams/recv.rs Recv::release_connection_capacity
    //@subst let _res = self.flow.assign_capacity(capacity);=>let _res = self.flow.assign_capacity(capacity); assert(_res.is_ok());
    //@spec     requires
    //@spec         wf_conn(old(self).flow, old(self).in_flight_data as int),
    //@spec         capacity <= old(self).in_flight_data,
    //@spec     ensures
    //@spec         *final(self) == (Recv { flow: final(self).flow, in_flight_data: final(self).in_flight_data, ..*old(self) }),
    //@spec         // C03: moves `capacity` from in-flight to available; the window only moves with the WINDOW_UPDATE
    //@spec         final(self).flow.w() == old(self).flow.w() && final(self).flow.a() == old(self).flow.a() + capacity && final(self).in_flight_data == old(self).in_flight_data - capacity,
    //@spec         wf_conn(final(self).flow, final(self).in_flight_data as int),
    //@spec         // C06: the connection task is woken iff an update is now owed
    //@spec         update_due(final(self).flow) ==> *final(task) is None,
    //@spec         !update_due(final(self).flow) ==> *final(task) == *old(task),
    //@end

    //@extract src/proto/streams/recv.rs Recv::max_stream_id
    //@ret r
    //@spec     ensures r == self.max_stream_id,
    //@end

    //@extract src/proto/streams/recv.rs Recv::ignore_data
    //@none_args Waker
    //@ret r
    //@spec     requires sz_ok(sz) && wf_conn(old(self).flow, old(self).in_flight_data as int),
    //@spec     ensures
    //@spec         *final(self) == (Recv { flow: final(self).flow, in_flight_data: final(self).in_flight_data, ..*old(self) }),
    //@spec         sz > old(self).flow.w() ==> r == Err::<(), Error>(Error::GoAway(Reason::FLOW_CONTROL_ERROR, Initiator::Library)) && final(self).flow == old(self).flow && final(self).in_flight_data == old(self).in_flight_data,
    //@spec         // C03: discarded data is charged to the connection window and credited back at once, exactly once
    //@spec         sz <= old(self).flow.w() ==> r is Ok && final(self).flow.w() == old(self).flow.w() - sz && final(self).flow.a() == old(self).flow.a()
    //@spec             && final(self).in_flight_data == old(self).in_flight_data && wf_conn(final(self).flow, final(self).in_flight_data as int),
    //@end

    //@extract src/proto/streams/recv.rs Recv::release_capacity
    //@subst stream: &mut store::Ptr=>stream: &mut Stream
    //@subst let _res = stream.recv_flow.assign_capacity(capacity);=>let _res = stream.recv_flow.assign_capacity(capacity); assert(_res.is_ok());
    //@subst Err(UserError::ReleaseCapacityTooBig)=>Err(UserError::Other(1))
    //@ret r
    //@spec     requires
    //@spec         wf_conn(old(self).flow, old(self).in_flight_data as int),
    //@spec         wf_stream_level(old(stream).recv_flow, old(stream).in_flight_recv_data as int),
    //@spec         old(stream).in_flight_recv_data <= old(self).in_flight_data,
    //@spec     ensures
    //@spec         *final(self) == (Recv { flow: final(self).flow, in_flight_data: final(self).in_flight_data, pending_window_updates: final(self).pending_window_updates, ..*old(self) }),
    //@spec         *final(stream) == (Stream { recv_flow: final(stream).recv_flow, in_flight_recv_data: final(stream).in_flight_recv_data, is_pending_window_update: final(stream).is_pending_window_update, ..*old(stream) }),
    //@spec         // releasing more than is in flight is refused and changes nothing
    //@spec         capacity > old(stream).in_flight_recv_data ==> r is Err && *final(stream) == *old(stream) && final(self).flow == old(self).flow && final(self).in_flight_data == old(self).in_flight_data && *final(task) == *old(task),
    //@spec         // C03: otherwise both levels move `capacity` from in-flight to available
    //@spec         capacity <= old(stream).in_flight_recv_data ==> r is Ok
    //@spec             && final(self).flow.w() == old(self).flow.w() && final(self).flow.a() == old(self).flow.a() + capacity && final(self).in_flight_data == old(self).in_flight_data - capacity
    //@spec             && final(stream).recv_flow.w() == old(stream).recv_flow.w() && final(stream).recv_flow.a() == old(stream).recv_flow.a() + capacity
    //@spec             && final(stream).in_flight_recv_data == old(stream).in_flight_recv_data - capacity
    //@spec             && wf_stream_level(final(stream).recv_flow, final(stream).in_flight_recv_data as int)
    //@spec             // C06/C03: an owed stream WINDOW_UPDATE is queued and the connection task woken
    //@spec             && (update_due(final(stream).recv_flow) ==> final(stream).is_pending_window_update && *final(task) is None)
    //@spec             && (!update_due(final(stream).recv_flow) ==> final(stream).is_pending_window_update == old(stream).is_pending_window_update),
    //@end

    //@extract src/proto/streams/recv.rs Recv::set_target_connection_window
    //@subst_re let current = self\s*\.flow\s*\.available\(\)\s*\.add\(self\.in_flight_data\)\?\s*\.checked_size\(\);=>let current_w = match self.flow.available().add(self.in_flight_data) { Ok(w) => w, Err(e) => { return Err(e); } }; assert(current_w.0 >= 0); let current = current_w.0 as WindowSize;
    //@ret r
    //@spec     requires
    //@spec         wf_conn(old(self).flow, old(self).in_flight_data as int),
    //@spec         target <= 0x7fff_ffff,
    //@spec     ensures
    //@spec         // C03: the configured connection window becomes `target`: available + in_flight == target; nothing else moves
    //@spec         r is Ok,
    //@spec         final(self).flow.w() == old(self).flow.w() && final(self).in_flight_data == old(self).in_flight_data,
    //@spec         final(self).flow.a() + final(self).in_flight_data == target,
    //@spec         update_due(final(self).flow) ==> *final(task) is None,
    //@end

    //@extract src/proto/streams/recv.rs Recv::recv_data
    //@subst frame: frame::Data=>frame: RData
    //@subst stream: &mut store::Ptr=>stream: &mut Stream
    //@none_args Waker
    //@subst .map_err(proto::Error::library_go_away)=>.map_err_go_away()
    //@subst payload: frame.into_payload(),=>payload_len: frame.into_payload().len,
    //@ret r
    //@spec     requires
    //@spec         frame.payload_len <= 0xff_ffff,    // FramedRead rejects larger frames (max_frame_size <= 2^24-1)
    //@spec         frame.stream_id == old(stream).id,
    //@spec         wf_conn(old(self).flow, old(self).in_flight_data as int),
    //@spec         wf_stream_level(old(stream).recv_flow, old(stream).in_flight_recv_data as int),
    //@spec         old(stream).in_flight_recv_data + old(self).in_flight_data <= 0x7fff_ffff,
    //@spec         old(stream).in_flight_recv_data <= old(self).in_flight_data,
    //@spec     ensures
    //@spec         *final(self) == (Recv { flow: final(self).flow, in_flight_data: final(self).in_flight_data, buffer: final(self).buffer, pending_window_updates: final(self).pending_window_updates, ..*old(self) }),
    //@spec         // ---- C09: DATA on a stream that is not receiving a body (and that we did not reset) is a connection PROTOCOL_ERROR
    //@spec         (!old(stream).state.local_error() && !old(stream).state.recv_streaming()) ==>
    //@spec             r == Err::<(), Error>(Error::GoAway(Reason::PROTOCOL_ERROR, Initiator::Library)) && *final(stream) == *old(stream)
    //@spec             && final(self).flow == old(self).flow && final(self).in_flight_data == old(self).in_flight_data,
    //@spec         // ---- C09/C03: the connection window is enforced first
    //@spec         (old(stream).state.local_error() || old(stream).state.recv_streaming()) && frame.fc_len() > old(self).flow.w() ==>
    //@spec             r == Err::<(), Error>(Error::GoAway(Reason::FLOW_CONTROL_ERROR, Initiator::Library)) && final(stream).pending_recv@ == old(stream).pending_recv@
    //@spec             && final(self).flow == old(self).flow && final(self).in_flight_data == old(self).in_flight_data,
    //@spec         // ---- C09/C03: a frame for a stream we reset is tolerated, charged, and credited back at once
    //@spec         old(stream).state.local_error() && frame.fc_len() <= old(self).flow.w() ==> r is Ok && *final(stream) == *old(stream)
    //@spec             && final(self).flow.w() == old(self).flow.w() - frame.fc_len() && final(self).flow.a() == old(self).flow.a() && final(self).in_flight_data == old(self).in_flight_data,
    //@spec         // ---- from here on: a live, receiving stream, within the connection window; the connection window is charged
    //@spec         (!old(stream).state.local_error() && old(stream).state.recv_streaming() && frame.fc_len() <= old(self).flow.w()) ==> {
    //@spec             let sz = frame.fc_len();
    //@spec             let over_stream_window = sz > pos(old(stream).recv_flow.w());
    //@spec             let cl_overrun = match old(stream).content_length { ContentLength::Remaining(rem) => frame.payload_len > rem, ContentLength::Head => frame.payload_len != 0, ContentLength::Omitted => false };
    //@spec             let cl_short = frame.eos && (old(stream).content_length matches ContentLength::Remaining(rem) && rem != frame.payload_len);
    //@spec             &&& final(self).flow.w() == old(self).flow.w() - sz
    //@spec             // C09: stream window violation => stream error FLOW_CONTROL_ERROR; C13: content-length mismatch => stream PROTOCOL_ERROR
    //@spec             &&& (over_stream_window ==> r == Err::<(), Error>(Error::Reset(old(stream).id, Reason::FLOW_CONTROL_ERROR, Initiator::Library)))
    //@spec             &&& (!over_stream_window && (cl_overrun || cl_short) ==> r == Err::<(), Error>(Error::Reset(old(stream).id, Reason::PROTOCOL_ERROR, Initiator::Library)))
    //@spec             &&& (!over_stream_window && !cl_overrun && !cl_short ==> r is Ok)
    //@spec             // C03: on a stream error the bytes are still in flight at connection level — the caller credits them back, once
    //@spec             &&& (r is Err ==> final(self).flow.a() == old(self).flow.a() - sz && final(self).in_flight_data == old(self).in_flight_data + sz
    //@spec                     && final(stream).pending_recv@ == old(stream).pending_recv@ && final(stream).recv_flow == old(stream).recv_flow && final(stream).in_flight_recv_data == old(stream).in_flight_recv_data)
    //@spec             // C01: END_STREAM travels with this frame and closes the receive half exactly
    //@spec             &&& (r is Ok ==> final(stream).state.inner == (if frame.eos { old(stream).state.after_recv_end_stream()->Some_0 } else { old(stream).state.inner }))
    //@spec             // C03: receive handle dropped => discarded, credited back at once; otherwise both levels are charged by the
    //@spec             // flow-controlled length, the padding is released at once, the payload is in flight
    //@spec             &&& (r is Ok && !old(stream).is_recv ==> final(self).flow.a() == old(self).flow.a() && final(self).in_flight_data == old(self).in_flight_data
    //@spec                     && final(stream).pending_recv@ == old(stream).pending_recv@ && final(stream).recv_flow == old(stream).recv_flow)
    //@spec             &&& (r is Ok && old(stream).is_recv ==> final(self).flow.a() + final(self).in_flight_data == old(self).flow.a() + old(self).in_flight_data
    //@spec                     && final(self).in_flight_data == old(self).in_flight_data + frame.payload_len
    //@spec                     && final(stream).recv_flow.w() == old(stream).recv_flow.w() - sz
    //@spec                     && final(stream).in_flight_recv_data == old(stream).in_flight_recv_data + frame.payload_len
    //@spec                     && final(stream).recv_flow.a() + final(stream).in_flight_recv_data == old(stream).recv_flow.a() + old(stream).in_flight_recv_data
    //@spec                     // C01: exactly one Data event with exactly the payload, at the BACK — except for empty non-final frames
    //@spec                     && final(stream).pending_recv@ == (if frame.payload_len == 0 && !frame.eos { old(stream).pending_recv@ }
    //@spec                            else { old(stream).pending_recv@.push(Event::Data(DataEvent { payload_len: frame.payload_len, is_budgeted: !frame.eos })) })
    //@spec                     // C06: the reader is woken when something was delivered
    //@spec                     && (!(frame.payload_len == 0 && !frame.eos) ==> final(stream).recv_task is None))
    //@spec         },
    //@end

    //@extract src/proto/streams/recv.rs Recv::recv_trailers
    //@subst frame: frame::Headers=>frame: RTrailers
    //@subst stream: &mut store::Ptr=>stream: &mut Stream
    //@ret r
    //@spec     ensures
    //@spec         *final(self) == (Recv { buffer: final(self).buffer, ..*old(self) }),
    //@spec         // C09/C17: trailers on a stream whose receive half is not open: connection PROTOCOL_ERROR, nothing delivered
    //@spec         old(stream).state.after_recv_end_stream() is None ==>
    //@spec             r == Err::<(), Error>(Error::GoAway(Reason::PROTOCOL_ERROR, Initiator::Library)) && *final(stream) == *old(stream),
    //@spec         // C13: the body was shorter than the declared content-length: the message is malformed — stream error
    //@spec         // PROTOCOL_ERROR, and the trailers are NOT handed to the application
    //@spec         (old(stream).state.after_recv_end_stream() is Some && (old(stream).content_length matches ContentLength::Remaining(rem) && rem != 0)) ==>
    //@spec             r == Err::<(), Error>(Error::Reset(old(stream).id, Reason::PROTOCOL_ERROR, Initiator::Library))
    //@spec             && final(stream).pending_recv@ == old(stream).pending_recv@,
    //@spec         // C01: otherwise the trailers are the LAST event of the stream, behind everything already queued, the receive
    //@spec         // half is closed exactly as by END_STREAM, and the reader is woken (C06)
    //@spec         (old(stream).state.after_recv_end_stream() is Some && !(old(stream).content_length matches ContentLength::Remaining(rem) && rem != 0)) ==>
    //@spec             r is Ok && final(stream).pending_recv@ == old(stream).pending_recv@.push(Event::Trailers(frame.fields))
    //@spec             && *final(stream) == (Stream { state: final(stream).state, pending_recv: final(stream).pending_recv, recv_task: None, ..*old(stream) })
    //@spec             && final(stream).state.inner == old(stream).state.after_recv_end_stream()->Some_0,
    //@end

    // C05 / C13 / C15 / C18 / C01 / C09: HEADERS that start or answer a message on `stream` (the dispatch layer has already decided
    // that these are not trailers).
    //   * the state machine decides first (illegal => connection PROTOCOL_ERROR, nothing else happens);
    //   * C05: a stream that becomes active here (peer-initiated, or a promised stream now being answered) and is not counted
    //     yet is admitted only while a slot is free — otherwise REFUSED_STREAM for it and no counter moves; an admitted stream
    //     is counted exactly once and raises last_processed_id (the id our GOAWAY will name: C15) to its id if larger;
    //   * C13: a content-length that does not parse, or END_STREAM together with a non-zero content-length (unless the
    //     response is 204 / 304), is a stream PROTOCOL_ERROR and NOTHING is delivered; otherwise the expected length is recorded;
    //   * C18: a field section above our SETTINGS_MAX_HEADER_LIST_SIZE is not delivered: a server answers an initial request
    //     with 431 (END_STREAM), everything else is reported as over-size without an answer;
    //   * `:protocol` without extended CONNECT enabled, `:status` on a request: stream PROTOCOL_ERROR, nothing delivered;
    //   * otherwise convert_poll_message decides (its error is returned unchanged, nothing delivered); on success EXACTLY ONE
    //     event — Headers, or InformationalHeaders for 1xx — is appended BEHIND everything queued, the reader is woken, and a
    //     server puts the stream on the accept queue (only for a final header section: the request).
    // Listed substitutions: the frame accessors of the reduced RHeaders; `?` with its From conversion into
    // RecvHeaderBlockError::State written out; `.into()` of a proto::Error => RecvHeaderBlockError::State(..); the `map_or`
    // closure on the status written out as a match; the 431 response literal => RHeaders::response_431.
    //@extract src/proto/streams/recv.rs Recv::recv_headers
    //@subst_re pub fn recv_headers\(\s*&mut self,\s*frame: frame::Headers,\s*stream: &mut store::Ptr,\s*counts: &mut Counts,\s*\) -> Result<\(\), RecvHeaderBlockError<Option<frame::Headers>>>=>pub fn recv_headers(&mut self, frame: RHeaders, stream: &mut Stream, counts: &mut Counts) -> Result<(), RecvHeaderBlockError>
    //@subst let is_initial = stream.state.recv_open(&frame)?;=>let is_initial = match stream.state.recv_open(&frame) { Ok(b) => b, Err(e) => { return Err(RecvHeaderBlockError::State(e)); } };
    //@subst_re return Err\(Error::library_reset\(stream\.id, Reason::(\w+)\)\.into\(\)\);=>return Err(RecvHeaderBlockError::State(Error::library_reset(stream.id, Reason::\1)));
    //@subst_opt_re frame\.stream_id\(\) > self\.last_processed_id ==>> frame.stream_id().0 > self.last_processed_id.0
    //@subst_re use super::stream::ContentLength;\s*use http::header;=>
    //@subst if let Some(content_length) = frame.fields().get(header::CONTENT_LENGTH) {=>if let Some(content_length) = frame.content_length_field() {
    //@subst frame::parse_u64(content_length.as_bytes())=>parse_u64_model(content_length)
    //@subst_re && frame\s*\.pseudo\(\)\s*\.status\s*\.map_or\(true, \|status\| ([^)]*)\) ==>> && (match frame.pseudo_status() { None => true, Some(status) => \1 })
    //@subst_re let mut res = frame::Headers::new\(\s*stream\.id,\s*frame::Pseudo::response\(::http::StatusCode::REQUEST_HEADER_FIELDS_TOO_LARGE\),\s*HeaderMap::new\(\),\s*\);\s*res\.set_end_stream\(\);=>let res = RHeaders::response_431(stream.id);
    //@subst let (pseudo, fields) = frame.into_parts();=>let pseudo = frame.pseudo_view();
    //@subst_re let message = counts\s*\.peer\(\)\s*\.convert_poll_message\(pseudo, fields, stream_id\)\?; ==>> let message = match convert_poll_message_model(counts.peer(), frame) { Ok(m) => m, Err(e) => { return Err(RecvHeaderBlockError::State(e)); } };
    //@ret r
    //@spec     ensures
    //@spec         final(stream).id == old(stream).id && final(stream).key == old(stream).key,
    //@spec         match recv_headers_outcome(*old(self), *old(stream), *old(counts), frame) {
    //@spec             HOut::Illegal => (r matches Err(RecvHeaderBlockError::State(e)) && e == Error::GoAway(Reason::PROTOCOL_ERROR, Initiator::Library))
    //@spec                 && *final(stream) == *old(stream) && *final(self) == *old(self) && final(counts).admitted@ == old(counts).admitted@,
    //@spec             HOut::Refused => (r matches Err(RecvHeaderBlockError::State(e)) && e == Error::Reset(old(stream).id, Reason::REFUSED_STREAM, Initiator::Library))
    //@spec                 && final(counts).admitted@ == old(counts).admitted@ && !final(stream).is_counted && final(stream).pending_recv@ == old(stream).pending_recv@
    //@spec                 && final(self).last_processed_id == old(self).last_processed_id,
    //@spec             HOut::Malformed => (r matches Err(RecvHeaderBlockError::State(e)) && e == Error::Reset(old(stream).id, Reason::PROTOCOL_ERROR, Initiator::Library))
    //@spec                 && final(stream).pending_recv@ == old(stream).pending_recv@ && !final(stream).is_pending_accept == !old(stream).is_pending_accept,
    //@spec             HOut::Oversize(answer) => (r matches Err(RecvHeaderBlockError::Oversize(a)) && (a is Some) == answer && (a matches Some(h) ==> h == (RHeaders { stream_id: old(stream).id, eos: true, over_size: false, content_length: None, status: Some(431u16), protocol: false, tag: 0 })))
    //@spec                 && final(stream).pending_recv@ == old(stream).pending_recv@,
    //@spec             HOut::ConvertFailed(e0) => (r matches Err(RecvHeaderBlockError::State(e)) && e == e0) && final(stream).pending_recv@ == old(stream).pending_recv@,
    //@spec             HOut::Delivered(ev) => r is Ok && final(stream).pending_recv@ == old(stream).pending_recv@.push(ev) && final(stream).recv_task is None
    //@spec                 // a server queues the REQUEST for accept; an informational response never is
    //@spec                 && (final(stream).is_pending_accept == (old(stream).is_pending_accept || (old(counts).is_server_spec() && !informational(frame.status)))),
    //@spec         },
    //@spec         // C05 / C15: admission and the last processed id move together, exactly when a not-yet-counted stream becomes active
    //@spec         (!(recv_headers_outcome(*old(self), *old(stream), *old(counts), frame) is Illegal) && !(recv_headers_outcome(*old(self), *old(stream), *old(counts), frame) is Refused)) ==> (
    //@spec             if becomes_active(*old(stream)) && !old(stream).is_counted {
    //@spec                 final(counts).admitted@ == old(counts).admitted@ + 1 && final(stream).is_counted
    //@spec                 && final(self).last_processed_id.0 == (if frame.stream_id.0 > old(self).last_processed_id.0 { frame.stream_id.0 } else { old(self).last_processed_id.0 })
    //@spec             } else {
    //@spec                 final(counts).admitted@ == old(counts).admitted@ && final(stream).is_counted == old(stream).is_counted && final(self).last_processed_id == old(self).last_processed_id
    //@spec             }),
    //@end

    // C18 / C19: locally reset streams are remembered for a grace period (`reset_duration`) so that frames the peer sent
    // before it saw our RST_STREAM can be ignored — and no longer: every stream at the FRONT of the expiry queue whose grace
    // period is over is taken off and transitioned (released); the loop stops at the first one that is not yet due (the queue
    // is in reset order); the `expect("reset_at must be set if in queue")` cannot fail (a queued stream carries its timestamp).
    // Listed substitutions: `Instant` / `Duration` are numbers; the closure gets the contract Verus needs; `a > b` on
    // Durations => `a.gt(&b)`.
    //@extract src/proto/streams/recv.rs Recv::clear_expired_reset_streams
    //@attr #[verifier::exec_allows_no_decreases_clause]
    //@subst store: &mut Store=>store: &mut RStore
    //@subst_re \|stream\| \{ ==>> |stream: &Stream| -> (b: bool) requires stream.reset_at is Some ensures b == ((if now.t >= stream.reset_at->Some_0 { (now.t - stream.reset_at->Some_0) as u64 } else { 0u64 }) > reset_duration.d) {
    //@subst let reset_at = stream.reset_at.expect("reset_at must be set if in queue");=>assert(stream.reset_at.is_some()); let reset_at = stream.reset_at.unwrap();
    //@subst now.saturating_duration_since(reset_at) > reset_duration=>now.saturating_duration_since(reset_at).gt(&reset_duration)
    //@subst_opt_re counts\.transition_after\(stream, true\); ==>> counts.transition_after_drained(stream, true, store);
    //@spec     ensures
    //@spec         final(store).held() == old(store).held(),
    //@spec         *final(self) == (Recv { pending_reset_expired: final(self).pending_reset_expired, ..*old(self) }),
    //@spec         // as many streams are released as left the queue; never more than were queued
    //@spec         final(counts).drained@ + final(self).pending_reset_expired.ghost_len == old(counts).drained@ + old(self).pending_reset_expired.ghost_len,
    //@spec         final(self).pending_reset_expired.ghost_len <= old(self).pending_reset_expired.ghost_len,
    //@loop 0     invariant
    //@loop 0         store.held() == old(store).held(),
    //@loop 0         *self == (Recv { pending_reset_expired: self.pending_reset_expired, ..*old(self) }),
    //@loop 0         counts.drained@ + self.pending_reset_expired.ghost_len == old(counts).drained@ + old(self).pending_reset_expired.ghost_len,
    //@loop 0         self.pending_reset_expired.ghost_len <= old(self).pending_reset_expired.ghost_len,
    //@end

    // C19 / C07, end of the connection: the three receive-side queues are DRAINED — every stream on them is taken off
    // exactly once and goes through Counts::transition_after (where a released record is removed), for ANY queue length;
    // afterwards the queues are empty; every Ptr is handed back.  (`clear_expired_reset_streams`, which looks at the
    // clock, is not under contract.)
    //@extract src/proto/streams/recv.rs Recv::clear_stream_window_update_queue
    //@subst store: &mut Store=>store: &mut RStore
    //@subst_re counts\.transition\(stream, \|_, stream\| \{\s*\}\)=>{ let is_pending_reset = stream.is_pending_reset_expiration(); counts.transition_after_drained(stream, is_pending_reset, store); }
    //@spec     ensures
    //@spec         final(self).pending_window_updates.ghost_len == 0 && final(store).held() == old(store).held(),
    //@spec         final(counts).drained@ == old(counts).drained@ + old(self).pending_window_updates.ghost_len,
    //@spec         *final(self) == (Recv { pending_window_updates: final(self).pending_window_updates, ..*old(self) }),
    //@loop_opt 0     invariant
    //@loop_opt 0         store.held() == old(store).held(),
    //@loop_opt 0         counts.drained@ + self.pending_window_updates.ghost_len == old(counts).drained@ + old(self).pending_window_updates.ghost_len,
    //@loop_opt 0         *self == (Recv { pending_window_updates: self.pending_window_updates, ..*old(self) }),
    //@loop_opt 0     ensures self.pending_window_updates.ghost_len == 0,
    //@loop_opt 0     decreases self.pending_window_updates.ghost_len,
    //@end

    //@extract src/proto/streams/recv.rs Recv::clear_all_reset_streams
    //@subst store: &mut Store=>store: &mut RStore
    //@subst counts.transition_after(stream, true);=>counts.transition_after_drained(stream, true, store);
    //@spec     ensures
    //@spec         final(self).pending_reset_expired.ghost_len == 0 && final(store).held() == old(store).held(),
    //@spec         final(counts).drained@ == old(counts).drained@ + old(self).pending_reset_expired.ghost_len,
    //@spec         *final(self) == (Recv { pending_reset_expired: final(self).pending_reset_expired, ..*old(self) }),
    //@loop_opt 0     invariant
    //@loop_opt 0         store.held() == old(store).held(),
    //@loop_opt 0         counts.drained@ + self.pending_reset_expired.ghost_len == old(counts).drained@ + old(self).pending_reset_expired.ghost_len,
    //@loop_opt 0         *self == (Recv { pending_reset_expired: self.pending_reset_expired, ..*old(self) }),
    //@loop_opt 0     ensures self.pending_reset_expired.ghost_len == 0,
    //@loop_opt 0     decreases self.pending_reset_expired.ghost_len,
    //@end

    //@extract src/proto/streams/recv.rs Recv::clear_all_pending_accept
    //@subst store: &mut Store=>store: &mut RStore
    //@subst counts.transition_after(stream, false);=>counts.transition_after_drained(stream, false, store);
    //@spec     ensures
    //@spec         final(self).pending_accept.ghost_len == 0 && final(store).held() == old(store).held(),
    //@spec         final(counts).drained@ == old(counts).drained@ + old(self).pending_accept.ghost_len,
    //@spec         *final(self) == (Recv { pending_accept: final(self).pending_accept, ..*old(self) }),
    //@loop_opt 0     invariant
    //@loop_opt 0         store.held() == old(store).held(),
    //@loop_opt 0         counts.drained@ + self.pending_accept.ghost_len == old(counts).drained@ + old(self).pending_accept.ghost_len,
    //@loop_opt 0         *self == (Recv { pending_accept: self.pending_accept, ..*old(self) }),
    //@loop_opt 0     ensures self.pending_accept.ghost_len == 0,
    //@loop_opt 0     decreases self.pending_accept.ghost_len,
    //@end

    //@extract src/proto/streams/recv.rs Recv::clear_queues
    //@subst store: &mut Store,=>store: &mut RStore,
    //@spec     ensures
    //@spec         final(store).held() == old(store).held(),
    //@spec         final(self).pending_window_updates.ghost_len == 0 && final(self).pending_reset_expired.ghost_len == 0,
    //@spec         clear_pending_accept ==> final(self).pending_accept.ghost_len == 0,
    //@spec         !clear_pending_accept ==> final(self).pending_accept == old(self).pending_accept,
    //@spec         final(counts).drained@ == old(counts).drained@ + old(self).pending_window_updates.ghost_len + old(self).pending_reset_expired.ghost_len
    //@spec             + (if clear_pending_accept { old(self).pending_accept.ghost_len as int } else { 0int }),
    //@end

    // C13 / C09 / C04 / C01: the PUSH_PROMISE for a freshly created promised stream.  The stream must be idle (=> reserved
    // (remote)), else connection PROTOCOL_ERROR; a field section above SETTINGS_MAX_HEADER_LIST_SIZE, a promised request that
    // is not a well-formed request (convert_poll_message: pseudo-header rules, C13) or that is not safe / cacheable / carries
    // a non-zero content-length (validate_request, RFC 9113 8.4) => nothing is delivered and the PROMISED stream is reset with
    // PROTOCOL_ERROR; otherwise exactly one Headers event with that request is queued and both waiters are woken.
    // Listed substitutions: the frame and request are opaque tokens; `frame.into_parts()` + `server::Peer::convert_poll_message`
    // => `pp_convert(frame)`; `frame::PushPromise::validate_request(&req)` => `pp_validate(req)`; the `match e { .. proto_err! .. }`
    // that only logs is dropped with its macros (R1).
    //@extract src/proto/streams/recv.rs Recv::recv_push_promise
    //@subst frame: frame::PushPromise,=>frame: RPushPromise,
    //@subst stream: &mut store::Ptr,=>stream: &mut Stream,
    //@subst_re let \(pseudo, fields\) = frame\.into_parts\(\);\s*let req = crate::server::Peer::convert_poll_message\(pseudo, fields, promised_id\)\?;=>let req = pp_convert(frame)?;
    //@subst_re if let Err\(e\) = frame::PushPromise::validate_request\(&req\) \{\s*use PushPromiseHeaderError::\*;\s*match e \{.*?\}=>if let Err(e) = pp_validate(req) {
    //@subst use super::peer::PollMessage::*;=>
    //@subst Event::Headers(Server(req))=>Event::Headers(PollMessage::Server(req))
    //@ret r
    //@spec     ensures
    //@spec         *final(self) == (Recv { buffer: final(self).buffer, ..*old(self) }),
    //@spec         !(old(stream).state.inner is Idle) ==> r == Err::<(), Error>(Error::GoAway(Reason::PROTOCOL_ERROR, Initiator::Library)) && *final(stream) == *old(stream),
    //@spec         old(stream).state.inner is Idle ==> (match pp_outcome(frame) {
    //@spec             // delivered: exactly one Headers event with the promised request, behind nothing (the stream is new), waiters woken
    //@spec             Ok(req) => r is Ok && final(stream).pending_recv@ == old(stream).pending_recv@.push(Event::Headers(PollMessage::Server(req)))
    //@spec                 && *final(stream) == (Stream { state: final(stream).state, pending_recv: final(stream).pending_recv, recv_task: None, push_task: None, ..*old(stream) }),
    //@spec             // refused: nothing is delivered; the error names the PROMISED stream (or is what convert_poll_message reported)
    //@spec             Err(e) => r == Err::<(), Error>(e) && final(stream).pending_recv@ == old(stream).pending_recv@,
    //@spec         }) && final(stream).state.inner is ReservedRemote,
    //@end

    // ---- announcing credit (C03: every credit the application released is announced exactly once, by a WINDOW_UPDATE that
    // raises the window to the available value; nothing is announced that was not released; an update that cannot be
    // buffered now stays owed; C08: `buffer` is only called after `has_send_capacity`)
    //@extract src/proto/streams/recv.rs Recv::send_pending_refusal
    //@subst_re send_pending_refusal<T, B>\(=>send_pending_refusal(
    //@subst_re dst: &mut Codec<T, Prioritized<B>>,\s*\) -> io::Result<BufferStatus>\s*where\s*T: AsyncWrite \+ Unpin,\s*B: Buf,=>dst: &mut WCodec) -> Result<BufferStatus, IoError>
    //@subst frame::Reset::new(=>wframe::Reset::new(
    //@subst_re dst\.buffer\(frame\.into\(\)\)\s*\.expect\("invalid RST_STREAM frame"\);=>let _b = dst.buffer(frame); assert(_b.is_ok());
    //@ret r
    //@spec     ensures
    //@spec         *final(self) == (Recv { refused: final(self).refused, ..*old(self) }),
    //@spec         // C05/C09: a refused stream is answered by exactly one RST_STREAM(REFUSED_STREAM), which stays owed while the codec is full
    //@spec         old(self).refused is None ==> r == Ok::<BufferStatus, IoError>(BufferStatus::Complete) && final(dst).sent@ == old(dst).sent@ && final(self).refused is None,
    //@spec         (old(self).refused is Some && !old(dst).room) ==> r == Ok::<BufferStatus, IoError>(BufferStatus::CodecFull) && final(dst).sent@ == old(dst).sent@ && final(self).refused == old(self).refused,
    //@spec         (old(self).refused is Some && old(dst).room) ==> r == Ok::<BufferStatus, IoError>(BufferStatus::Complete) && final(self).refused is None
    //@spec             && final(dst).sent@ == old(dst).sent@.push(WFrame::Reset { stream_id: old(self).refused->Some_0, reason: Reason::REFUSED_STREAM }),
    //@end

    //@extract src/proto/streams/recv.rs Recv::send_connection_window_update
    //@subst_re send_connection_window_update<T, B>\(=>send_connection_window_update(
    //@subst_re dst: &mut Codec<T, Prioritized<B>>,\s*\) -> io::Result<BufferStatus>\s*where\s*T: AsyncWrite \+ Unpin,\s*B: Buf,=>dst: &mut WCodec) -> Result<BufferStatus, IoError>
    //@subst frame::WindowUpdate::new(=>wframe::WindowUpdate::new(
    //@subst_re dst\.buffer\(frame\.into\(\)\)\s*\.expect\("invalid WINDOW_UPDATE frame"\);=>let _b = dst.buffer(frame); assert(_b.is_ok());
    //@subst_re self\.flow\s*\.inc_window\(incr\)\s*\.expect\("unexpected flow control state"\);=>let _i = self.flow.inc_window(incr); assert(_i.is_ok());
    //@ret r
    //@spec     requires wf_conn(old(self).flow, old(self).in_flight_data as int),
    //@spec     ensures
    //@spec         *final(self) == (Recv { flow: final(self).flow, ..*old(self) }),
    //@spec         final(self).flow.a() == old(self).flow.a(),
    //@spec         // nothing due: nothing sent
    //@spec         !update_due(old(self).flow) ==> r == Ok::<BufferStatus, IoError>(BufferStatus::Complete) && final(dst).sent@ == old(dst).sent@ && final(self).flow == old(self).flow,
    //@spec         // due but the codec is full: it stays owed (flow untouched, so the next call tries again)
    //@spec         (update_due(old(self).flow) && !old(dst).room) ==> r == Ok::<BufferStatus, IoError>(BufferStatus::CodecFull) && final(dst).sent@ == old(dst).sent@ && final(self).flow == old(self).flow,
    //@spec         // due and room: exactly one WINDOW_UPDATE on stream 0 for exactly the unannounced credit; window == available afterwards
    //@spec         (update_due(old(self).flow) && old(dst).room) ==> r == Ok::<BufferStatus, IoError>(BufferStatus::Complete)
    //@spec             && final(dst).sent@ == old(dst).sent@.push(WFrame::WindowUpdate { stream_id: StreamId(0), incr: (old(self).flow.a() - old(self).flow.w()) as u32 })
    //@spec             && final(self).flow.w() == old(self).flow.a(),
    //@end

    //@extract src/proto/streams/recv.rs Recv::send_stream_window_updates
    //@attr #[verifier::exec_allows_no_decreases_clause]
    //@subst_re send_stream_window_updates<T, B>\(=>send_stream_window_updates(
    //@subst store: &mut Store=>store: &mut RStore
    //@subst_re dst: &mut Codec<T, Prioritized<B>>,\s*\) -> io::Result<BufferStatus>\s*where\s*T: AsyncWrite \+ Unpin,\s*B: Buf,=>dst: &mut WCodec) -> Result<BufferStatus, IoError>
    //@subst frame::WindowUpdate::new(=>wframe::WindowUpdate::new(
    //@subst_re counts\.transition\(stream, \|_, stream\| \{=>{ let mut stream = stream; let ghost s0 = stream; let is_pending_reset = stream.is_pending_reset_expiration();
    //@before let frame = wframe::WindowUpdate::new(stream.id, incr);=>proof { assert(stream.state.recv_streaming()); /* C04, RFC 9113 5.1: a WINDOW_UPDATE is only written for a stream whose receive half is still open - never after RST_STREAM or END_STREAM */ }
    //@subst_re return;\s*\}=>} else {
    //@subst_re dst\.buffer\(frame\.into\(\)\)\s*\.expect\("invalid WINDOW_UPDATE frame"\);=>let _b = dst.buffer(frame); assert(_b.is_ok());
    //@subst_re stream\s*\.recv_flow\s*\.inc_window\(incr\)\s*\.expect\("unexpected flow control state"\);=>let _i = stream.recv_flow.inc_window(incr); assert(_i.is_ok());
    //@subst_re \}\)(\s*\}\s*\}\s*)$=>} proof { assert(stream.state == s0.state && stream.is_pending_window_update == s0.is_pending_window_update); } counts.transition_after(stream, is_pending_reset, store); }\1
    //@ret r
    //@spec     ensures
    //@spec         r is Ok,
    //@spec         *final(self) == (Recv { pending_window_updates: final(self).pending_window_updates, buffer: final(self).buffer, ..*old(self) }),
    //@spec         // every stream taken off the queue went back through Counts::transition_after, whose precondition is that it is
    //@spec         // no longer owed an update; none is abandoned half-way (a stream popped and then dropped because the codec is
    //@spec         // full would have lost its queue flag while still owed)
    //@spec         final(store).held() == old(store).held(),
    //@spec         // Complete only when the queue is drained; CodecFull only when the codec really is full
    //@spec         r == Ok::<BufferStatus, IoError>(BufferStatus::Complete) ==> final(self).pending_window_updates.ghost_len == 0,
    //@spec         r == Ok::<BufferStatus, IoError>(BufferStatus::CodecFull) ==> !final(dst).room,
    //@spec         // only WINDOW_UPDATEs are added, in order, behind what was buffered before
    //@spec         final(dst).sent@.len() >= old(dst).sent@.len() && final(dst).sent@.subrange(0, old(dst).sent@.len() as int) =~= old(dst).sent@,
    //@loop 0     invariant
    //@loop 0         *self == (Recv { pending_window_updates: self.pending_window_updates, buffer: self.buffer, ..*old(self) }),
    //@loop 0         store.held() == old(store).held(),
    //@loop 0         dst.sent@.len() >= old(dst).sent@.len() && dst.sent@.subrange(0, old(dst).sent@.len() as int) =~= old(dst).sent@,
    //@end

    //@extract src/proto/streams/recv.rs Recv::buffer_pending
    //@subst_re buffer_pending<T, B>\(=>buffer_pending(
    //@subst store: &mut Store=>store: &mut RStore
    //@subst_re dst: &mut Codec<T, Prioritized<B>>,\s*\) -> io::Result<BufferStatus>\s*where\s*T: AsyncWrite \+ Unpin,\s*B: Buf,=>dst: &mut WCodec) -> Result<BufferStatus, IoError>
    //@ret r
    //@spec     requires wf_conn(old(self).flow, old(self).in_flight_data as int),
    //@spec     ensures
    //@spec         r is Ok,
    //@spec         final(store).held() == old(store).held(),
    //@spec         // Complete means: no connection-level update is due any more and the stream queue is drained
    //@spec         r == Ok::<BufferStatus, IoError>(BufferStatus::Complete) ==> !update_due(final(self).flow) && final(self).pending_window_updates.ghost_len == 0,
    //@spec         final(self).flow.a() == old(self).flow.a(),
    //@end

    // ---- handing events to the application (C01: in order, each exactly once, a poll that takes nothing changes nothing;
    // C06: a poll that returns Pending has stored the waker; C07: a poll on an empty queue of a finished or failed stream
    // resolves).  `?` on Result inside a fn returning Poll<Option<Result<..>>> is written out (listed substitution:
    // Err(e) => return Poll::Ready(Some(Err(e))), which is what core's FromResidual impl does).
    //@extract src/proto/streams/recv.rs Recv::schedule_recv
    //@subst schedule_recv<T>(=>schedule_recv<T>(
    //@subst_re Poll<Option<Result<T, proto::Error>>>=>Poll<Option<Result<T, Error>>>
    //@subst if stream.state.ensure_recv_open()? {=>let _o = stream.state.ensure_recv_open(); if let Err(e) = _o { return Poll::Ready(Some(Err(e))); } if _o.unwrap() {
    //@ret r
    //@spec     ensures
    //@spec         *final(self) == *old(self),
    //@spec         match old(stream).state.recv_open_spec() {
    //@spec             Err(e) => r == Poll::<Option<Result<T, Error>>>::Ready(Some(Err(e))) && *final(stream) == *old(stream),
    //@spec             Ok(false) => r == Poll::<Option<Result<T, Error>>>::Ready(None) && *final(stream) == *old(stream),
    //@spec             Ok(true) => r is Pending && final(stream).recv_task is Some && *final(stream) == (Stream { recv_task: final(stream).recv_task, ..*old(stream) }),
    //@spec         },
    //@end

    //@extract src/proto/streams/recv.rs Recv::poll_data
    //@subst_re Poll<Option<Result<DataEvent, proto::Error>>>=>Poll<Option<Result<DataEvent, Error>>>
    //@ret r
    //@spec     ensures
    //@spec         *final(self) == (Recv { buffer: final(self).buffer, ..*old(self) }),
    //@spec         // the next DATA event, exactly once
    //@spec         (old(stream).pending_recv@.len() > 0 && old(stream).pending_recv@[0] is Data) ==>
    //@spec             r == Poll::<Option<Result<DataEvent, Error>>>::Ready(Some(Ok(old(stream).pending_recv@[0]->Data_0)))
    //@spec             && final(stream).pending_recv@ == old(stream).pending_recv@.drop_first()
    //@spec             && *final(stream) == (Stream { pending_recv: final(stream).pending_recv, ..*old(stream) }),
    //@spec         // something else is next (trailers): the body is over, and that event STAYS the next one
    //@spec         (old(stream).pending_recv@.len() > 0 && !(old(stream).pending_recv@[0] is Data)) ==>
    //@spec             r == Poll::<Option<Result<DataEvent, Error>>>::Ready(None)
    //@spec             && final(stream).pending_recv@ =~= old(stream).pending_recv@
    //@spec             && *final(stream) == (Stream { pending_recv: final(stream).pending_recv, recv_task: None, ..*old(stream) }),
    //@spec         // nothing queued: decided by the state
    //@spec         old(stream).pending_recv@.len() == 0 ==> final(stream).pending_recv@ == old(stream).pending_recv@ && match old(stream).state.recv_open_spec() {
    //@spec             Err(e) => r == Poll::<Option<Result<DataEvent, Error>>>::Ready(Some(Err(e))),
    //@spec             Ok(false) => r == Poll::<Option<Result<DataEvent, Error>>>::Ready(None),
    //@spec             Ok(true) => r is Pending && final(stream).recv_task is Some,
    //@spec         },
    //@end

    //@extract src/proto/streams/recv.rs Recv::poll_trailers
    //@subst_re Poll<Option<Result<HeaderMap, proto::Error>>>=>Poll<Option<Result<u8, Error>>>
    //@ret r
    //@spec     ensures
    //@spec         *final(self) == (Recv { buffer: final(self).buffer, ..*old(self) }),
    //@spec         (old(stream).pending_recv@.len() > 0 && old(stream).pending_recv@[0] is Trailers) ==>
    //@spec             r == Poll::<Option<Result<u8, Error>>>::Ready(Some(Ok(old(stream).pending_recv@[0]->Trailers_0)))
    //@spec             && final(stream).pending_recv@ == old(stream).pending_recv@.drop_first(),
    //@spec         // the body is not consumed yet: wait, and the queue keeps its order
    //@spec         (old(stream).pending_recv@.len() > 0 && !(old(stream).pending_recv@[0] is Trailers)) ==>
    //@spec             r is Pending && final(stream).recv_task is Some && final(stream).pending_recv@ =~= old(stream).pending_recv@,
    //@spec         old(stream).pending_recv@.len() == 0 ==> final(stream).pending_recv@ == old(stream).pending_recv@ && match old(stream).state.recv_open_spec() {
    //@spec             Err(e) => r == Poll::<Option<Result<u8, Error>>>::Ready(Some(Err(e))),
    //@spec             Ok(false) => r == Poll::<Option<Result<u8, Error>>>::Ready(None),
    //@spec             Ok(true) => r is Pending && final(stream).recv_task is Some,
    //@spec         },
    //@end

    //@extract src/proto/streams/recv.rs Recv::poll_response
    //@attr #[verifier::exec_allows_no_decreases_clause]
    //@subst stream: &mut store::Ptr=>stream: &mut Stream
    //@subst_re Poll<Result<Response<\(\)>, proto::Error>>=>Poll<Result<u8, Error>>
    //@subst use super::peer::PollMessage::*;=>let ghost mut k: int = 0; proof { assert(stream.pending_recv@.skip(0) =~= stream.pending_recv@); }
    //@subst Some(Event::Headers(Client(response))) => return Poll::Ready(Ok(response)), ==>> Some(Event::Headers(PollMessage::Client(response))) => { proof { assert(old(stream).pending_recv@.skip(k).drop_first() =~= old(stream).pending_recv@.skip(k + 1)); } return Poll::Ready(Ok(response)); }
    //@subst Some(Event::InformationalHeaders(_)) => { ==>> Some(Event::InformationalHeaders(_)) => { proof { assert(old(stream).pending_recv@.skip(k).drop_first() =~= old(stream).pending_recv@.skip(k + 1)); k = k + 1; }
    //@subst Some(_) => panic!("poll_response called after response returned"), ==>> Some(_) => { proof { let q = old(stream).pending_recv@; assert(q.skip(k)[0] == q[k]); assert((q[k] is InformationalHeaders) || (q[k] matches Event::Headers(PollMessage::Client(x)))); } assert(false); return Poll::Pending; }
    //@subst if !stream.state.ensure_recv_open()? {=>let _o = stream.state.ensure_recv_open(); if let Err(e) = _o { return Poll::Ready(Err(e)); } if !_o.unwrap() {
    //@ret r
    //@spec     requires
    //@spec         // ResponseFuture polls until the response head was returned, never after: what precedes the response head in
    //@spec         // the queue can only be interim (1xx) responses (Recv::recv_headers queues nothing else before it; DATA before
    //@spec         // HEADERS is rejected by the state machine) — this is the `panic!` of the real body, as an obligation
    //@spec         forall|i: int| 0 <= i < old(stream).pending_recv@.len() && (forall|j: int| 0 <= j < i ==> old(stream).pending_recv@[j] is InformationalHeaders)
    //@spec             ==> (#[trigger] old(stream).pending_recv@[i] is InformationalHeaders) || (old(stream).pending_recv@[i] matches Event::Headers(PollMessage::Client(x))),
    //@spec     ensures
    //@spec         *final(self) == (Recv { buffer: final(self).buffer, ..*old(self) }),
    //@spec         match r {
    //@spec             // C01: the response head is the first non-interim event, and everything behind it keeps its order
    //@spec             Poll::Ready(Ok(x)) => exists|n: int| 0 <= n < old(stream).pending_recv@.len() && old(stream).pending_recv@[n] == Event::Headers(PollMessage::Client(x))
    //@spec                 && (forall|j: int| 0 <= j < n ==> old(stream).pending_recv@[j] is InformationalHeaders)
    //@spec                 && final(stream).pending_recv@ == old(stream).pending_recv@.skip(n + 1),
    //@spec             // C07: nothing but interim responses queued and the stream failed or ended: the future resolves with the cause
    //@spec             Poll::Ready(Err(e)) => final(stream).pending_recv@.len() == 0 && (old(stream).state.recv_open_spec() == Err::<bool, Error>(e)
    //@spec                 || (old(stream).state.recv_open_spec() == Ok::<bool, Error>(false) && e == Error::Reset(old(stream).id, Reason::PROTOCOL_ERROR, Initiator::Library))),
    //@spec             // C06: otherwise wait, with the waker stored
    //@spec             Poll::Pending => final(stream).pending_recv@.len() == 0 && old(stream).state.recv_open_spec() == Ok::<bool, Error>(true) && final(stream).recv_task is Some,
    //@spec         },
    //@loop 0     invariant
    //@loop 0         *self == (Recv { buffer: self.buffer, ..*old(self) }),
    //@loop 0         *stream == (Stream { pending_recv: stream.pending_recv, ..*old(stream) }),
    //@loop 0         0 <= k <= old(stream).pending_recv@.len() && stream.pending_recv@ == old(stream).pending_recv@.skip(k),
    //@loop 0         forall|j: int| 0 <= j < k ==> old(stream).pending_recv@[j] is InformationalHeaders,
    //@loop 0         forall|i: int| 0 <= i < old(stream).pending_recv@.len() && (forall|j: int| 0 <= j < i ==> old(stream).pending_recv@[j] is InformationalHeaders)
    //@loop 0             ==> (#[trigger] old(stream).pending_recv@[i] is InformationalHeaders) || (old(stream).pending_recv@[i] matches Event::Headers(PollMessage::Client(x))),
    //@end

    //@extract src/proto/streams/recv.rs Recv::poll_informational
    //@subst stream: &mut store::Ptr=>stream: &mut Stream
    //@subst_re Poll<Option<Result<Response<\(\)>, proto::Error>>>=>Poll<Option<Result<u8, Error>>>
    //@subst use super::peer::PollMessage::*;=>
    //@subst Event::Headers(Client(response)) => ==>> Event::Headers(PollMessage::Client(response)) =>
    //@subst .push_front(&mut self.buffer, Event::Headers(Client(response)));=>.push_front(&mut self.buffer, Event::Headers(PollMessage::Client(response)));
    //@subst Event::InformationalHeaders(Client(response)) => ==>> Event::InformationalHeaders(PollMessage::Client(response)) =>
    //@subst if stream.state.ensure_recv_open()? {=>let _o = stream.state.ensure_recv_open(); if let Err(e) = _o { return Poll::Ready(Some(Err(e))); } if _o.unwrap() {
    //@ret r
    //@spec     ensures
    //@spec         *final(self) == (Recv { buffer: final(self).buffer, ..*old(self) }),
    //@spec         // an interim (1xx) response at the front is handed over, once
    //@spec         (old(stream).pending_recv@.len() > 0 && old(stream).pending_recv@[0] matches Event::InformationalHeaders(PollMessage::Client(x))) ==>
    //@spec             final(stream).pending_recv@ == old(stream).pending_recv@.drop_first() && r is Ready,
    //@spec         // ANYTHING else at the front stays at the front: polling for interim responses never reorders the message
    //@spec         (old(stream).pending_recv@.len() > 0 && !(old(stream).pending_recv@[0] matches Event::InformationalHeaders(PollMessage::Client(x)))) ==>
    //@spec             final(stream).pending_recv@ =~= old(stream).pending_recv@,
    //@spec         // the final response at the front: no more interim responses
    //@spec         (old(stream).pending_recv@.len() > 0 && old(stream).pending_recv@[0] matches Event::Headers(PollMessage::Client(x))) ==>
    //@spec             r == Poll::<Option<Result<u8, Error>>>::Ready(None),
    //@spec         old(stream).pending_recv@.len() == 0 ==> final(stream).pending_recv@ == old(stream).pending_recv@,
    //@spec         r is Pending ==> final(stream).recv_task is Some,
    //@end

    // ---- teardown from outside (C07: when a stream or the connection ends, EVERY task waiting on the stream is woken —
    // the sender (capacity / reset), the receiver (response, body) and the push-promise waiter — and the state records
    // the reason; C17/C18: streams reset by the peer before the application accepted them are limited)
    //@extract src/proto/streams/recv.rs Recv::recv_eof
    //@spec     ensures
    //@spec         *final(self) == *old(self),
    //@spec         *final(stream) == (Stream { state: final(stream).state, send_task: None, recv_task: None, push_task: None, ..*old(stream) }),
    //@spec         final(stream).state.inner == old(stream).state.after_teardown(Error::Io),
    //@end

    //@extract src/proto/streams/recv.rs Recv::handle_error
    //@subst err: &proto::Error=>err: &Error
    //@spec     ensures
    //@spec         *final(self) == *old(self),
    //@spec         *final(stream) == (Stream { state: final(stream).state, send_task: None, recv_task: None, push_task: None, ..*old(stream) }),
    //@spec         final(stream).state.inner == old(stream).state.after_teardown(*err),
    //@end

    //@extract src/proto/streams/recv.rs Recv::recv_reset
    //@subst frame: frame::Reset=>frame: RReset
    //@ret r
    //@spec     ensures
    //@spec         *final(self) == *old(self),
    //@spec         // C18: more not-yet-accepted streams reset by the peer than the configured limit: connection error
    //@spec         // ENHANCE_YOUR_CALM, nothing else changes
    //@spec         (old(stream).is_pending_accept && old(counts).num_remote_reset_streams >= old(counts).max_remote_reset_streams) ==>
    //@spec             r == Err::<(), Error>(Error::GoAway(Reason::ENHANCE_YOUR_CALM, Initiator::Library)) && *final(stream) == *old(stream) && *final(counts) == *old(counts),
    //@spec         !(old(stream).is_pending_accept && old(counts).num_remote_reset_streams >= old(counts).max_remote_reset_streams) ==> {
    //@spec             &&& r is Ok
    //@spec             // counted exactly when it still sits in the accept queue
    //@spec             &&& *final(counts) == (Counts { num_remote_reset_streams: (if old(stream).is_pending_accept { old(counts).num_remote_reset_streams + 1 } else { old(counts).num_remote_reset_streams as int }) as usize, ..*old(counts) })
    //@spec             // C07: all three waiters are woken
    //@spec             &&& *final(stream) == (Stream { state: final(stream).state, send_task: None, recv_task: None, push_task: None, ..*old(stream) })
    //@spec             // C17: the peer's code is what the handles will report; a stream already closed with nothing queued keeps its cause
    //@spec             &&& ((old(stream).state.inner is Closed && !old(stream).is_pending_send) ==> final(stream).state.inner == old(stream).state.inner)
    //@spec             &&& (!(old(stream).state.inner is Closed && !old(stream).is_pending_send) ==> final(stream).state.inner == Inner::Closed(
    //@spec                     if old(stream).state.recv_ended() { Cause::ErrorAfterEndStream(Error::Reset(frame.stream_id, frame.error_code, Initiator::Remote)) }
    //@spec                     else { Cause::Error(Error::Reset(frame.stream_id, frame.error_code, Initiator::Remote)) }))
    //@spec         },
    //@end

    //@extract src/proto/streams/recv.rs Recv::clear_recv_buffer
    //@subst counts.release_data_frame(data.payload.len());=>counts.release_data_frame(data.payload_len);
    //@subst_re \.saturating_add\(data\.payload\.len\(\) as WindowSize\)=>.saturating_add(data.payload_len as WindowSize)
    //@subst .min(stream.in_flight_recv_data);=>; to_release = min_u32(to_release, stream.in_flight_recv_data);
    //@spec     requires
    //@spec         wf_conn(old(self).flow, old(self).in_flight_data as int),
    //@spec         old(stream).in_flight_recv_data <= old(self).in_flight_data,
    //@spec     ensures
    //@spec         // C03/C18: every buffered event is dropped; the bytes the application never saw are credited back to the
    //@spec         // CONNECTION exactly once and never more than is in flight for the stream
    //@spec         final(stream).pending_recv@.len() == 0,
    //@spec         *final(stream) == (Stream { pending_recv: final(stream).pending_recv, in_flight_recv_data: final(stream).in_flight_recv_data, ..*old(stream) }),
    //@spec         final(stream).in_flight_recv_data <= old(stream).in_flight_recv_data,
    //@spec         final(self).in_flight_data == old(self).in_flight_data - (old(stream).in_flight_recv_data - final(stream).in_flight_recv_data),
    //@spec         final(self).flow.a() == old(self).flow.a() + (old(stream).in_flight_recv_data - final(stream).in_flight_recv_data),
    //@spec         final(self).flow.w() == old(self).flow.w(),
    //@loop 0     invariant
    //@loop 0         *self == (Recv { buffer: self.buffer, ..*old(self) }),
    //@loop 0         *stream == (Stream { pending_recv: stream.pending_recv, ..*old(stream) }),
    //@loop 0         to_release <= stream.in_flight_recv_data,
    //@loop 0     ensures stream.pending_recv@.len() == 0,
    //@loop 0     decreases stream.pending_recv@.len(),
    //@end

    // C19/C03: when the last handle of a stream is dropped (drop_stream_ref, unit v_streams) everything it still holds of
    // the CONNECTION receive window goes back: nothing of a forgotten stream stays "in flight" for ever
    //@extract src/proto/streams/recv.rs Recv::release_closed_capacity
    //@subst stream: &mut store::Ptr=>stream: &mut Stream
    //@spec     requires
    //@spec         old(stream).ref_count == 0,                   // the real debug_assert_eq!
    //@spec         wf_conn(old(self).flow, old(self).in_flight_data as int),
    //@spec         old(stream).in_flight_recv_data <= old(self).in_flight_data,
    //@spec     ensures
    //@spec         final(stream).in_flight_recv_data == 0 && final(stream).pending_recv@.len() == 0,
    //@spec         final(self).in_flight_data == old(self).in_flight_data - old(stream).in_flight_recv_data,
    //@spec         final(self).flow.a() == old(self).flow.a() + old(stream).in_flight_recv_data,
    //@spec         final(self).flow.w() == old(self).flow.w(),
    //@spec         final(stream).ref_count == old(stream).ref_count && final(stream).state == old(stream).state && final(stream).key == old(stream).key,
    //@end

    //@extract src/proto/streams/recv.rs Recv::apply_local_settings
    //@attr #[verifier::exec_allows_no_decreases_clause]
    //@subst settings: &frame::Settings=>settings: &settings_frame::Settings
    //@subst store: &mut Store=>store: &mut RStore
    //@subst_re \) -> Result<\(\), proto::Error>=>) -> Result<(), Error>
    //@subst .map_err(proto::Error::library_go_away)=>.map_err_go_away()
    //@subst_re (?s)Ordering::Less => \{(.*?)store\.try_for_each\(\|mut stream\| \{ ==>> Ordering::Less => {\1 store.iter_begin(); let ghost self0 = *self; loop invariant *self == (Recv { pending_window_updates: self.pending_window_updates, ..self0 }), store.held() == old(store).held() + 0, sz_ok(dec) && dec as int == old_sz - target && self0.init_window_sz == target && target <= 0x7fff_ffff && old_sz <= 0x7fff_ffff && settings.initial_window_size == Some(target), { let mut stream = match store.iter_next(Ghost(old_sz as int)) { Some(s) => s, None => { break; } }; let ghost s0 = stream;
    //@subst_re Ok::<_, proto::Error>\(\(\)\)\s*\}\)\?;\s*\}\s*Ordering::Greater => \{(.*?)store\.try_for_each\(\|mut stream\| \{ ==>> proof { assert(stream.recv_flow.w() == s0.recv_flow.w() - dec && stream.recv_flow.a() == s0.recv_flow.a() - dec && stream.in_flight_recv_data == s0.in_flight_recv_data); assert(stream.state.recv_streaming() && update_due(stream.recv_flow) ==> stream.is_pending_window_update); } store.put_back(stream); } } Ordering::Greater => {\1 store.iter_begin(); let ghost self0 = *self; loop invariant *self == self0, store.held() == old(store).held() + 0, sz_ok(inc) && inc as int == target - old_sz && self0.init_window_sz == target && target <= 0x7fff_ffff && old_sz <= 0x7fff_ffff && settings.initial_window_size == Some(target), { let mut stream = match store.iter_next(Ghost(old_sz as int)) { Some(s) => s, None => { break; } }; let ghost s0 = stream;
    //@subst_re Ok::<_, proto::Error>\(\(\)\)\s*\}\)\?;=>proof { assert(stream.recv_flow.w() == s0.recv_flow.w() + inc && stream.recv_flow.a() == s0.recv_flow.a() + inc && stream.in_flight_recv_data == s0.in_flight_recv_data); } store.put_back(stream); }
    //@ret r
    //@spec     requires
    //@spec         old(self).init_window_sz <= 0x7fff_ffff,
    //@spec         settings.initial_window_size is Some ==> settings.initial_window_size->Some_0 <= 0x7fff_ffff,
    //@spec     ensures
    //@spec         // C14: our acknowledged SETTINGS govern new streams from now on
    //@spec         settings.initial_window_size is Some ==> final(self).init_window_sz == settings.initial_window_size->Some_0,
    //@spec         settings.initial_window_size is None ==> *final(self) == (Recv { is_extended_connect_protocol_enabled: final(self).is_extended_connect_protocol_enabled, ..*old(self) }),
    //@spec         // every visited stream is handed back (on the error path the connection dies: not claimed there)
    //@spec         r is Ok ==> final(store).held() == old(store).held(),
    //@spec         final(self).flow == old(self).flow && final(self).in_flight_data == old(self).in_flight_data,
    //@end
}

/// frame::PushPromise as Recv sees it: ids, the over-size mark of the decoded block, the rest opaque
#[derive(Clone, Copy, Debug)]
pub struct RPushPromise { pub stream_id: StreamId, pub promised_id: StreamId, pub over_size: bool, pub tag: u8 }
impl RPushPromise {
    pub fn promised_id(&self) -> (r: StreamId) ensures r == self.promised_id { self.promised_id }
    pub fn stream_id(&self) -> (r: StreamId) ensures r == self.stream_id { self.stream_id }
    pub fn is_over_size(&self) -> (r: bool) ensures r == self.over_size { self.over_size }
}
/// `frame.into_parts()` + server::Peer::convert_poll_message(pseudo, fields, promised_id): the promised request, or the
/// stream error (on the promised id) for a malformed one — Kani unit server_convert_poll_message_shapes
pub uninterp spec fn pp_converted(frame: RPushPromise) -> Result<u8, Error>;
#[verifier::external_body]
pub fn pp_convert(frame: RPushPromise) -> (r: Result<u8, Error>)
    ensures r == pp_converted(frame),
{ unimplemented!() }
/// frame::PushPromise::validate_request: safe + cacheable method, no non-zero content-length (RFC 9113 8.4)
pub uninterp spec fn pp_valid(req: u8) -> bool;
#[verifier::external_body]
pub fn pp_validate(req: u8) -> (r: Result<(), u8>)
    ensures r is Ok == pp_valid(req),
{ unimplemented!() }

/// what becomes of a PUSH_PROMISE on an idle promised stream
pub open spec fn pp_outcome(frame: RPushPromise) -> Result<u8, Error> {
    if frame.over_size { Err(Error::Reset(frame.promised_id, Reason::PROTOCOL_ERROR, Initiator::Library)) }
    else {
        match pp_converted(frame) {
            Err(e) => Err(e),
            Ok(req) => if pp_valid(req) { Ok(req) } else { Err(Error::Reset(frame.promised_id, Reason::PROTOCOL_ERROR, Initiator::Library)) },
        }
    }
}

/// A received HEADERS frame that opens or answers a stream, reduced to what Recv::recv_headers looks at: END_STREAM, the
/// over-size mark of the decoded block, the content-length field (if any: an opaque value whose parse result is a spec
/// function — frame::parse_u64 is the Kani unit frame_parse_u64*), the :status (if any), whether :protocol is present; the
/// rest is the opaque `tag`.
#[derive(Clone, Copy, Debug)]
pub struct RHeaders { pub stream_id: StreamId, pub eos: bool, pub over_size: bool, pub content_length: Option<u8>, pub status: Option<u16>, pub protocol: bool, pub tag: u8 }
#[derive(Clone, Copy, Debug)]
pub struct PseudoM { pub status: Option<u16>, pub protocol: Option<u8> }
pub open spec fn informational(status: Option<u16>) -> bool { status matches Some(c) && 100 <= c < 200 }
impl PseudoM {
    /// Pseudo::is_informational: `self.status.map_or(false, |status| status.is_informational())`
    pub fn is_informational(&self) -> (r: bool) ensures r == informational(self.status) { match self.status { Some(c) => 100 <= c && c < 200, None => false } }
}
impl RHeaders {
    pub fn stream_id(&self) -> (r: StreamId) ensures r == self.stream_id { self.stream_id }
    pub fn is_end_stream(&self) -> (r: bool) ensures r == self.eos { self.eos }
    pub fn is_over_size(&self) -> (r: bool) ensures r == self.over_size { self.over_size }
    /// Headers::is_informational
    pub fn is_informational(&self) -> (r: bool) ensures r == informational(self.status) { match self.status { Some(c) => 100 <= c && c < 200, None => false } }
    /// `frame.fields().get(header::CONTENT_LENGTH)`
    pub fn content_length_field(&self) -> (r: Option<u8>) ensures r == self.content_length { self.content_length }
    /// `frame.pseudo().status`
    pub fn pseudo_status(&self) -> (r: Option<u16>) ensures r == self.status { self.status }
    /// `frame.into_parts()`, pseudo part
    pub fn pseudo_view(&self) -> (r: PseudoM) ensures r.status == self.status && (r.protocol is Some) == self.protocol
    { PseudoM { status: self.status, protocol: if self.protocol { Some(0) } else { None } } }
    /// the 431 answer to an over-size request: `Headers::new(id, Pseudo::response(431), HeaderMap::new())` + `set_end_stream()`
    pub fn response_431(id: StreamId) -> (r: RHeaders)
        ensures r == (RHeaders { stream_id: id, eos: true, over_size: false, content_length: None, status: Some(431), protocol: false, tag: 0 })
    { RHeaders { stream_id: id, eos: true, over_size: false, content_length: None, status: Some(431), protocol: false, tag: 0 } }
}
/// frame::parse_u64(value.as_bytes()) on the opaque content-length value
pub uninterp spec fn cl_parsed(v: u8) -> Option<u64>;
#[verifier::external_body]
pub fn parse_u64_model(v: u8) -> (r: Result<u64, ()>)
    ensures match cl_parsed(v) { Some(n) => r == Ok::<u64, ()>(n), None => r is Err },
{ unimplemented!() }
/// peer::Dyn::convert_poll_message(pseudo, fields, stream_id) (client.rs / server.rs: Kani units *_convert_poll_message_*):
/// the message handed to the application, or a stream error for a malformed one
pub uninterp spec fn converted(server: bool, frame: RHeaders) -> Result<PollMessage, Error>;
#[verifier::external_body]
pub fn convert_poll_message_model(peer: PeerDyn, frame: RHeaders) -> (r: Result<PollMessage, Error>)
    ensures r == converted(peer matches PeerDyn::Server, frame),
{ unimplemented!() }

pub enum RecvHeaderBlockError { Oversize(Option<RHeaders>), State(Error) }

impl ContentLength {
    //@extract src/proto/streams/stream.rs ContentLength::is_head
    //@ret r
    //@spec     ensures r == (*self is Head),
    //@end
}

impl PeerDyn {
    pub fn is_server(&self) -> (r: bool) ensures r == (*self matches PeerDyn::Server) { match self { PeerDyn::Server => true, PeerDyn::Client => false } }
}

impl State {
    /// RFC 9113 5.1, receiving HEADERS that start or answer a message: the successor state, None = illegal
    pub open spec fn after_recv_open(self, eos: bool, info: bool) -> Option<Inner> {
        match self.inner {
            Inner::Idle => Some(if eos { Inner::HalfClosedRemote(Peer::AwaitingHeaders) } else { Inner::Open { local: Peer::AwaitingHeaders, remote: if info { Peer::AwaitingHeaders } else { Peer::Streaming } } }),
            Inner::ReservedRemote => Some(if eos { Inner::Closed(Cause::EndStream) } else if info { Inner::ReservedRemote } else { Inner::HalfClosedLocal(Peer::Streaming) }),
            Inner::Open { local, remote: Peer::AwaitingHeaders } => Some(if eos { Inner::HalfClosedRemote(local) } else { Inner::Open { local, remote: if info { Peer::AwaitingHeaders } else { Peer::Streaming } } }),
            Inner::HalfClosedLocal(Peer::AwaitingHeaders) => Some(if eos { Inner::Closed(Cause::EndStream) } else if info { Inner::HalfClosedLocal(Peer::AwaitingHeaders) } else { Inner::HalfClosedLocal(Peer::Streaming) }),
            _ => None,
        }
    }

    //@extract src/proto/streams/state.rs State::recv_open
    //@subst frame: &frame::Headers=>frame: &RHeaders
    //@subst ref state => { ==>> _ => {
    //@ret r
    //@spec     ensures
    //@spec         old(self).after_recv_open(frame.eos, informational(frame.status)) matches Some(n) ==> final(self).inner == n
    //@spec             && r == Ok::<bool, Error>((old(self).inner is Idle) || (old(self).inner is ReservedRemote)),
    //@spec         old(self).after_recv_open(frame.eos, informational(frame.status)) is None ==> r == Err::<bool, Error>(Error::GoAway(Reason::PROTOCOL_ERROR, Initiator::Library)) && final(self).inner == old(self).inner,
    //@end
}

/// HEADERS starting a message on a stream that was idle or reserved(remote): the stream becomes active now
pub open spec fn becomes_active(s: Stream) -> bool { (s.state.inner is Idle) || (s.state.inner is ReservedRemote) }

pub enum HOut { Illegal, Refused, Malformed, Oversize(bool), ConvertFailed(Error), Delivered(Event) }

/// what Recv::recv_headers must make of a frame — the decision list of RFC 9113 8.1 / 8.1.1 / 8.3 / 8.5 / 5.1.2 / 6.5.2 in
/// the order h2 applies it
pub open spec fn recv_headers_outcome(me: Recv, s: Stream, c: Counts, f: RHeaders) -> HOut {
    let info = informational(f.status);
    if s.state.after_recv_open(f.eos, info) is None { HOut::Illegal }
    else if becomes_active(s) && !s.is_counted && !c.recv_slot_free() { HOut::Refused }
    else if !(s.content_length is Head) && (f.content_length matches Some(v) && cl_parsed(v) is None) { HOut::Malformed }
    else if !(s.content_length is Head) && (f.content_length matches Some(v) && (cl_parsed(v) matches Some(n) && n > 0 && f.eos && !(f.status == Some(204u16) || f.status == Some(304u16)))) { HOut::Malformed }
    else if f.over_size { HOut::Oversize(c.is_server_spec() && becomes_active(s)) }
    else if f.protocol && c.is_server_spec() && !me.is_extended_connect_protocol_enabled { HOut::Malformed }
    else if f.status is Some && c.is_server_spec() { HOut::Malformed }
    else {
        match converted(c.is_server_spec(), f) {
            Err(e) => HOut::ConvertFailed(e),
            Ok(m) => HOut::Delivered(if info { Event::InformationalHeaders(m) } else { Event::Headers(m) }),
        }
    }
}

// ---------------------------------------------------------------- streams.rs: the dispatch layer above Recv

#[derive(Clone, Copy, Debug)]
pub enum PeerDyn { Client, Server }

pub struct SendBuf { pub tag: u8 }

pub struct Actions { pub recv: Recv, pub tag: u8 }

impl Actions {
    /// Actions::may_have_forgotten_stream: id rules, verified by the Kani unit inner_recv_data_unknown_stream
    #[verifier::external_body]
    pub fn may_have_forgotten_stream(&self, peer: PeerDyn, id: StreamId) -> (r: bool) { unimplemented!() }

    /// Actions::reset_on_recv_stream_err: a stream error becomes RST_STREAM (Send::send_reset: unit v_send) or, over the
    /// quota, a connection error; anything else passes through.  It does not touch the receive windows or the budget.
    #[verifier::external_body]
    pub fn reset_on_recv_stream_err(&mut self, buffer: &mut SendBuf, stream: &mut Stream, counts: &mut Counts, res: Result<(), Error>) -> (r: Result<(), Error>)
        ensures
            final(self).recv == old(self).recv,
            final(counts).charged@ == old(counts).charged@,
            !(res matches Err(Error::Reset(_, _, _))) ==> r == res,
            res matches Err(Error::Reset(_, _, _)) ==> r is Ok || r == Err::<(), Error>(Error::GoAway(Reason::ENHANCE_YOUR_CALM, Initiator::Library)),
    { unimplemented!() }
}

/// streams.rs `Inner` (named SInner here: state.inc already has the state enum `Inner`)
pub struct SInner { pub counts: Counts, pub actions: Actions, pub store: RStore }

impl SInner {
    // Inner::recv_data — what the connection does with a DATA frame (C03, C09, C18).  The unknown-stream arms are also
    // the Kani unit inner_recv_data_unknown_stream; here the whole function, the known-stream arm included:
    //@extract src/proto/streams/streams.rs Inner::recv_data
    //@none_args Waker
    //@subst_re fn recv_data<B>\(\s*&mut self,\s*peer: peer::Dyn,\s*send_buffer: &SendBuffer<B>,\s*frame: frame::Data,\s*\) -> Result<\(\), Error>=>fn recv_data(&mut self, peer: PeerDyn, send_buffer: &mut SendBuf, frame: RData) -> Result<(), Error>
    //@subst self.store.find_mut(&id)=>self.store.find_mut(&id, Ghost(self.actions.recv.in_flight_data as int))
    //@subst id > self.actions.recv.max_stream_id()=>id.0 > self.actions.recv.max_stream_id().0
    //@subst super::MAX_WINDOW_SIZE=>MAX_WINDOW_SIZE
    //@subst_re let actions = &mut self\.actions;\s*let mut send_buffer = send_buffer\.inner\.lock\(\)\.unwrap\(\);\s*let send_buffer = &mut \*send_buffer;=>
    //@subst_re self\.counts\.transition\(stream, \|counts, stream\| \{ ==>> { let mut stream = stream; let is_pending_reset = stream.is_pending_reset_expiration(); let res_final = {
    //@subst actions.recv.recv_data(frame, stream)=>self.actions.recv.recv_data(frame, &mut stream)
    //@subst_re res = counts\.record_data_frame\((\w+)\)\.map_err\(\|_\| \{.*?\}\);=>res = match self.counts.record_data_frame(\1) { Ok(()) => Ok(()), Err(_) => Err(Error::library_go_away_data(Reason::ENHANCE_YOUR_CALM, "too_many_data_frames")) };
    //@subst_re if let Err\(Error::Reset\(\.\.\)\) = res \{\s*actions\s*\.recv\s*\.release_connection_capacity\(=>if let Err(Error::Reset(_, _, _)) = res { self.actions.recv.release_connection_capacity(
    //@subst actions.reset_on_recv_stream_err(send_buffer, stream, counts, res)=>self.actions.reset_on_recv_stream_err(send_buffer, &mut stream, &mut self.counts, res)
    //@subst_re \}\)(\s*\}\s*)$=>}; self.counts.transition_after_any(stream, is_pending_reset, &mut self.store); res_final }\1
    //@ret r
    //@spec     requires
    //@spec         frame.payload_len <= 0xff_ffff,      // FramedRead: max_frame_size <= 2^24-1
    //@spec         wf_conn(old(self).actions.recv.flow, old(self).actions.recv.in_flight_data as int),
    //@spec     ensures
    //@spec         // every Ptr taken from the store is handed back
    //@spec         final(self).store.held() == old(self).store.held(),
    //@spec         // C03 (I-recv-pool, connection level): on EVERY exit — delivered, discarded for an unknown or reset stream,
    //@spec         // rejected with a stream error (credited back exactly once), rejected with a connection error — credit is
    //@spec         // neither created nor lost
    //@spec         final(self).actions.recv.flow.a() + final(self).actions.recv.in_flight_data == old(self).actions.recv.flow.a() + old(self).actions.recv.in_flight_data,
    //@spec         wf_conn(final(self).actions.recv.flow, final(self).actions.recv.in_flight_data as int) || r is Err,
    //@spec         // C18: the DATA-frame overhead budget is charged at most once, with exactly the PAYLOAD length (padding is not
    //@spec         // payload: a peer must not be able to buy budget with padding), and never for the final frame of a stream
    //@spec         final(self).counts.charged@ == old(self).counts.charged@ || final(self).counts.charged@ == old(self).counts.charged@.push(frame.payload_len),
    //@spec         frame.eos ==> final(self).counts.charged@ == old(self).counts.charged@,
    //@end
}

/// OpaqueStreamRef, reduced to its key
pub struct OpaqueM { pub key: Key }

impl OpaqueM {
    // C18 / C01: the application takes the next DATA chunk.  The DATA-frame overhead budget is credited back exactly when the
    // chunk had been charged when it was received (`is_budgeted`: every frame except the final one of a stream), with exactly
    // its payload length — a peer must not be able to refill the budget with frames that never cost anything.  The chunk
    // handed over is the front of the queue (Recv::poll_data above).
    // Listed substitutions: the Mutex lock preamble is removed (`me` becomes a parameter); `Poll::map(|result| ..)` with its
    // capturing closure is written out as the match that Poll::map is; the payload is its length.
    //@extract src/proto/streams/streams.rs OpaqueStreamRef::poll_data
    //@subst_re pub fn poll_data\(&mut self, cx: &Context\) -> Poll<Option<Result<Bytes, proto::Error>>>=>pub fn poll_data(&mut self, cx: &Context, me: &mut SInner) -> Poll<Option<Result<usize, Error>>>
    //@subst_re let mut me = self\.inner\.lock\(\)\.unwrap\(\);\s*let me = &mut \*me;=>
    //@subst let mut stream = me.store.resolve(self.key);=>let mut stream = me.store.resolve_key(self.key); let ghost q0 = stream.pending_recv@;
    //@subst_re me\.actions\s*\.recv\s*\.poll_data\(cx, &mut stream\)\s*\.map\(\|result\| match result \{ ==>> let _p = me.actions.recv.poll_data(cx, &mut stream); me.store.put_back_any(stream); match _p { Poll::Pending => Poll::Pending, Poll::Ready(result) => Poll::Ready(match result {
    //@subst me.counts.release_data_frame(data.payload.len());=>me.counts.release_data_frame(data.payload_len);
    //@subst Some(Ok(data.payload))=>Some(Ok(data.payload_len))
    //@subst_re None => None,\s*\}\)(\s*\}\s*)$ ==>> None => None, }) }\1
    //@ret r
    //@spec     ensures
    //@spec         final(me).store.held() == old(me).store.held(),
    //@spec         final(me).counts.charged@ == old(me).counts.charged@,
    //@spec         ({ let q = old(me).store.spec_get(old(self).key).pending_recv@;
    //@spec            if q.len() > 0 && q[0] is Data {
    //@spec                let d = q[0]->Data_0;
    //@spec                &&& r == Poll::<Option<Result<usize, Error>>>::Ready(Some(Ok(d.payload_len)))
    //@spec                &&& final(me).counts.released@ == (if d.is_budgeted { old(me).counts.released@.push(d.payload_len) } else { old(me).counts.released@ })
    //@spec            } else {
    //@spec                final(me).counts.released@ == old(me).counts.released@
    //@spec            } }),
    //@end
}

proof fn vacuity_probe_recv()
    ensures false,
{
}

} // verus!
