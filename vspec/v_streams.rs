// @unit id=v_streams props=C19,C17,C07,C08 tier=quick
// Verus contracts on the REAL bodies of src/proto/streams/streams.rs `drop_stream_ref` and `maybe_cancel` (extracted on
// every run): what happens when the application drops a handle on a stream (C19 "once the application has dropped its
// handles the endpoint retains nothing", C17 implicit reset of a stream nobody listens to any more).
//
//   * the handle count of the stream and of the connection go down by exactly one (never below zero: `ref_dec`'s assert
//     is an obligation under the precondition that the dropped handle was counted);
//   * a stream that lost its LAST handle while not closed is cancelled (RST_STREAM scheduled with CANCEL, or NO_ERROR
//     for a server that already answered) and remembered for reset expiration;
//   * with the last handle gone, its receive capacity goes back to the connection and EVERY pushed stream that was
//     promised on it and never claimed is cancelled too — the whole queue, not just its head — and each of them, like
//     the stream itself, goes through Counts::transition_after (which is where a released record is removed);
//   * every Ptr is handed back; a closed stream without handles wakes the connection task so that it can finish.
//
// Modelled by hand: the `Mutex<Inner>` lock preamble is removed (the function body runs inside the critical section;
// interleavings are C20, not applicable) — listed substitution of the signature `(inner: &Mutex<Inner>, key)` =>
// `(me: &mut SInner, key)`; `actions`/`counts` closure parameters are the fields `me.actions` / `me.counts` (listed);
// the two `counts.transition(ptr, |..| BODY)` frames become `BODY; transition_after(ptr)` as everywhere else.
// ASSUMED contracts (each verified elsewhere): Send::schedule_implicit_reset (unit v_send), Recv::enqueue_reset_expiration
// (Kani recv_enqueue_reset_expiration), Recv::release_closed_capacity (= release_connection_capacity + clear_recv_buffer,
// unit v_recv), Counts::transition_after (Kani counts_transition_after), Queue::take/pop (list model).
use vstd::prelude::*;
use vstd::std_specs::cmp::*;
use std::cmp::{self, Ordering};
use std::mem;

verus! {

//@include flow.inc

//@include frames.inc

//@include state.inc

//@include stream_send.inc

#[derive(PartialEq, Eq, Structural, Clone, Copy, Debug)]
pub enum PeerDyn { Client, Server }
impl PeerDyn {
    pub fn is_server(&self) -> (r: bool) ensures r == (*self == PeerDyn::Server) { match self { PeerDyn::Server => true, PeerDyn::Client => false } }
}

/// The store, owned-stream model (see inc/prioritize.inc): `resolve`/`pop` hand a stream out, transition_after hands it back.
pub struct SStore { pub out: Ghost<int> }
impl SStore {
    pub open spec fn held(self) -> int { self.out@ }

    /// the record stored under `key`
    pub uninterp spec fn spec_get(self, key: Key) -> Stream;

    /// Store::resolve(key) (panics on a dangling key: the key guard; C19 "never reached through a stale reference" is
    /// the Kani unit on Store::index).  The handle being dropped was counted: ref_count > 0.
    #[verifier::external_body]
    pub fn resolve(&mut self, key: Key) -> (s: Stream)
        ensures s == old(self).spec_get(key) && s.key == key && s.ref_count > 0 && final(self).held() == old(self).held() + 1,
    { unimplemented!() }
}

impl QueuePP {
    /// Queue::take: the whole list moves out, the field is left empty
    #[verifier::external_body]
    pub fn take(&mut self) -> (r: QueuePP)
        ensures r.ghost_len == old(self).ghost_len && final(self).ghost_len == 0,
    { unimplemented!() }

    #[verifier::external_body]
    pub fn pop(&mut self, store: &mut SStore) -> (r: Option<Stream>)
        ensures
            match r {
                Some(s) => old(self).ghost_len > 0 && final(self).ghost_len == old(self).ghost_len - 1 && final(store).held() == old(store).held() + 1,
                None => old(self).ghost_len == 0 && final(self).ghost_len == 0 && final(store).held() == old(store).held(),
            },
    { unimplemented!() }
}

pub struct Counts {
    pub peer: PeerDyn,
    /// ghost: number of Counts::transition_after calls so far (each consumes one Ptr)
    pub transitions: Ghost<int>,
    /// ghost: number of streams handed to Send::schedule_implicit_reset so far
    pub cancelled: Ghost<int>,
}
impl Counts {
    pub fn peer(&self) -> (r: PeerDyn) ensures r == self.peer { self.peer }

    #[verifier::external_body]
    pub fn transition_after(&mut self, stream: Stream, is_reset_counted: bool, store: &mut SStore)
        ensures
            final(store).held() == old(store).held() - 1,
            *final(self) == (Counts { transitions: Ghost(old(self).transitions@ + 1), ..*old(self) }),
    { unimplemented!() }
}

pub struct Send { pub tag: u8 }
impl Send {
    /// Send::schedule_implicit_reset (verified in unit v_send): a stream that is not closed gets a reset scheduled.
    #[verifier::external_body]
    pub fn schedule_implicit_reset(&mut self, stream: &mut Stream, reason: Reason, counts: &mut Counts, task: &mut Option<Waker>)
        requires !old(stream).state.closed(),       // v_send: `if stream.state.is_closed() { return }` — callers only cancel live streams
        ensures
            final(stream).ref_count == old(stream).ref_count && final(stream).key == old(stream).key
                && final(stream).pending_push_promises == old(stream).pending_push_promises,
            final(stream).state.closed(),
            *final(task) is None || *final(task) == *old(task),      // wakers are only ever taken (woken), never installed, on this path
            *final(counts) == (Counts { cancelled: Ghost(old(counts).cancelled@ + 1), ..*old(counts) }),
    { unimplemented!() }
}

pub struct Recv { pub tag: u8 }
impl Recv {
    #[verifier::external_body]
    pub fn enqueue_reset_expiration(&mut self, stream: &mut Stream, counts: &mut Counts)
        ensures final(stream).ref_count == old(stream).ref_count && final(stream).key == old(stream).key && final(stream).state == old(stream).state
            && final(stream).pending_push_promises == old(stream).pending_push_promises, *final(counts) == *old(counts),
    { unimplemented!() }

    #[verifier::external_body]
    pub fn release_closed_capacity(&mut self, stream: &mut Stream, task: &mut Option<Waker>, counts: &mut Counts)
        requires old(stream).ref_count == 0,         // the real debug_assert_eq!
        ensures final(stream).ref_count == old(stream).ref_count && final(stream).key == old(stream).key && final(stream).state == old(stream).state
            && final(stream).pending_push_promises == old(stream).pending_push_promises && final(stream).in_flight_recv_data == 0, *final(counts) == *old(counts),
            *final(task) is None || *final(task) == *old(task),
    { unimplemented!() }
}

pub struct Actions { pub recv: Recv, pub send: Send, pub task: Option<Waker> }

pub struct SInner { pub counts: Counts, pub actions: Actions, pub store: SStore, pub refs: usize }

//@extract src/proto/streams/streams.rs maybe_cancel
//@subst stream: &mut store::Ptr=>stream: &mut Stream
//@spec     ensures
//@spec         final(stream).ref_count == old(stream).ref_count && final(stream).key == old(stream).key,
//@spec         final(stream).pending_push_promises == old(stream).pending_push_promises,
//@spec         // C17/C19: nobody listens any more and the stream is still live => it is cancelled, once
//@spec         (old(stream).ref_count == 0 && !old(stream).state.closed()) ==> final(stream).state.closed() && final(counts).cancelled@ == old(counts).cancelled@ + 1,
//@spec         !(old(stream).ref_count == 0 && !old(stream).state.closed()) ==> *final(stream) == *old(stream) && *final(counts) == *old(counts),
//@spec         final(counts).transitions@ == old(counts).transitions@ && final(counts).peer == old(counts).peer,
//@spec         final(actions).task is None || final(actions).task == old(actions).task,
//@end

//@extract src/proto/streams/streams.rs drop_stream_ref
//@attr #[verifier::exec_allows_no_decreases_clause]
//@subst fn drop_stream_ref(inner: &Mutex<Inner>, key: store::Key)=>fn drop_stream_ref(me: &mut SInner, key: Key)
//@subst_re let mut me = match inner\.lock\(\) \{.*?\};\s*let me = &mut \*me; ==>> let ghost s_in = me.store.spec_get(key);
//@subst let actions = &mut me.actions;=>let ghost st0 = stream; let ghost ppp0 = stream.pending_push_promises.ghost_len as int;
//@subst if let Some(task) = actions.task.take()=>if let Some(task) = me.actions.task.take()
//@subst_re me\.counts\.transition\(stream, \|counts, stream\| \{ ==>> { let mut stream = stream; let is_pending_reset = stream.is_pending_reset_expiration(); {
//@subst_re maybe_cancel\(stream, actions, counts\);\s*if stream\.ref_count == 0 ==>> maybe_cancel(&mut stream, &mut me.actions, &mut me.counts); if stream.ref_count == 0
//@subst_re actions\s*\.recv\s*\.release_closed_capacity\(stream, &mut actions\.task, counts\);=>me.actions.recv.release_closed_capacity(&mut stream, &mut me.actions.task, &mut me.counts);
//@after let mut ppp = stream.pending_push_promises.take();=>let ghost t1 = me.counts.transitions@; let ghost ppp1 = ppp.ghost_len as int;
//@subst ppp.pop(stream.store_mut())=>ppp.pop(&mut me.store)
//@subst_re counts\.transition\(promise, \|counts, stream\| \{\s*maybe_cancel\(stream, actions, counts\);\s*\}\); ==>> { let mut promise = promise; let is_pending_reset_p = promise.is_pending_reset_expiration(); maybe_cancel(&mut promise, &mut me.actions, &mut me.counts); me.counts.transition_after(promise, is_pending_reset_p, &mut me.store); }
//@subst_re \}\);(\s*\}\s*)$ ==>> } me.counts.transition_after(stream, is_pending_reset, &mut me.store); }\1
//@spec     requires old(me).refs > 0,        // the connection-wide handle count includes the handle being dropped
//@spec     ensures
//@spec         final(me).refs == old(me).refs - 1,
//@spec         // every Ptr (the stream, every popped promise) went back through Counts::transition_after
//@spec         final(me).store.held() == old(me).store.held(),
//@spec         // C19: the stream itself, and — when this was its LAST handle — every unclaimed pushed stream promised on it
//@spec         ({ let s = old(me).store.spec_get(key);
//@spec            final(me).counts.transitions@ == old(me).counts.transitions@ + 1 + (if s.ref_count == 1 { s.pending_push_promises.ghost_len as int } else { 0 }) }),
//@spec         // C17: the stream is cancelled iff this was the last handle and it is still live (the promises are cancelled on top)
//@spec         ({ let s = old(me).store.spec_get(key);
//@spec            (s.ref_count == 1 && !s.state.closed()) ==> final(me).counts.cancelled@ >= old(me).counts.cancelled@ + 1 }),
//@spec         ({ let s = old(me).store.spec_get(key);
//@spec            s.ref_count > 1 ==> final(me).counts.cancelled@ == old(me).counts.cancelled@ }),
//@spec         // C07/C19: a closed stream that just lost its last handle wakes the connection task (it may be the last thing it waits for)
//@spec         ({ let s = old(me).store.spec_get(key);
//@spec            (s.ref_count == 1 && s.state.closed() && s.pending_send@.len() == 0 && s.buffered_send_data == 0) ==> final(me).actions.task is None }),
//@loop_opt 0     invariant
//@loop_opt 0         me.store.held() == old(me).store.held() + 1,
//@loop_opt 0         me.refs == old(me).refs - 1,
//@loop_opt 0         stream.ref_count == 0,
//@loop_opt 0         me.counts.transitions@ + ppp.ghost_len == t1 + ppp1,
//@loop_opt 0         me.counts.cancelled@ >= old(me).counts.cancelled@ + (if !s_in.state.closed() { 1int } else { 0int }),
//@loop_opt 0         s_in.state.closed() && s_in.pending_send@.len() == 0 && s_in.buffered_send_data == 0 ==> me.actions.task is None,
//@loop_opt 0     ensures
//@loop_opt 0         ppp.ghost_len == 0,                          // C19: the WHOLE queue of unclaimed promises is drained
//@end

proof fn vacuity_probe_streams()
    ensures false,
{
}

} // verus!
