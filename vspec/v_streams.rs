// @unit id=v_streams props=C19,C17,C07,C15,C09,C02,C03,C04,C05,C08,C13,C18 tier=quick
// Verus contracts on the REAL bodies of src/proto/streams/streams.rs `drop_stream_ref` and `maybe_cancel` (extracted on
// every run): what happens when the application drops a handle on a stream (C19 "once the application has dropped its
// handles the endpoint retains nothing", C17 implicit reset of a stream nobody listens to any more).
//
//   * the handle count of the stream and of the connection go down by exactly one (never below zero: `ref_dec`'s assert
//     is an obligation under the precondition that the dropped handle was counted);
//   * a stream that lost its LAST handle while not closed is cancelled (RST_STREAM scheduled with CANCEL, or NO_ERROR
//     for a server that already answered) and remembered for reset expiration;
//   * with the last handle gone, its receive capacity goes back to the connection and EVERY pushed stream that was
//     promised on it and never claimed is cancelled too — the whole queue, not just its head — and each of them, like
//     the stream itself, goes through Counts::transition_after (which is where a released record is removed);
//   * every Ptr is handed back; a closed stream without handles wakes the connection task so that it can finish.
//
// Modelled by hand: the `Mutex<Inner>` lock preamble is removed (the function body runs inside the critical section;
// interleavings are C20, not applicable) — listed substitution of the signature `(inner: &Mutex<Inner>, key)` =>
// `(me: &mut SInner, key)`; `actions`/`counts` closure parameters are the fields `me.actions` / `me.counts` (listed);
// the two `counts.transition(ptr, |..| BODY)` frames become `BODY; transition_after(ptr)` as everywhere else.
// ASSUMED contracts (each verified elsewhere): Send::schedule_implicit_reset (unit v_send), Recv::enqueue_reset_expiration
// (Kani recv_enqueue_reset_expiration), Recv::release_closed_capacity (= release_connection_capacity + clear_recv_buffer,
// unit v_recv), Counts::transition_after (Kani counts_transition_after), Queue::take/pop (list model).
//
// Further down, the receive DISPATCH layer of streams.rs, each with its own comment: `Inner::{recv_go_away, handle_error,
// recv_eof, recv_reset, recv_window_update, recv_headers, recv_push_promise, send_reset}`, `Actions::{send_reset,
// reset_on_recv_stream_err}` (C09 containment, C18 quota of provoked resets), `StreamRef::send_push_promise`,
// `Streams::send_request`, `OpaqueStreamRef::new` — all four `Stream::new` sites that create a usable stream are under the
// new-stream window obligation of `SStore::insert_new` (C02 / C03).  A closure passed to `Counts::transition` that contains
// an early `return` is LIFTED into a method of its own by a second extraction of the same function (everything outside
// the closure body is cut away by one regular expression): recv_headers, recv_push_promise, Actions::send_reset.
use vstd::prelude::*;
use vstd::std_specs::cmp::*;
use std::cmp::{self, Ordering};
use std::mem;

verus! {

//@include flow.inc

//@include frames.inc

//@include state.inc

//@include stream_send.inc

// `#[derive(PartialOrd)]` on `struct StreamId(u32)` (R5: written out)
impl PartialOrdSpecImpl for StreamId {
    open spec fn obeys_partial_cmp_spec() -> bool { true }
    open spec fn partial_cmp_spec(&self, other: &StreamId) -> Option<core::cmp::Ordering> {
        if self.0 < other.0 { Some(core::cmp::Ordering::Less) }
        else if self.0 == other.0 { Some(core::cmp::Ordering::Equal) }
        else { Some(core::cmp::Ordering::Greater) }
    }
}
impl PartialOrd for StreamId {
    fn partial_cmp(&self, other: &StreamId) -> Option<core::cmp::Ordering> { self.0.partial_cmp(&other.0) }
}

#[derive(PartialEq, Eq, Structural, Clone, Copy, Debug)]
pub enum PeerDyn { Client, Server }
impl PeerDyn {
    pub fn is_server(&self) -> (r: bool) ensures r == (*self == PeerDyn::Server) { match self { PeerDyn::Server => true, PeerDyn::Client => false } }
}

/// The store, owned-stream model (see inc/prioritize.inc): `resolve`/`pop` hand a stream out, transition_after hands it back.
/// `passes`: ghost count of COMPLETED iterations over all stored streams (Store::for_each / try_for_each ran to the end)
pub struct SStore { pub out: Ghost<int>, pub passes: Ghost<int> }
impl SStore {
    pub open spec fn held(self) -> int { self.out@ }

    /// the record stored under `key`
    pub uninterp spec fn spec_get(self, key: Key) -> Stream;

    /// Store::resolve(key) (panics on a dangling key: the key guard; C19 "never reached through a stale reference" is
    /// the Kani unit on Store::index).  The handle being dropped was counted: ref_count > 0.
    #[verifier::external_body]
    pub fn resolve(&mut self, key: Key) -> (s: Stream)
        ensures s == old(self).spec_get(key) && s.key == key && s.ref_count > 0 && final(self).held() == old(self).held() + 1 && final(self).passes@ == old(self).passes@,
    { unimplemented!() }
}

impl SStore {
    /// Store::for_each(|stream| ..) visits every stored stream exactly once (ASSUMED, see inc/prioritize.inc); the closure is
    /// rewritten into `iter_begin(); loop { match iter_next() { Some(stream) => BODY, None => break } }`
    #[verifier::external_body]
    pub fn iter_begin(&mut self)
        ensures final(self).held() == old(self).held() && final(self).passes@ == old(self).passes@,
    { unimplemented!() }

    #[verifier::external_body]
    pub fn iter_next(&mut self) -> (r: Option<Stream>)
        ensures
            match r {
                Some(s) => s.id.0 != 0 && final(self).held() == old(self).held() + 1 && final(self).passes@ == old(self).passes@,
                None => final(self).held() == old(self).held() && final(self).passes@ == old(self).passes@ + 1,
            },
    { unimplemented!() }

    /// the record stored under this stream id, if any
    pub uninterp spec fn spec_find(self, id: StreamId) -> Option<Stream>;

    /// Store::resolve(key) without any claim on the handle count
    #[verifier::external_body]
    pub fn resolve_key(&mut self, key: Key) -> (s: Stream)
        ensures s == old(self).spec_get(key) && s.key == key && final(self).held() == old(self).held() + 1 && final(self).passes@ == old(self).passes@,
    { unimplemented!() }

    /// `me.store.resolve(key).is_pending_open` — reading one flag through a temporary Ptr
    #[verifier::external_body]
    pub fn is_pending_open_at(&self, key: Key) -> (r: bool)
        ensures r == self.spec_get(key).is_pending_open,
    { unimplemented!() }

    /// Store::resolve(child_key) for the promised stream created a few lines earlier in the same critical section: no handle
    /// has been created for it yet (ASSUMED link between two model calls: the model does not track store contents)
    #[verifier::external_body]
    pub fn resolve_promised_child(&mut self, key: Key) -> (s: Stream)
        ensures s.key == key && s.ref_count == 0 && final(self).held() == old(self).held() + 1 && final(self).passes@ == old(self).passes@,
    { unimplemented!() }

    /// Store::insert(id, stream): the record enters the store and a Ptr to it comes back (owned model: the same stream,
    /// with its key).  C02/C03 — THE obligation on every site that creates a stream: it starts with the SEND window the
    /// peer advertised (SETTINGS_INITIAL_WINDOW_SIZE as recorded in Send) and the RECEIVE window this endpoint advertised
    /// (as recorded in Recv).  Both are passed as ghost values by a listed substitution of the call.
    #[verifier::external_body]
    pub fn insert_new(&mut self, id: StreamId, stream: Stream, send_init: Ghost<int>, recv_init: Ghost<int>) -> (s: Stream)
        requires
            stream.id == id,
            stream.send_flow.w() == send_init@ && stream.send_flow.a() == 0,
            stream.recv_flow.w() == recv_init@ && stream.recv_flow.a() == recv_init@,
        ensures
            s == (Stream { key: s.key, ..stream }) && final(self).held() == old(self).held() + 1 && final(self).passes@ == old(self).passes@,
            forall|k: Key| final(self).spec_get(k) == old(self).spec_get(k),
    { unimplemented!() }

    /// Ptr::remove (after Ptr::unlink): the record leaves the store
    #[verifier::external_body]
    pub fn remove(&mut self, stream: Stream)
        ensures final(self).held() == old(self).held() - 1 && final(self).passes@ == old(self).passes@,
    { unimplemented!() }

    /// Store::find_mut(&id) (owned model)
    #[verifier::external_body]
    pub fn find_mut(&mut self, id: &StreamId) -> (r: Option<Stream>)
        ensures
            r == old(self).spec_find(*id),
            match r {
                Some(s) => s.id == *id && final(self).held() == old(self).held() + 1 && final(self).passes@ == old(self).passes@,
                None => final(self).held() == old(self).held() && final(self).passes@ == old(self).passes@,
            },
    { unimplemented!() }

    /// a Ptr that goes out of scope (no obligation on the stream)
    #[verifier::external_body]
    pub fn put_back_any(&mut self, stream: Stream)
        ensures final(self).held() == old(self).held() - 1 && final(self).passes@ == old(self).passes@,
    { unimplemented!() }

    /// a Ptr that goes out of scope with the stream exactly as it was found
    #[verifier::external_body]
    pub fn put_back_same(&mut self, stream: Stream, s0: Ghost<Stream>)
        requires stream == s0@,
        ensures final(self).held() == old(self).held() - 1 && final(self).passes@ == old(self).passes@,
    { unimplemented!() }

    /// a visited stream that the function leaves alone goes back EXACTLY as it was, and only if the rule says so:
    /// C15 — streams at or below the peer's last-stream-id, and streams the peer initiated, run to completion
    #[verifier::external_body]
    pub fn put_back_untouched(&mut self, stream: Stream, s0: Ghost<Stream>, peer: Ghost<PeerDyn>, cut: Ghost<StreamId>)
        requires stream == s0@, !(s0@.id.0 > cut@.0 && local_init(peer@, s0@.id)),
        ensures final(self).held() == old(self).held() - 1 && final(self).passes@ == old(self).passes@,
    { unimplemented!() }
}

impl Counts {
    /// Counts::transition_after for a stream that the function had to FAIL: C15/C07 — it is failed with exactly `err`
    /// (unless it had already ended, then its outcome stands), every waiter is woken, nothing is left queued for sending
    #[verifier::external_body]
    pub fn transition_after_failed(&mut self, stream: Stream, is_reset_counted: bool, store: &mut SStore, s0: Ghost<Stream>, err: Ghost<Error>, rule_says_fail: Ghost<bool>)
        requires
            rule_says_fail@,      // only a stream the rule selects may be failed (C15: at or below the cut-off, or peer-initiated => must survive)
            stream.state.inner == s0@.state.after_teardown(err@),
            stream.recv_task is None && stream.push_task is None && stream.send_task is None,
            stream.pending_send@.len() == 0,
        ensures
            final(store).held() == old(store).held() - 1 && final(store).passes@ == old(store).passes@,
            *final(self) == (Counts { transitions: Ghost(old(self).transitions@ + 1), ..*old(self) }),
    { unimplemented!() }
}

impl Stream {
    /// Stream::new (real body: Kani unit stream_new_windows, all u32 <= 2^31-1): send window = first argument with
    /// nothing assigned, receive window = second argument, all of it available; idle; in no queue; no handle yet
    #[verifier::external_body]
    pub fn new(id: StreamId, init_send_window: WindowSize, init_recv_window: WindowSize) -> (s: Stream)
        ensures
            s.id == id && s.ref_count == 0 && !s.is_pending_push && !s.is_pending_open && !s.is_pending_send,
            s.send_flow.w() == init_send_window && s.send_flow.a() == 0,
            s.recv_flow.w() == init_recv_window && s.recv_flow.a() == init_recv_window,
            s.state.inner is Idle,
    { unimplemented!() }

    /// Ptr::unlink: removes the id -> key association (store-side effect only)
    #[verifier::external_body]
    pub fn unlink(&mut self)
        ensures *final(self) == *old(self),
    { unimplemented!() }
}

/// http::Request<()> handed to push_request / send_request (opaque; only "is the method HEAD" is observed)
pub struct Req { pub tag: u8, pub head: bool }
impl Req {
    pub fn is_head(&self) -> (r: bool) ensures r == self.head { self.head }
}
/// frame::Headers produced by client::Peer::convert_send_message (opaque here)
pub struct HFrame { pub tag: u8 }

/// client::Peer::convert_send_message (request validation: C13 units)
#[verifier::external_body]
pub fn convert_send_message(id: StreamId, request: Req, end_of_stream: bool) -> (r: Result<HFrame, UserError>)
{ unimplemented!() }

/// crate::proto::streams SendError, reduced: which layer refused
pub enum SendErr { User(UserError), Connection(Error) }
/// frame::PushPromise (opaque here)
pub struct PPFrame { pub tag: u8 }

/// server::Peer::convert_push_message: validates and converts the promised request (C13 units)
#[verifier::external_body]
pub fn convert_push_message(stream_id: StreamId, promised_id: StreamId, request: Req) -> (r: Result<PPFrame, UserError>)
{ unimplemented!() }

impl StreamId {
    pub fn is_zero(&self) -> (r: bool) ensures r == (self.0 == 0) { self.0 == 0 }
}

impl Counts {
    /// Counts::next_send_stream_will_reach_capacity (unit v_counts)
    #[verifier::external_body]
    pub fn next_send_stream_will_reach_capacity(&self) -> (r: bool) { unimplemented!() }

    /// Counts::transition_after, plain (no obligation on the stream): counts the transition
    #[verifier::external_body]
    pub fn transition_after_any(&mut self, stream: Stream, is_reset_counted: bool, store: &mut SStore)
        ensures
            final(store).held() == old(store).held() - 1 && final(store).passes@ == old(store).passes@,
            *final(self) == (Counts { transitions: Ghost(old(self).transitions@ + 1), ..*old(self) }),
    { unimplemented!() }
}

impl QueuePP {
    /// Queue::take: the whole list moves out, the field is left empty
    #[verifier::external_body]
    pub fn take(&mut self) -> (r: QueuePP)
        ensures r.ghost_len == old(self).ghost_len && final(self).ghost_len == 0,
    { unimplemented!() }

    #[verifier::external_body]
    pub fn pop(&mut self, store: &mut SStore) -> (r: Option<Stream>)
        ensures
            match r {
                Some(s) => old(self).ghost_len > 0 && final(self).ghost_len == old(self).ghost_len - 1 && final(store).held() == old(store).held() + 1 && final(store).passes@ == old(store).passes@,
                None => old(self).ghost_len == 0 && final(self).ghost_len == 0 && final(store).held() == old(store).held() && final(store).passes@ == old(store).passes@,
            },
    { unimplemented!() }
}

pub struct Counts {
    pub peer: PeerDyn,
    /// ghost: number of Counts::transition_after calls so far (each consumes one Ptr)
    pub transitions: Ghost<int>,
    /// ghost: number of streams handed to Send::schedule_implicit_reset so far
    pub cancelled: Ghost<int>,
    /// ghost: how often the lifetime quota of streams reset because of the PEER's misbehaviour was charged (C18)
    pub err_resets: Ghost<int>,
}
impl Counts {
    pub fn peer(&self) -> (r: PeerDyn) ensures r == self.peer { self.peer }

    /// Counts::can_inc_num_local_error_resets / inc_num_local_error_resets (their real bodies: unit v_counts, Kani counts_reset_quotas)
    pub uninterp spec fn quota_left(self) -> bool;
    #[verifier::external_body]
    pub fn can_inc_num_local_error_resets(&self) -> (r: bool) ensures r == self.quota_left() { unimplemented!() }
    #[verifier::external_body]
    pub fn inc_num_local_error_resets(&mut self)
        requires old(self).quota_left(),
        ensures *final(self) == (Counts { err_resets: Ghost(old(self).err_resets@ + 1), ..*old(self) }),
    { unimplemented!() }

    #[verifier::external_body]
    pub fn transition_after(&mut self, stream: Stream, is_reset_counted: bool, store: &mut SStore)
        ensures
            final(store).held() == old(store).held() - 1 && final(store).passes@ == old(store).passes@,
            *final(self) == (Counts { transitions: Ghost(old(self).transitions@ + 1), ..*old(self) }),
    { unimplemented!() }
}

pub struct Send { pub max_stream_id: StreamId, pub init_window_sz: WindowSize, pub tag: u8, pub rst: Ghost<Seq<(StreamId, Reason, Initiator)>> }
impl Send {
    pub fn init_window_sz(&self) -> (r: WindowSize) ensures r == self.init_window_sz { self.init_window_sz }

    /// Send::send_reset (its real body: unit v_send — exactly one RST_STREAM(id, reason) unless the stream is already reset
    /// or cleanly closed, queue dropped, capacity returned, waiters woken); here: THAT it is called, for which stream, with what
    #[verifier::external_body]
    pub fn send_reset(&mut self, reason: Reason, initiator: Initiator, buffer: &mut SendBuf, stream: &mut Stream, counts: &mut Counts, task: &mut Option<Waker>)
        ensures
            *final(self) == (Send { rst: Ghost(old(self).rst@.push((old(stream).id, reason, initiator))), ..*old(self) }),
            final(stream).id == old(stream).id && final(stream).key == old(stream).key && final(stream).ref_count == old(stream).ref_count,
            *final(counts) == *old(counts),
    { unimplemented!() }

    /// Send::maybe_reset_next_stream_id (Kani unit send_ids)
    #[verifier::external_body]
    pub fn maybe_reset_next_stream_id(&mut self, id: StreamId)
        ensures final(self).init_window_sz == old(self).init_window_sz && final(self).rst@ == old(self).rst@,
    { unimplemented!() }

    /// Send::reserve_local: the next local stream id (Kani send_ids / unit v_send ensure_next_stream_id)
    #[verifier::external_body]
    pub fn reserve_local(&mut self) -> (r: Result<StreamId, UserError>)
        ensures final(self).init_window_sz == old(self).init_window_sz && final(self).max_stream_id == old(self).max_stream_id,
    { unimplemented!() }

    /// Send::ensure_next_stream_id / Send::open (verified in unit v_send): the next client stream id, or refusal when ids are exhausted
    #[verifier::external_body]
    pub fn ensure_next_stream_id(&self) -> (r: Result<StreamId, UserError>) { unimplemented!() }

    #[verifier::external_body]
    pub fn open(&mut self) -> (r: Result<StreamId, UserError>)
        ensures final(self).init_window_sz == old(self).init_window_sz && final(self).max_stream_id == old(self).max_stream_id,
    { unimplemented!() }

    /// Send::send_headers (Kani unit send_send_headers, complete over the state space): on Ok the stream has left idle and is
    /// not closed (open or half-closed(local)); on Err nothing was queued
    #[verifier::external_body]
    pub fn send_headers(&mut self, frame: HFrame, buffer: &mut SendBuf, stream: &mut Stream, counts: &mut Counts, task: &mut Option<Waker>) -> (r: Result<(), UserError>)
        requires old(stream).state.inner is Idle,
        ensures
            final(self).init_window_sz == old(self).init_window_sz,
            final(stream).id == old(stream).id && final(stream).key == old(stream).key && final(stream).ref_count == old(stream).ref_count
                && final(stream).content_length == old(stream).content_length,
            r is Ok ==> !final(stream).state.closed(),
            final(counts).transitions@ == old(counts).transitions@,
    { unimplemented!() }

    /// Send::send_push_promise: queues the PUSH_PROMISE on the parent stream (or refuses: push disabled, bad headers)
    #[verifier::external_body]
    pub fn send_push_promise(&mut self, frame: PPFrame, buffer: &mut SendBuf, stream: &mut Stream, task: &mut Option<Waker>) -> (r: Result<(), UserError>)
        ensures final(self).init_window_sz == old(self).init_window_sz,
    { unimplemented!() }

    /// Send::recv_go_away (verified in unit v_send)
    #[verifier::external_body]
    pub fn recv_go_away(&mut self, last_stream_id: StreamId) -> (r: Result<(), Error>)
        ensures
            last_stream_id.0 > old(self).max_stream_id.0 ==> r is Err && *final(self) == *old(self),
            last_stream_id.0 <= old(self).max_stream_id.0 ==> r is Ok && final(self).max_stream_id == last_stream_id,
    { unimplemented!() }

    /// Send::recv_connection_window_update / recv_stream_window_update (verified in units v_prioritize / v_send)
    #[verifier::external_body]
    pub fn recv_connection_window_update(&mut self, frame: WuFrame, store: &mut SStore, counts: &mut Counts) -> (r: Result<(), Reason>)
        ensures final(store).held() == old(store).held() && final(store).passes@ == old(store).passes@, final(counts).transitions@ == old(counts).transitions@,
    { unimplemented!() }

    #[verifier::external_body]
    pub fn recv_stream_window_update(&mut self, sz: u32, buffer: &mut SendBuf, stream: &mut Stream, counts: &mut Counts, task: &mut Option<Waker>) -> (r: Result<(), Reason>)
        ensures final(stream).id == old(stream).id, final(counts).transitions@ == old(counts).transitions@,
    { unimplemented!() }

    /// Send::handle_error (verified in unit v_send): everything unsent is dropped, capacity returned; the state (already
    /// set by Recv::handle_error) is not touched
    #[verifier::external_body]
    pub fn handle_error(&mut self, buffer: &mut SendBuf, stream: &mut Stream, counts: &mut Counts)
        ensures
            final(self).max_stream_id == old(self).max_stream_id,
            final(stream).state == old(stream).state && final(stream).id == old(stream).id && final(stream).key == old(stream).key
                && final(stream).recv_task == old(stream).recv_task && final(stream).push_task == old(stream).push_task
                && (final(stream).send_task is None || final(stream).send_task == old(stream).send_task),
            final(stream).pending_send@.len() == 0,
            *final(counts) == *old(counts),
    { unimplemented!() }

    /// Send::schedule_implicit_reset (verified in unit v_send): a stream that is not closed gets a reset scheduled.
    #[verifier::external_body]
    pub fn schedule_implicit_reset(&mut self, stream: &mut Stream, reason: Reason, counts: &mut Counts, task: &mut Option<Waker>)
        requires !old(stream).state.closed(),       // v_send: `if stream.state.is_closed() { return }` — callers only cancel live streams
        ensures
            final(stream).ref_count == old(stream).ref_count && final(stream).key == old(stream).key && final(stream).id == old(stream).id
                && final(stream).pending_push_promises == old(stream).pending_push_promises,
            final(self).init_window_sz == old(self).init_window_sz,
            final(stream).state.closed(),
            *final(task) is None || *final(task) == *old(task),      // wakers are only ever taken (woken), never installed, on this path
            *final(counts) == (Counts { cancelled: Ghost(old(counts).cancelled@ + 1), ..*old(counts) }),
    { unimplemented!() }
}

pub struct SendBuf { pub tag: u8 }

/// frame::WindowUpdate, reduced
#[derive(Clone, Copy)]
pub struct WuFrame { pub stream_id: StreamId, pub size_increment: u32 }
impl WuFrame {
    pub fn stream_id(&self) -> (r: StreamId) ensures r == self.stream_id { self.stream_id }
    pub fn size_increment(&self) -> (r: u32) ensures r == self.size_increment { self.size_increment }
}

/// frame::GoAway, reduced (debug data is carried into the error value, which is reduced as well: R5)
pub struct GoAwayFrame { pub last_stream_id: StreamId, pub reason: Reason }
impl GoAwayFrame {
    pub fn last_stream_id(&self) -> (r: StreamId) ensures r == self.last_stream_id { self.last_stream_id }
    pub fn reason(&self) -> (r: Reason) ensures r == self.reason { self.reason }
}

impl Error {
    /// proto::Error::remote_go_away(debug_data, reason) — debug data not modelled (R5)
    pub fn remote_go_away(reason: Reason) -> (r: Error)
        ensures r == Error::GoAway(reason, Initiator::Remote),
    { Error::GoAway(reason, Initiator::Remote) }
}

pub open spec fn local_init(peer: PeerDyn, id: StreamId) -> bool {
    (peer == PeerDyn::Server) == (id.0 % 2 == 0)
}

impl PeerDyn {
    /// peer::Dyn::is_local_init (asserts id != 0; ids in the store are never 0)
    #[verifier::external_body]
    pub fn is_local_init(&self, id: StreamId) -> (r: bool)
        requires id.0 != 0,
        ensures r == local_init(*self, id),
    { unimplemented!() }
}

pub struct Recv { pub last_processed_id: StreamId, pub max_stream_id: StreamId, pub init_window_sz: WindowSize, pub tag: u8, pub hlog: Ghost<Seq<HEv>> }

/// what Inner::recv_headers asked of the receive side, in order (ghost)
#[derive(PartialEq, Eq, Structural, Clone, Copy, Debug)]
pub enum HEv { Opened(StreamId), Refused(StreamId), HeadersTo(StreamId), TrailersTo(StreamId), Answered431(StreamId), ImplicitReset(StreamId, Reason) }
impl Recv {
    pub fn init_window_sz(&self) -> (r: WindowSize) ensures r == self.init_window_sz { self.init_window_sz }

    pub fn last_processed_id(&self) -> (r: StreamId) ensures r == self.last_processed_id { self.last_processed_id }
    pub fn max_stream_id(&self) -> (r: StreamId) ensures r == self.max_stream_id { self.max_stream_id }

    /// Recv::recv_reset (verified in unit v_recv): over the pending-accept reset quota => connection error
    /// ENHANCE_YOUR_CALM and nothing changes; otherwise the stream records the peer's reset (a stream that is closed with
    /// nothing queued keeps its cause) and all three waiters are woken
    #[verifier::external_body]
    pub fn recv_reset(&mut self, frame: RReset, stream: &mut Stream, counts: &mut Counts) -> (r: Result<(), Error>)
        ensures
            *final(self) == *old(self),
            final(counts).transitions@ == old(counts).transitions@ && final(counts).cancelled@ == old(counts).cancelled@ && final(counts).peer == old(counts).peer,
            r is Err ==> r == Err::<(), Error>(Error::GoAway(Reason::ENHANCE_YOUR_CALM, Initiator::Library)) && *final(stream) == *old(stream),
            r is Ok ==> final(stream).state.closed() && final(stream).id == old(stream).id && final(stream).key == old(stream).key,
    { unimplemented!() }

    /// Recv::recv_eof (verified in unit v_recv): the stream is failed with a broken-pipe I/O error unless it already ended
    #[verifier::external_body]
    pub fn recv_eof(&mut self, stream: &mut Stream)
        ensures
            *final(self) == *old(self),
            *final(stream) == (Stream { state: final(stream).state, send_task: None, recv_task: None, push_task: None, ..*old(stream) }),
            final(stream).state.inner == old(stream).state.after_teardown(Error::Io),
    { unimplemented!() }

    /// Recv::handle_error (verified in unit v_recv): the stream is failed with `err` unless it is already closed, and all
    /// three waiters are woken
    #[verifier::external_body]
    pub fn handle_error(&mut self, err: &Error, stream: &mut Stream)
        ensures
            *final(self) == *old(self),
            *final(stream) == (Stream { state: final(stream).state, send_task: None, recv_task: None, push_task: None, ..*old(stream) }),
            final(stream).state.inner == old(stream).state.after_teardown(*err),
    { unimplemented!() }

    #[verifier::external_body]
    pub fn enqueue_reset_expiration(&mut self, stream: &mut Stream, counts: &mut Counts)
        ensures final(stream).ref_count == old(stream).ref_count && final(stream).key == old(stream).key && final(stream).state == old(stream).state
            && final(stream).id == old(stream).id && *final(self) == *old(self)
            && final(stream).pending_push_promises == old(stream).pending_push_promises, *final(counts) == *old(counts),
    { unimplemented!() }

    #[verifier::external_body]
    pub fn release_closed_capacity(&mut self, stream: &mut Stream, task: &mut Option<Waker>, counts: &mut Counts)
        requires old(stream).ref_count == 0,         // the real debug_assert_eq!
        ensures final(stream).ref_count == old(stream).ref_count && final(stream).key == old(stream).key && final(stream).state == old(stream).state
            && final(stream).pending_push_promises == old(stream).pending_push_promises && final(stream).in_flight_recv_data == 0, *final(counts) == *old(counts),
            *final(task) is None || *final(task) == *old(task),
    { unimplemented!() }
}

pub struct Actions { pub recv: Recv, pub send: Send, pub task: Option<Waker>, pub conn_error: Option<Error> }

impl Actions {
    /// Actions::ensure_no_conn_error: Err(clone of the recorded connection error) iff one is recorded
    pub fn ensure_no_conn_error(&self) -> (r: Result<(), Error>)
        ensures self.conn_error is Some ==> r == Err::<(), Error>(self.conn_error->Some_0), self.conn_error is None ==> r is Ok,
    {
        match self.conn_error { Some(e) => Err(e), None => Ok(()) }
    }

    // C09 containment / C18 quota: what becomes of the result of processing one frame for one stream.  Anything but a
    // stream error passes through untouched.  A stream error (always for THIS stream: the real debug_assert_eq!, a
    // precondition) is answered by exactly one Send::send_reset(reason, initiator) for this stream — charged against the
    // lifetime quota of resets the peer can provoke — and the stream error is CONSUMED (Ok: the connection carries on); with
    // the quota exhausted nothing is sent and the result is a connection error ENHANCE_YOUR_CALM instead.
    //@extract src/proto/streams/streams.rs Actions::reset_on_recv_stream_err
    //@subst_re fn reset_on_recv_stream_err<B>\(\s*&mut self,\s*buffer: &mut Buffer<Frame<B>>,\s*stream: &mut store::Ptr,=>fn reset_on_recv_stream_err(&mut self, buffer: &mut SendBuf, stream: &mut Stream,
    //@ret r
    //@spec     requires
    //@spec         res matches Err(Error::Reset(sid, _, _)) ==> sid == old(stream).id,
    //@spec     ensures
    //@spec         final(counts).transitions@ == old(counts).transitions@,
    //@spec         final(self).recv == old(self).recv && final(self).send.init_window_sz == old(self).send.init_window_sz && final(self).conn_error == old(self).conn_error,
    //@spec         final(stream).id == old(stream).id && final(stream).key == old(stream).key,
    //@spec         !(res matches Err(Error::Reset(_, _, _))) ==> r == res && *final(self) == *old(self) && *final(stream) == *old(stream) && *final(counts) == *old(counts),
    //@spec         res matches Err(Error::Reset(_, _, _)) ==> r is Ok || r == Err::<(), Error>(Error::GoAway(Reason::ENHANCE_YOUR_CALM, Initiator::Library)),
    //@spec         res matches Err(Error::Reset(sid, reason, initiator)) ==> (old(counts).quota_left() ==> r is Ok
    //@spec             && final(self).send.rst@ == old(self).send.rst@.push((sid, reason, initiator)) && final(counts).err_resets@ == old(counts).err_resets@ + 1
    //@spec             && final(stream).recv_task is None),
    //@spec         (res matches Err(Error::Reset(_, _, _)) && !old(counts).quota_left()) ==> r == Err::<(), Error>(Error::GoAway(Reason::ENHANCE_YOUR_CALM, Initiator::Library))
    //@spec             && final(self).send.rst@ == old(self).send.rst@ && *final(counts) == *old(counts) && *final(stream) == *old(stream),
    //@end

    /// Actions::ensure_not_idle: id rules of RFC 9113 5.1.1 (Kani units send_ids / recv_ids / inner_recv_reset_unknown_stream)
    #[verifier::external_body]
    pub fn ensure_not_idle(&mut self, peer: PeerDyn, id: StreamId) -> (r: Result<(), Reason>)
        ensures *final(self) == *old(self),
    { unimplemented!() }

    /// Actions::clear_queues: drains the scheduler queues after every stream was failed (each popped stream goes through
    /// Counts::transition; not verified here)
    #[verifier::external_body]
    pub fn clear_queues(&mut self, clear_pending_accept: bool, store: &mut SStore, counts: &mut Counts)
        ensures final(store).held() == old(store).held() && final(store).passes@ == old(store).passes@, final(self).conn_error == old(self).conn_error,
    { unimplemented!() }
}

pub struct SInner { pub counts: Counts, pub actions: Actions, pub store: SStore, pub refs: usize }

//@extract src/proto/streams/streams.rs maybe_cancel
//@subst stream: &mut store::Ptr=>stream: &mut Stream
//@spec     ensures
//@spec         final(stream).ref_count == old(stream).ref_count && final(stream).key == old(stream).key,
//@spec         final(stream).pending_push_promises == old(stream).pending_push_promises,
//@spec         // C17/C19: nobody listens any more and the stream is still live => it is cancelled, once
//@spec         (old(stream).ref_count == 0 && !old(stream).state.closed()) ==> final(stream).state.closed() && final(counts).cancelled@ == old(counts).cancelled@ + 1,
//@spec         !(old(stream).ref_count == 0 && !old(stream).state.closed()) ==> *final(stream) == *old(stream) && *final(counts) == *old(counts),
//@spec         final(counts).transitions@ == old(counts).transitions@ && final(counts).peer == old(counts).peer,
//@spec         final(actions).task is None || final(actions).task == old(actions).task,
//@end

//@extract src/proto/streams/streams.rs drop_stream_ref
//@attr #[verifier::exec_allows_no_decreases_clause]
//@subst fn drop_stream_ref(inner: &Mutex<Inner>, key: store::Key)=>fn drop_stream_ref(me: &mut SInner, key: Key)
//@subst_re let mut me = match inner\.lock\(\) \{.*?\};\s*let me = &mut \*me; ==>> let ghost s_in = me.store.spec_get(key);
//@subst let actions = &mut me.actions;=>let ghost st0 = stream; let ghost ppp0 = stream.pending_push_promises.ghost_len as int;
//@subst if let Some(task) = actions.task.take()=>if let Some(task) = me.actions.task.take()
//@subst_re me\.counts\.transition\(stream, \|counts, stream\| \{ ==>> { let mut stream = stream; let is_pending_reset = stream.is_pending_reset_expiration(); {
//@subst_re maybe_cancel\(stream, actions, counts\);\s*if stream\.ref_count == 0 ==>> maybe_cancel(&mut stream, &mut me.actions, &mut me.counts); if stream.ref_count == 0
//@subst_re actions\s*\.recv\s*\.release_closed_capacity\(stream, &mut actions\.task, counts\);=>me.actions.recv.release_closed_capacity(&mut stream, &mut me.actions.task, &mut me.counts);
//@after let mut ppp = stream.pending_push_promises.take();=>let ghost t1 = me.counts.transitions@; let ghost ppp1 = ppp.ghost_len as int;
//@subst ppp.pop(stream.store_mut())=>ppp.pop(&mut me.store)
//@subst_re counts\.transition\(promise, \|counts, stream\| \{\s*maybe_cancel\(stream, actions, counts\);\s*\}\); ==>> { let mut promise = promise; let is_pending_reset_p = promise.is_pending_reset_expiration(); maybe_cancel(&mut promise, &mut me.actions, &mut me.counts); me.counts.transition_after(promise, is_pending_reset_p, &mut me.store); }
//@subst_re \}\);(\s*\}\s*)$ ==>> } me.counts.transition_after(stream, is_pending_reset, &mut me.store); }\1
//@spec     requires old(me).refs > 0,        // the connection-wide handle count includes the handle being dropped
//@spec     ensures
//@spec         final(me).refs == old(me).refs - 1,
//@spec         // every Ptr (the stream, every popped promise) went back through Counts::transition_after
//@spec         final(me).store.held() == old(me).store.held(),
//@spec         // C19: the stream itself, and — when this was its LAST handle — every unclaimed pushed stream promised on it
//@spec         ({ let s = old(me).store.spec_get(key);
//@spec            final(me).counts.transitions@ == old(me).counts.transitions@ + 1 + (if s.ref_count == 1 { s.pending_push_promises.ghost_len as int } else { 0 }) }),
//@spec         // C17: the stream is cancelled iff this was the last handle and it is still live (the promises are cancelled on top)
//@spec         ({ let s = old(me).store.spec_get(key);
//@spec            (s.ref_count == 1 && !s.state.closed()) ==> final(me).counts.cancelled@ >= old(me).counts.cancelled@ + 1 }),
//@spec         ({ let s = old(me).store.spec_get(key);
//@spec            s.ref_count > 1 ==> final(me).counts.cancelled@ == old(me).counts.cancelled@ }),
//@spec         // C07/C19: a closed stream that just lost its last handle wakes the connection task (it may be the last thing it waits for)
//@spec         ({ let s = old(me).store.spec_get(key);
//@spec            (s.ref_count == 1 && s.state.closed() && s.pending_send@.len() == 0 && s.buffered_send_data == 0) ==> final(me).actions.task is None }),
//@loop_opt 0     invariant
//@loop_opt 0         me.store.held() == old(me).store.held() + 1,
//@loop_opt 0         me.refs == old(me).refs - 1,
//@loop_opt 0         stream.ref_count == 0,
//@loop_opt 0         me.counts.transitions@ + ppp.ghost_len == t1 + ppp1,
//@loop_opt 0         me.counts.cancelled@ >= old(me).counts.cancelled@ + (if !s_in.state.closed() { 1int } else { 0int }),
//@loop_opt 0         s_in.state.closed() && s_in.pending_send@.len() == 0 && s_in.buffered_send_data == 0 ==> me.actions.task is None,
//@loop_opt 0     ensures
//@loop_opt 0         ppp.ghost_len == 0,                          // C19: the WHOLE queue of unclaimed promises is drained
//@end

impl SInner {
    // C15 (receiving GOAWAY) / C07: the peer's cut-off is recorded (an increase is a connection error and nothing is
    // touched); every stream WE initiated above the cut-off fails with the peer's reason — exactly the peer's code, as a
    // remote GOAWAY — and wakes its waiters; every other stream is left exactly as it is; the connection remembers the
    // error for later API calls.  For ANY number of streams.
    //@extract src/proto/streams/streams.rs Inner::recv_go_away
    //@attr #[verifier::exec_allows_no_decreases_clause]
    //@subst_re fn recv_go_away<B>\(\s*&mut self,\s*send_buffer: &SendBuffer<B>,\s*frame: &frame::GoAway,\s*\) -> Result<\(\), Error>=>fn recv_go_away(&mut self, send_buffer: &mut SendBuf, frame: &GoAwayFrame) -> Result<(), Error>
    //@subst_re let actions = &mut self\.actions;\s*let counts = &mut self\.counts;\s*let mut send_buffer = send_buffer\.inner\.lock\(\)\.unwrap\(\);\s*let send_buffer = &mut \*send_buffer;=>
    //@subst actions.send.recv_go_away(last_stream_id)?;=>self.actions.send.recv_go_away(last_stream_id)?;
    //@subst Error::remote_go_away(frame.debug_data().clone(), frame.reason())=>Error::remote_go_away(frame.reason())
    //@subst let peer = counts.peer();=>let peer = self.counts.peer();
    //@subst_re self\.store\.for_each\(\|stream\| \{ ==>> self.store.iter_begin(); loop invariant_except_break self.store.passes@ == old(self).store.passes@, invariant self.store.held() == old(self).store.held(), self.actions.send.max_stream_id == last_stream_id, last_stream_id == frame.last_stream_id, err == Error::GoAway(frame.reason, Initiator::Remote), peer == self.counts.peer, self.counts.peer == old(self).counts.peer, self.actions.conn_error == old(self).actions.conn_error, ensures self.store.passes@ == old(self).store.passes@ + 1, { let mut stream = match self.store.iter_next() { Some(s) => s, None => { break; } }; let ghost s0 = stream; let ghost sel = s0.id.0 > last_stream_id.0 && local_init(peer, s0.id);
    //@subst_re counts\.transition\(stream, \|counts, stream\| \{ ==>> { let is_pending_reset = stream.is_pending_reset_expiration();
    //@subst actions.recv.handle_error(&err, &mut *stream);=>self.actions.recv.handle_error(&err, &mut stream);
    //@subst actions.send.handle_error(send_buffer, stream, counts);=>self.actions.send.handle_error(send_buffer, &mut stream, &mut self.counts);
    //@subst_re \}\)\s*\}\s*\}\);\s*actions\.conn_error = Some\(err\); ==>> self.counts.transition_after_failed(stream, is_pending_reset, &mut self.store, Ghost(s0), Ghost(err), Ghost(sel)); } } else { self.store.put_back_untouched(stream, Ghost(s0), Ghost(peer), Ghost(last_stream_id)); } } self.actions.conn_error = Some(err);
    //@ret r
    //@spec     ensures
    //@spec         final(self).store.held() == old(self).store.held(),
    //@spec         // the cut-off may only shrink: an increased last-stream-id is a connection error and NOTHING is failed
    //@spec         frame.last_stream_id.0 > old(self).actions.send.max_stream_id.0 ==> r is Err && final(self).counts.transitions@ == old(self).counts.transitions@
    //@spec             && final(self).actions.conn_error == old(self).actions.conn_error,
    //@spec         frame.last_stream_id.0 <= old(self).actions.send.max_stream_id.0 ==> r is Ok && final(self).actions.send.max_stream_id == frame.last_stream_id
    //@spec             && final(self).store.passes@ == old(self).store.passes@ + 1
    //@spec             // the connection's result reports the peer's code
    //@spec             && final(self).actions.conn_error == Some(Error::GoAway(frame.reason, Initiator::Remote)),
    //@end

    // C07: when the connection fails, EVERY stream is failed with that error (finished ones keep their outcome), every
    // waiter is woken, and the error is remembered.  For ANY number of streams.
    //@extract src/proto/streams/streams.rs Inner::handle_error
    //@attr #[verifier::exec_allows_no_decreases_clause]
    //@subst_re fn handle_error<B>\(&mut self, send_buffer: &SendBuffer<B>, err: proto::Error\) -> StreamId=>fn handle_error(&mut self, send_buffer: &mut SendBuf, err: Error) -> StreamId
    //@subst_re let actions = &mut self\.actions;\s*let counts = &mut self\.counts;\s*let mut send_buffer = send_buffer\.inner\.lock\(\)\.unwrap\(\);\s*let send_buffer = &mut \*send_buffer;=>
    //@subst let last_processed_id = actions.recv.last_processed_id();=>let last_processed_id = self.actions.recv.last_processed_id();
    //@subst_re self\.store\.for_each\(\|stream\| \{ ==>> self.store.iter_begin(); loop invariant_except_break self.store.passes@ == old(self).store.passes@, invariant self.store.held() == old(self).store.held(), self.actions.recv == old(self).actions.recv, self.actions.conn_error == old(self).actions.conn_error, ensures self.store.passes@ == old(self).store.passes@ + 1, { let mut stream = match self.store.iter_next() { Some(s) => s, None => { break; } }; let ghost s0 = stream;
    //@subst_re counts\.transition\(stream, \|counts, stream\| \{ ==>> { let is_pending_reset = stream.is_pending_reset_expiration();
    //@subst actions.recv.handle_error(&err, &mut *stream);=>self.actions.recv.handle_error(&err, &mut stream);
    //@subst actions.send.handle_error(send_buffer, stream, counts);=>self.actions.send.handle_error(send_buffer, &mut stream, &mut self.counts);
    //@subst_re \}\)\s*\}\);\s*actions\.conn_error = Some\(err\); ==>> self.counts.transition_after_failed(stream, is_pending_reset, &mut self.store, Ghost(s0), Ghost(err), Ghost(true)); } } self.actions.conn_error = Some(err);
    //@ret r
    //@spec     ensures
    //@spec         final(self).store.held() == old(self).store.held(),
    //@spec         final(self).actions.conn_error == Some(err),
    //@spec         final(self).store.passes@ == old(self).store.passes@ + 1,     // EVERY stream was visited (and, by the obligations inside the loop, failed)
    //@spec         // C15: the id reported in our GOAWAY is the highest peer stream handed to the application
    //@spec         r == old(self).actions.recv.last_processed_id,
    //@end
}

impl SInner {
    // C07: when the transport ends, EVERY stream is failed (broken pipe) unless it had already ended, every waiter is
    // woken, and an error is remembered for the API (the first one stands).  For ANY number of streams.
    //@extract src/proto/streams/streams.rs Inner::recv_eof
    //@attr #[verifier::exec_allows_no_decreases_clause]
    //@subst_re fn recv_eof<B>\(\s*&mut self,\s*send_buffer: &SendBuffer<B>,\s*clear_pending_accept: bool,\s*\) -> Result<\(\), \(\)>=>fn recv_eof(&mut self, send_buffer: &mut SendBuf, clear_pending_accept: bool) -> Result<(), ()>
    //@subst_re let actions = &mut self\.actions;\s*let counts = &mut self\.counts;\s*let mut send_buffer = send_buffer\.inner\.lock\(\)\.unwrap\(\);\s*let send_buffer = &mut \*send_buffer;=>
    //@subst_re (?<![\w.])actions\.=>self.actions.
    //@subst_re Some\(\s*io::Error::new\(.*?\)\s*\.into\(\),\s*\)=>Some(Error::Io)
    //@subst_re self\.store\.for_each\(\|stream\| \{ ==>> let ghost ce = self.actions.conn_error; self.store.iter_begin(); loop invariant_except_break self.store.passes@ == old(self).store.passes@, invariant self.store.held() == old(self).store.held(), self.actions.conn_error == ce, ensures self.store.passes@ == old(self).store.passes@ + 1, { let mut stream = match self.store.iter_next() { Some(s) => s, None => { break; } }; let ghost s0 = stream;
    //@subst_re counts\.transition\(stream, \|counts, stream\| \{ ==>> { let is_pending_reset = stream.is_pending_reset_expiration();
    //@subst self.actions.recv.recv_eof(stream);=>self.actions.recv.recv_eof(&mut stream);
    //@subst self.actions.send.handle_error(send_buffer, stream, counts);=>self.actions.send.handle_error(send_buffer, &mut stream, &mut self.counts);
    //@subst_re \}\)\s*\}\);(\s*self\.actions\.clear_queues) ==>> self.counts.transition_after_failed(stream, is_pending_reset, &mut self.store, Ghost(s0), Ghost(Error::Io), Ghost(true)); } }\1
    //@subst_re self\.actions\.clear_queues\(clear_pending_accept, &mut self\.store, counts\);=>self.actions.clear_queues(clear_pending_accept, &mut self.store, &mut self.counts);
    //@ret r
    //@spec     ensures
    //@spec         r is Ok,
    //@spec         final(self).store.held() == old(self).store.held(),
    //@spec         // EVERY stream is visited (and, by the obligations inside the loop, failed) — also when an error was recorded earlier:
    //@spec         // a GOAWAY from the peer records one but leaves the streams at or below its last-stream-id running
    //@spec         final(self).store.passes@ == old(self).store.passes@ + 1,
    //@spec         final(self).actions.conn_error == (if old(self).actions.conn_error is Some { old(self).actions.conn_error } else { Some(Error::Io) }),
    //@end
}

impl SInner {
    // C17 / C09 / C15: RST_STREAM from the peer.  Stream 0 => connection PROTOCOL_ERROR; beyond OUR GOAWAY cut-off =>
    // ignored; unknown stream => the idle rule decides; a stream still waiting to be opened (never announced to the peer)
    // => connection PROTOCOL_ERROR and the stream is untouched; otherwise the stream is CLOSED afterwards (the real
    // `assert!`, an obligation here) and goes through Counts::transition_after — also when the reset quota turns it into a
    // connection error.
    //@extract src/proto/streams/streams.rs Inner::recv_reset
    //@subst_re fn recv_reset<B>\(\s*&mut self,\s*send_buffer: &SendBuffer<B>,\s*frame: frame::Reset,\s*\) -> Result<\(\), Error>=>fn recv_reset(&mut self, send_buffer: &mut SendBuf, frame: RReset) -> Result<(), Error>
    //@subst .map_err(Error::library_go_away)=>.map_err_go_away()
    //@subst_re Some\(stream\) => stream,\s*None => \{ ==>> Some(stream) => stream, None => { proof { assert(self.store.held() == old(self).store.held()); }
    //@subst if stream.is_pending_open {=>let ghost s0 = stream; if stream.is_pending_open { self.store.put_back_same(stream, Ghost(s0));
    //@subst_re let mut send_buffer = send_buffer\.inner\.lock\(\)\.unwrap\(\);\s*let send_buffer = &mut \*send_buffer;\s*let actions = &mut self\.actions;=>
    //@subst_re self\.counts\.transition\(stream, \|counts, stream\| \{ ==>> { let mut stream = stream; let is_pending_reset = stream.is_pending_reset_expiration(); let res_final = {
    //@subst actions.recv.recv_reset(frame, stream, counts)?;=>let _rr = self.actions.recv.recv_reset(frame, &mut stream, &mut self.counts); if let Err(e) = _rr { Err(e) } else {
    //@subst actions.send.handle_error(send_buffer, stream, counts);=>self.actions.send.handle_error(send_buffer, &mut stream, &mut self.counts);
    //@subst_re Ok\(\(\)\)\s*\}\)(\s*\}\s*)$ ==>> Ok(()) } }; self.counts.transition_after_any(stream, is_pending_reset, &mut self.store); res_final }\1
    //@ret r
    //@spec     ensures
    //@spec         final(self).store.held() == old(self).store.held(),
    //@spec         frame.stream_id.0 == 0 ==> r == Err::<(), Error>(Error::GoAway(Reason::PROTOCOL_ERROR, Initiator::Library)) && final(self).counts.transitions@ == old(self).counts.transitions@,
    //@spec         // C15: a peer racing with our GOAWAY is legal — frames for streams beyond the cut-off are ignored
    //@spec         (frame.stream_id.0 != 0 && frame.stream_id.0 > old(self).actions.recv.max_stream_id.0) ==> r is Ok && final(self).counts.transitions@ == old(self).counts.transitions@,
    //@spec         // C17: a reset for a stream we know, at or below the cut-off, IS processed (not dropped): the stream is closed
    //@spec         // (asserted in the body) and transitioned
    //@spec         (frame.stream_id.0 != 0 && frame.stream_id.0 <= old(self).actions.recv.max_stream_id.0
    //@spec             && (old(self).store.spec_find(frame.stream_id) matches Some(s) && !s.is_pending_open)) ==> final(self).counts.transitions@ == old(self).counts.transitions@ + 1,
    //@spec         // at most one stream is transitioned, and the only errors are connection errors
    //@spec         final(self).counts.transitions@ <= old(self).counts.transitions@ + 1,
    //@spec         r is Err ==> (r matches Err(Error::GoAway(_, Initiator::Library))),
    //@end
}

impl SInner {
    // C02 / C09: WINDOW_UPDATE from the peer.  Stream 0 => the connection window (an overflow is a connection error with
    // the reason the flow-control layer reports); a stream still waiting to be opened => connection PROTOCOL_ERROR (frame on
    // an idle stream); a known stream => an overflow resets THAT stream (stream error), the connection survives; an
    // unknown stream => the idle rule decides.  No stream is transitioned or lost on any path.
    //@extract src/proto/streams/streams.rs Inner::recv_window_update
    //@subst_re fn recv_window_update<B>\(\s*&mut self,\s*send_buffer: &SendBuffer<B>,\s*frame: frame::WindowUpdate,\s*\) -> Result<\(\), Error>=>fn recv_window_update(&mut self, send_buffer: &mut SendBuf, frame: WuFrame) -> Result<(), Error>
    //@subst_re let mut send_buffer = send_buffer\.inner\.lock\(\)\.unwrap\(\);\s*let send_buffer = &mut \*send_buffer;=>
    //@subst .map_err(Error::library_go_away)=>.map_err_go_away()
    //@subst if stream.is_pending_open {=>if stream.is_pending_open { self.store.put_back_any(stream);
    //@subst_re \.map_err\(\|reason\| Error::library_reset\(id, reason\)\);=>; let res = match res { Ok(()) => Ok(()), Err(reason) => Err(Error::library_reset(id, reason)) };
    //@subst_re return self\.actions\.reset_on_recv_stream_err\(\s*send_buffer,\s*&mut stream,\s*&mut self\.counts,\s*res,\s*\);=>let _r = self.actions.reset_on_recv_stream_err(send_buffer, &mut stream, &mut self.counts, res); self.store.put_back_any(stream); return _r;
    //@ret r
    //@spec     ensures
    //@spec         final(self).store.held() == old(self).store.held(),
    //@spec         final(self).counts.transitions@ == old(self).counts.transitions@,
    //@spec         // C09: a WINDOW_UPDATE for a stream that was never announced to the peer is a connection error
    //@spec         (frame.stream_id.0 != 0 && (old(self).store.spec_find(frame.stream_id) matches Some(s) && s.is_pending_open))
    //@spec             ==> r == Err::<(), Error>(Error::GoAway(Reason::PROTOCOL_ERROR, Initiator::Library)),
    //@spec         // the only errors that leave this function are connection errors (a stream error was turned into RST_STREAM)
    //@spec         r is Err ==> (r matches Err(Error::GoAway(_, Initiator::Library))),
    //@end
}

/// StreamRef<B>, reduced to the key of its stream (the Arc<Mutex<Inner>> and the send buffer are passed in, see below)

/// frame::Headers as the dispatch layer sees it
#[derive(Clone, Copy, Debug)]
pub struct HdrFrame { pub stream_id: StreamId, pub eos: bool, pub tag: u8 }
impl HdrFrame {
    pub fn stream_id(&self) -> (r: StreamId) ensures r == self.stream_id { self.stream_id }
    pub fn is_end_stream(&self) -> (r: bool) ensures r == self.eos { self.eos }
}
pub enum OpenMode { PushPromise, Headers }
pub enum RecvHeaderBlockError { Oversize(Option<HFrame>), State(Error) }

impl Actions {
    /// Actions::may_have_forgotten_stream: id rules (Kani unit inner_recv_data_unknown_stream)
    pub uninterp spec fn forgotten(self, peer: PeerDyn, id: StreamId) -> bool;
    #[verifier::external_body]
    pub fn may_have_forgotten_stream(&self, peer: PeerDyn, id: StreamId) -> (r: bool)
        ensures r == self.forgotten(peer, id),
    { unimplemented!() }
}

impl Recv {
    /// Recv::open (Kani units recv_open_*): Ok(Some(id)) — the id itself — when the stream may be opened, Ok(None) when it is
    /// refused (RST_STREAM(REFUSED_STREAM) owed), Err = a connection error
    #[verifier::external_body]
    pub fn open(&mut self, id: StreamId, mode: OpenMode, counts: &mut Counts) -> (r: Result<Option<StreamId>, Error>)
        ensures
            final(self).init_window_sz == old(self).init_window_sz && final(self).max_stream_id == old(self).max_stream_id,
            final(counts).transitions@ == old(counts).transitions@,
            match r {
                Ok(Some(sid)) => sid == id && final(self).hlog@ == old(self).hlog@.push(HEv::Opened(id)),
                Ok(None) => final(self).hlog@ == old(self).hlog@.push(HEv::Refused(id)),
                Err(e) => (e matches Error::GoAway(_, Initiator::Library)) && final(self).hlog@ == old(self).hlog@,
            },
    { unimplemented!() }

    /// Recv::recv_headers (Kani units recv_recv_headers_*): a State error is a stream or connection error raised by this endpoint
    #[verifier::external_body]
    pub fn recv_headers(&mut self, frame: HdrFrame, stream: &mut Stream, counts: &mut Counts) -> (r: Result<(), RecvHeaderBlockError>)
        ensures
            final(self).hlog@ == old(self).hlog@.push(HEv::HeadersTo(old(stream).id)),
            final(self).init_window_sz == old(self).init_window_sz && final(self).max_stream_id == old(self).max_stream_id,
            final(stream).id == old(stream).id && final(stream).key == old(stream).key,
            final(counts).transitions@ == old(counts).transitions@,
            r matches Err(RecvHeaderBlockError::State(e)) ==> (e matches Error::Reset(sid, _, Initiator::Library) && sid == old(stream).id) || (e matches Error::GoAway(_, Initiator::Library)),
            // an over-size block is answered (431) only while the stream can still send a response
            r matches Err(RecvHeaderBlockError::Oversize(Some(_))) ==> !final(stream).state.closed(),
    { unimplemented!() }

    /// Recv::recv_trailers (its real body: unit v_recv)
    #[verifier::external_body]
    pub fn recv_trailers(&mut self, frame: HdrFrame, stream: &mut Stream) -> (r: Result<(), Error>)
        ensures
            final(self).hlog@ == old(self).hlog@.push(HEv::TrailersTo(old(stream).id)),
            final(self).init_window_sz == old(self).init_window_sz && final(self).max_stream_id == old(self).max_stream_id,
            final(stream).id == old(stream).id && final(stream).key == old(stream).key,
            r matches Err(e) ==> (e matches Error::Reset(sid, _, Initiator::Library) && sid == old(stream).id) || (e matches Error::GoAway(_, Initiator::Library)),
    { unimplemented!() }
}

impl Send {
    /// Send::send_headers for the 431 answer to an over-size request (no claim on the state: the real call site only
    /// debug_asserts that it succeeded)
    #[verifier::external_body]
    pub fn send_headers_answer(&mut self, frame: HFrame, buffer: &mut SendBuf, stream: &mut Stream, counts: &mut Counts, task: &mut Option<Waker>) -> (r: Result<(), UserError>)
        ensures
            final(self).init_window_sz == old(self).init_window_sz,
            final(stream).id == old(stream).id && final(stream).key == old(stream).key && (old(stream).state.closed() == final(stream).state.closed()),
            final(counts).transitions@ == old(counts).transitions@,
            r is Ok,      // the real debug_assert!(sent.is_ok(), "oversize response should not fail"): ASSUMED (Recv::recv_headers builds a legal response)
    { unimplemented!() }
}

impl SInner {
    // C09 / C13 / C15 / C02 / C05 / C19: HEADERS from the peer.
    //   beyond OUR GOAWAY cut-off => ignored, nothing touched (C15);
    //   unknown stream: (client) one we may have forgotten => STREAM_CLOSED stream error; otherwise Recv::open decides —
    //     a connection error passes through, a refusal ends the call, an accepted stream is CREATED with the peer's initial
    //     SEND window and our initial RECEIVE window (precondition of insert_new) (C02/C03);
    //   a stream still waiting to be opened (never announced to the peer) => connection PROTOCOL_ERROR, stream untouched (C09);
    //   a locally reset stream => ignored;
    //   otherwise the frame goes to Recv::recv_headers if the stream awaits headers, else it is trailers: without END_STREAM
    //     a stream PROTOCOL_ERROR (C13, malformed), with it Recv::recv_trailers; an over-size block is answered with 431 +
    //     implicit reset (server) or is a stream PROTOCOL_ERROR (client); whatever the result, the stream goes through
    //     Counts::transition_after exactly once (C05/C19) and a stream error leaves only as a reset of THAT stream.
    // Listed substitutions: lock preamble removed; the Entry API (`find_entry` / `Occupied(e) => e.key()` / `Vacant(e)` /
    // `e.insert(stream)` / `store.resolve(key)`) => the owned-store calls `find_mut` / `insert_new`; `Counts::transition(stream,
    // |counts, stream| BODY)` => `recv_headers_in_transition` (BODY lifted into a method, second extraction below) followed by
    // `transition_after_any`; Ptrs that go out of scope on early returns => `put_back_*`.
    //@extract src/proto/streams/streams.rs Inner::recv_headers
    //@subst_re fn recv_headers<B>\(\s*&mut self,\s*peer: peer::Dyn,\s*send_buffer: &SendBuffer<B>,\s*frame: frame::Headers,\s*\) -> Result<\(\), Error>=>fn recv_headers(&mut self, peer: PeerDyn, send_buffer: &mut SendBuf, frame: HdrFrame) -> Result<(), Error>
    //@subst let key = match self.store.find_entry(id) {=>let stream = match self.store.find_mut(&id) {
    //@subst Entry::Occupied(e) => e.key(), ==>> Some(s) => s,
    //@subst Entry::Vacant(e) => { ==>> None => {
    //@subst .open(id, Open::Headers, &mut self.counts)?=>.open(id, OpenMode::Headers, &mut self.counts)?
    //@subst e.insert(stream)=>self.store.insert_new(stream_id, stream, Ghost(self.actions.send.init_window_sz as int), Ghost(self.actions.recv.init_window_sz as int))
    //@subst let stream = self.store.resolve(key);=>let ghost s0 = stream;
    //@subst_opt_re if stream\.is_pending_open \{ ==>> if stream.is_pending_open { self.store.put_back_same(stream, Ghost(s0));
    //@subst_opt_re if stream\.state\.is_local_error\(\) \{ ==>> if stream.state.is_local_error() { self.store.put_back_same(stream, Ghost(s0));
    //@subst_re let actions = &mut self\.actions;\s*let mut send_buffer = send_buffer\.inner\.lock\(\)\.unwrap\(\);\s*let send_buffer = &mut \*send_buffer;=>
    //@subst_re self\.counts\.transition\(stream, \|counts, stream\| \{.*\}\)(\s*\}\s*)$ ==>> { let mut stream = stream; let is_pending_reset = stream.is_pending_reset_expiration(); let res_final = self.recv_headers_in_transition(send_buffer, frame, &mut stream); self.counts.transition_after_any(stream, is_pending_reset, &mut self.store); res_final }\1
    //@ret r
    //@spec     ensures
    //@spec         final(self).store.held() == old(self).store.held(),
    //@spec         // C15: beyond our GOAWAY cut-off: ignored
    //@spec         frame.stream_id.0 > old(self).actions.recv.max_stream_id.0 ==> r is Ok && final(self).counts.transitions@ == old(self).counts.transitions@
    //@spec             && final(self).actions.recv.hlog@ == old(self).actions.recv.hlog@,
    //@spec         // a response for a stream this client has already forgotten
    //@spec         (frame.stream_id.0 <= old(self).actions.recv.max_stream_id.0 && old(self).store.spec_find(frame.stream_id) is None && !(peer == PeerDyn::Server)
    //@spec             && old(self).actions.forgotten(peer, frame.stream_id)) ==> r == Err::<(), Error>(Error::Reset(frame.stream_id, Reason::STREAM_CLOSED, Initiator::Library))
    //@spec             && final(self).actions.recv.hlog@ == old(self).actions.recv.hlog@ && final(self).counts.transitions@ == old(self).counts.transitions@,
    //@spec         // C09: HEADERS for a stream that was never announced to the peer
    //@spec         (frame.stream_id.0 <= old(self).actions.recv.max_stream_id.0 && (old(self).store.spec_find(frame.stream_id) matches Some(s) && s.is_pending_open))
    //@spec             ==> r == Err::<(), Error>(Error::GoAway(Reason::PROTOCOL_ERROR, Initiator::Library)) && final(self).counts.transitions@ == old(self).counts.transitions@
    //@spec                 && final(self).actions.recv.hlog@ == old(self).actions.recv.hlog@,
    //@spec         // a known stream that is neither waiting to be opened nor locally reset is processed and transitioned exactly once
    //@spec         (frame.stream_id.0 <= old(self).actions.recv.max_stream_id.0 && (old(self).store.spec_find(frame.stream_id) matches Some(s) && !s.is_pending_open && !s.state.local_error()))
    //@spec             ==> final(self).counts.transitions@ == old(self).counts.transitions@ + 1,
    //@spec         (frame.stream_id.0 <= old(self).actions.recv.max_stream_id.0 && (old(self).store.spec_find(frame.stream_id) matches Some(s) && !s.is_pending_open && s.state.local_error()))
    //@spec             ==> r is Ok && final(self).counts.transitions@ == old(self).counts.transitions@ && final(self).actions.recv.hlog@ == old(self).actions.recv.hlog@,
    //@spec         final(self).counts.transitions@ <= old(self).counts.transitions@ + 1,
    //@spec         // errors that leave: connection errors raised here, or a reset of THIS stream raised by this endpoint
    //@spec         r matches Err(e) ==> (e matches Error::GoAway(_, Initiator::Library)) || (e matches Error::Reset(id, _, Initiator::Library) && id == frame.stream_id),
    //@end

    // The closure passed to Counts::transition in Inner::recv_headers, lifted into a method (same source text: everything
    // outside the closure body is cut away by the first substitution; `actions` is `self.actions`, `counts` is `self.counts`).
    //@extract src/proto/streams/streams.rs Inner::recv_headers
    //@subst_re fn recv_headers<B>\(\s*&mut self,\s*peer: peer::Dyn,\s*send_buffer: &SendBuffer<B>,\s*frame: frame::Headers,\s*\) -> Result<\(\), Error>=>fn recv_headers_in_transition(&mut self, send_buffer: &mut SendBuf, frame: HdrFrame, stream: &mut Stream) -> Result<(), Error>
    //@subst_re ^\s*\{.*?self\.counts\.transition\(stream, \|counts, stream\| \{(.*)\}\)\s*\}\s*$ ==>> {\1}
    //@subst_re (?<![\w.])actions\.=>self.actions.
    //@subst match self.actions.recv.recv_headers(frame, stream, counts) {=>match self.actions.recv.recv_headers(frame, stream, &mut self.counts) {
    //@subst_re let sent = self\.actions\.send\.send_headers\(\s*resp, send_buffer, stream, counts, &mut self\.actions\.task\);=>let ghost sid = stream.id; let sent = self.actions.send.send_headers_answer(resp, send_buffer, stream, &mut self.counts, &mut self.actions.task); proof { self.actions.recv.hlog@ = self.actions.recv.hlog@.push(HEv::Answered431(sid)); }
    //@subst_re assert!\(sent\.is_ok\(\), "oversize response should not fail"\);=>assert(sent.is_ok());
    //@subst_re self\.actions\.send\.schedule_implicit_reset\(\s*stream,\s*Reason::PROTOCOL_ERROR,\s*counts,\s*&mut self\.actions\.task\);=>self.actions.send.schedule_implicit_reset(stream, Reason::PROTOCOL_ERROR, &mut self.counts, &mut self.actions.task); proof { self.actions.recv.hlog@ = self.actions.recv.hlog@.push(HEv::ImplicitReset(sid, Reason::PROTOCOL_ERROR)); }
    //@subst self.actions.recv.enqueue_reset_expiration(stream, counts);=>self.actions.recv.enqueue_reset_expiration(stream, &mut self.counts);
    //@subst self.actions.reset_on_recv_stream_err(send_buffer, stream, counts, res)=>self.actions.reset_on_recv_stream_err(send_buffer, stream, &mut self.counts, res)
    //@ret r
    //@spec     requires
    //@spec         !old(stream).state.local_error(),
    //@spec     ensures
    //@spec         final(self).store == old(self).store && final(self).counts.transitions@ == old(self).counts.transitions@,
    //@spec         final(stream).id == old(stream).id && final(stream).key == old(stream).key,
    //@spec         (old(stream).state.recv_headers() || frame.eos) ==> final(self).actions.recv.hlog@.len() > old(self).actions.recv.hlog@.len(),
    //@spec         // headers go to recv_headers, anything later is trailers
    //@spec         old(stream).state.recv_headers() ==> final(self).actions.recv.hlog@[old(self).actions.recv.hlog@.len() as int] == HEv::HeadersTo(old(stream).id),
    //@spec         // C13: trailers that do not end the stream are malformed: a stream PROTOCOL_ERROR, nothing is delivered
    //@spec         (!old(stream).state.recv_headers() && !frame.eos) ==> r == Err::<(), Error>(Error::Reset(old(stream).id, Reason::PROTOCOL_ERROR, Initiator::Library))
    //@spec             && final(self).actions.recv.hlog@ == old(self).actions.recv.hlog@,
    //@spec         (!old(stream).state.recv_headers() && frame.eos) ==> final(self).actions.recv.hlog@ == old(self).actions.recv.hlog@.push(HEv::TrailersTo(old(stream).id)),
    //@spec         r matches Err(e) ==> (e matches Error::GoAway(_, Initiator::Library)) || (e matches Error::Reset(id, _, Initiator::Library) && id == old(stream).id),
    //@end
}


/// frame::PushPromise as the dispatch layer sees it
#[derive(Clone, Copy, Debug)]
pub struct PPRecv { pub stream_id: StreamId, pub promised_id: StreamId, pub tag: u8 }
impl PPRecv {
    pub fn stream_id(&self) -> (r: StreamId) ensures r == self.stream_id { self.stream_id }
    pub fn promised_id(&self) -> (r: StreamId) ensures r == self.promised_id { self.promised_id }
}

impl QueuePP {
    /// Queue<NextAccept>::push of a stream that is not queued yet
    #[verifier::external_body]
    pub fn push(&mut self, stream: &mut Stream) -> (r: bool)
        ensures final(self).ghost_len == old(self).ghost_len + 1, final(stream).key == old(stream).key && final(stream).id == old(stream).id,
    { unimplemented!() }
}

impl SStore {
    /// the parent of an accepted PUSH_PROMISE goes back to the store: C01 / C06 — the promised stream was APPENDED to its
    /// queue of unclaimed pushed streams (nothing else in the queue lost) and the task waiting for a push was woken
    #[verifier::external_body]
    pub fn put_back_parent(&mut self, stream: Stream, s0: Ghost<Stream>)
        requires
            stream.pending_push_promises.ghost_len == s0@.pending_push_promises.ghost_len + 1,
            stream.push_task is None,
            stream.key == s0@.key && stream.id == s0@.id && stream.state == s0@.state && stream.ref_count == s0@.ref_count,
        ensures final(self).held() == old(self).held() - 1 && final(self).passes@ == old(self).passes@,
    { unimplemented!() }
}

impl Recv {
    /// Recv::ensure_can_reserve: push disabled by our SETTINGS_ENABLE_PUSH=0 => connection PROTOCOL_ERROR (Kani unit recv_ensure_can_reserve)
    pub uninterp spec fn push_enabled(self) -> bool;
    #[verifier::external_body]
    pub fn ensure_can_reserve(&self) -> (r: Result<(), Error>)
        ensures self.push_enabled() ==> r is Ok, !self.push_enabled() ==> r == Err::<(), Error>(Error::GoAway(Reason::PROTOCOL_ERROR, Initiator::Library)),
    { unimplemented!() }

    /// Recv::recv_push_promise: validates the promised request and queues it on the promised stream
    #[verifier::external_body]
    pub fn recv_push_promise(&mut self, frame: PPRecv, stream: &mut Stream) -> (r: Result<(), Error>)
        requires old(stream).id == frame.promised_id,
        ensures
            final(self).init_window_sz == old(self).init_window_sz && final(self).max_stream_id == old(self).max_stream_id,
            final(self).hlog@ == old(self).hlog@.push(HEv::HeadersTo(old(stream).id)),
            final(stream).id == old(stream).id && final(stream).key == old(stream).key,
            // unit v_recv: a refused promise is a stream error on the PROMISED stream (or what convert_poll_message reports for it)
            r matches Err(e) ==> (e matches Error::Reset(sid, _, Initiator::Library) && sid == frame.promised_id) || (e matches Error::GoAway(_, Initiator::Library)),
    { unimplemented!() }
}

impl SInner {
    // C04 / C09 / C15 / C02 / C01: PUSH_PROMISE from the peer.
    //   unknown parent stream => connection PROTOCOL_ERROR; parent beyond OUR GOAWAY cut-off => ignored; parent not
    //   receive-open (closed, half-closed(remote), reserved(local)) => connection PROTOCOL_ERROR, a parent that failed
    //   earlier => that error (C04: PUSH_PROMISE only on a stream the peer may still send on); push disabled by our settings
    //   => connection PROTOCOL_ERROR (C09); Recv::open decides about the promised id (connection error / refusal / accepted);
    //   an accepted promised stream is CREATED with the peer's initial SEND window and our initial RECEIVE window (C02) and
    //   goes through Counts::transition_after exactly once; if its request is valid it is APPENDED to the parent's queue of
    //   unclaimed pushed streams and the task waiting for a push is woken (obligations of put_back_parent).
    // Listed substitutions: generics; Ptrs that go out of scope => put_back_*; `?` with a Ptr held written out;
    // `store.insert(..)` => insert_new; the closure of Counts::transition lifted (second extraction below); the index
    // expression `self.store[parent_key]` and `&mut self.store.resolve(..)` temporaries => resolve_key / put_back.
    //@extract src/proto/streams/streams.rs Inner::recv_push_promise
    //@subst_re fn recv_push_promise<B>\(\s*&mut self,\s*send_buffer: &SendBuffer<B>,\s*frame: frame::PushPromise,\s*\) -> Result<\(\), Error>=>fn recv_push_promise(&mut self, send_buffer: &mut SendBuf, frame: PPRecv) -> Result<(), Error>
    //@subst Some(stream) => { ==>> Some(stream) => { let ghost p0 = stream;
    //@subst_opt_re if id > self\.actions\.recv\.max_stream_id\(\) \{ ==>> if id > self.actions.recv.max_stream_id() { self.store.put_back_same(stream, Ghost(p0));
    //@subst_opt_re if !stream\.state\.ensure_recv_open\(\)\? \{ ==>> let _ro = match stream.state.ensure_recv_open() { Ok(b) => b, Err(e) => { self.store.put_back_same(stream, Ghost(p0)); return Err(e); } }; if !_ro { self.store.put_back_same(stream, Ghost(p0));
    //@subst_re stream\.key\(\)(\s*\}\s*None => \{) ==>> let _k = stream.key(); self.store.put_back_same(stream, Ghost(p0)); _k\1
    //@subst .open(promised_id, Open::PushPromise, &mut self.counts)?=>.open(promised_id, OpenMode::PushPromise, &mut self.counts)?
    //@subst_re let stream = self\.store\.insert\(promised_id, \{\s*Stream::new\((.*?)\)\s*\}\); ==>> let stream = self.store.insert_new(promised_id, Stream::new(\1), Ghost(self.actions.send.init_window_sz as int), Ghost(self.actions.recv.init_window_sz as int));
    //@subst let child_key: Option<store::Key> = {=>let child_key: Option<Key> = {
    //@subst let actions = &mut self.actions;=>
    //@subst_re self\.counts\.transition\(stream, \|counts, stream\| \{.*?\}\)\?(\s*\};) ==>> { let mut stream = stream; let is_pending_reset = stream.is_pending_reset_expiration(); let res_t = self.recv_push_promise_in_transition(send_buffer, frame, &mut stream); self.counts.transition_after_any(stream, is_pending_reset, &mut self.store); res_t }?\1
    //@subst let mut ppp = self.store[parent_key].pending_push_promises.take();=>let mut parent = self.store.resolve_key(parent_key); let ghost par0 = parent; let mut ppp = parent.pending_push_promises.take();
    //@subst_opt_re ppp\.push\(&mut self\.store\.resolve\(child\)\); ==>> let mut _c = self.store.resolve_key(child); ppp.push(&mut _c); self.store.put_back_any(_c);
    //@subst let parent = &mut self.store.resolve(parent_key);=>
    //@subst_re \};(\s*Ok\(\(\)\)\s*\}\s*)$ ==>> self.store.put_back_parent(parent, Ghost(par0)); };\1
    //@ret r
    //@spec     ensures
    //@spec         final(self).store.held() == old(self).store.held(),
    //@spec         // C09: PUSH_PROMISE on a stream we do not know
    //@spec         old(self).store.spec_find(frame.stream_id) is None ==> r == Err::<(), Error>(Error::GoAway(Reason::PROTOCOL_ERROR, Initiator::Library))
    //@spec             && final(self).counts.transitions@ == old(self).counts.transitions@ && final(self).actions.recv.hlog@ == old(self).actions.recv.hlog@,
    //@spec         // C15: parent beyond our GOAWAY cut-off: ignored
    //@spec         (old(self).store.spec_find(frame.stream_id) is Some && frame.stream_id.0 > old(self).actions.recv.max_stream_id.0) ==> r is Ok
    //@spec             && final(self).counts.transitions@ == old(self).counts.transitions@ && final(self).actions.recv.hlog@ == old(self).actions.recv.hlog@,
    //@spec         // C04: the parent must be receive-open
    //@spec         (old(self).store.spec_find(frame.stream_id) matches Some(p) && frame.stream_id.0 <= old(self).actions.recv.max_stream_id.0 && !(p.state.recv_open_spec() matches Ok(true)))
    //@spec             ==> r is Err && final(self).counts.transitions@ == old(self).counts.transitions@ && final(self).actions.recv.hlog@ == old(self).actions.recv.hlog@,
    //@spec         // C09: push disabled
    //@spec         (old(self).store.spec_find(frame.stream_id) matches Some(p) && frame.stream_id.0 <= old(self).actions.recv.max_stream_id.0 && (p.state.recv_open_spec() matches Ok(true))
    //@spec             && !old(self).actions.recv.push_enabled()) ==> r == Err::<(), Error>(Error::GoAway(Reason::PROTOCOL_ERROR, Initiator::Library))
    //@spec                 && final(self).counts.transitions@ == old(self).counts.transitions@ && final(self).actions.recv.hlog@ == old(self).actions.recv.hlog@,
    //@spec         final(self).counts.transitions@ <= old(self).counts.transitions@ + 1,
    //@spec         // nothing but connection errors (or the error the parent already failed with) leaves
    //@spec         r matches Err(e) ==> (e matches Error::GoAway(_, Initiator::Library)) || (old(self).store.spec_find(frame.stream_id) matches Some(p) && p.state.recv_open_spec() == Err::<bool, Error>(e)),
    //@end

    // the closure of Counts::transition in Inner::recv_push_promise, lifted
    //@extract src/proto/streams/streams.rs Inner::recv_push_promise
    //@subst_re fn recv_push_promise<B>\(\s*&mut self,\s*send_buffer: &SendBuffer<B>,\s*frame: frame::PushPromise,\s*\) -> Result<\(\), Error>=>fn recv_push_promise_in_transition(&mut self, send_buffer: &mut SendBuf, frame: PPRecv, stream: &mut Stream) -> Result<Option<Key>, Error>
    //@subst_re ^\s*\{.*?self\.counts\.transition\(stream, \|counts, stream\| \{(.*?)\}\)\?\s*\};.*$ ==>> {\1}
    //@subst_re (?<![\w.])actions(\s*)\.=>self.actions\1.
    //@subst let mut send_buffer = send_buffer.inner.lock().unwrap();=>
    //@subst_re self\.actions\s*\.reset_on_recv_stream_err\(\s*&mut \*send_buffer,\s*stream,\s*counts,\s*stream_valid,\s*\)\s*\.map\(\|\(\)\| None\) ==>> match self.actions.reset_on_recv_stream_err(send_buffer, stream, &mut self.counts, stream_valid) { Ok(()) => Ok(None), Err(e) => Err(e) }
    //@ret r
    //@spec     requires old(stream).id == frame.promised_id,
    //@spec     ensures
    //@spec         final(self).store == old(self).store && final(self).counts.transitions@ == old(self).counts.transitions@,
    //@spec         final(stream).id == old(stream).id && final(stream).key == old(stream).key,
    //@spec         final(self).actions.recv.hlog@ == old(self).actions.recv.hlog@.push(HEv::HeadersTo(old(stream).id)),
    //@spec         r matches Ok(Some(k)) ==> k == old(stream).key,
    //@spec         r matches Err(e) ==> (e matches Error::GoAway(_, Initiator::Library)),
    //@end
}


/// crate::proto::error::GoAway { debug_data, reason } (debug data not modelled)
#[derive(PartialEq, Eq, Structural, Clone, Copy, Debug)]
pub struct ErrGoAway { pub reason: Reason }

impl Initiator {
    //@extract src/proto/error.rs Initiator::is_library
    //@ret r
    //@spec     ensures r == (self matches Initiator::Library),
    //@end
}

impl Recv {
    /// Recv::maybe_reset_next_stream_id (Kani unit recv_ids)
    #[verifier::external_body]
    pub fn maybe_reset_next_stream_id(&mut self, id: StreamId)
        ensures final(self).init_window_sz == old(self).init_window_sz && final(self).max_stream_id == old(self).max_stream_id && final(self).hlog@ == old(self).hlog@,
    { unimplemented!() }
}

impl SStore {
    /// Store::insert of the placeholder record `Stream::new(id, 0, 0)` that Inner::send_reset creates for a stream it does
    /// not know (it is reset at once; its windows are never used): NOT subject to the new-stream window obligation
    #[verifier::external_body]
    pub fn insert_placeholder(&mut self, id: StreamId, stream: Stream) -> (s: Stream)
        requires stream.id == id, stream.send_flow.w() == 0 && stream.recv_flow.w() == 0,
        ensures s == (Stream { key: s.key, ..stream }) && final(self).held() == old(self).held() + 1 && final(self).passes@ == old(self).passes@,
    { unimplemented!() }
}

impl Actions {
    // C17 / C18 / C09: resetting a stream on behalf of the library or the user.  A LIBRARY reset (the peer misbehaved) is
    // charged against the lifetime quota first; with the quota exhausted NOTHING is sent and the caller gets
    // GoAway(ENHANCE_YOUR_CALM) (which DynConnection::handle_poll2_result turns into the connection error: unit
    // v_connection); otherwise exactly one Send::send_reset(reason, initiator) for this stream, the reader is woken; in every
    // case the stream goes through Counts::transition_after exactly once.
    // Listed substitutions: the consumed `Ptr` => the owned stream + the store it came from (extra parameter); the closure of
    // Counts::transition lifted (second extraction); debug data of the GoAway not modelled.
    //@extract src/proto/streams/streams.rs Actions::send_reset
    //@subst_re fn send_reset<B>\(\s*&mut self,\s*stream: store::Ptr,\s*reason: Reason,\s*initiator: Initiator,\s*counts: &mut Counts,\s*send_buffer: &mut Buffer<Frame<B>>,\s*\) -> Result<\(\), crate::proto::error::GoAway>=>fn send_reset(&mut self, stream: Stream, reason: Reason, initiator: Initiator, counts: &mut Counts, send_buffer: &mut SendBuf, store: &mut SStore) -> Result<(), ErrGoAway>
    //@subst_re counts\.transition\(stream, \|counts, stream\| \{.*\}\)(\s*\}\s*)$ ==>> { let mut stream = stream; let is_pending_reset = stream.is_pending_reset_expiration(); let res_t = self.send_reset_in_transition(&mut stream, reason, initiator, counts, send_buffer); counts.transition_after_any(stream, is_pending_reset, store); res_t }\1
    //@ret r
    //@spec     ensures
    //@spec         final(store).held() == old(store).held() - 1,
    //@spec         final(counts).transitions@ == old(counts).transitions@ + 1,
    //@spec         final(self).recv == old(self).recv && final(self).conn_error == old(self).conn_error && final(self).send.init_window_sz == old(self).send.init_window_sz,
    //@spec         // over the quota: nothing is sent
    //@spec         (initiator == Initiator::Library && !old(counts).quota_left()) ==> r == Err::<(), ErrGoAway>(ErrGoAway { reason: Reason::ENHANCE_YOUR_CALM })
    //@spec             && final(self).send.rst@ == old(self).send.rst@ && final(counts).err_resets@ == old(counts).err_resets@,
    //@spec         // otherwise exactly one reset of this stream with exactly this reason and initiator
    //@spec         !(initiator == Initiator::Library && !old(counts).quota_left()) ==> r is Ok && final(self).send.rst@ == old(self).send.rst@.push((stream.id, reason, initiator))
    //@spec             && final(counts).err_resets@ == old(counts).err_resets@ + (if initiator == Initiator::Library { 1int } else { 0int }),
    //@end

    //@extract src/proto/streams/streams.rs Actions::send_reset
    //@subst_re fn send_reset<B>\(\s*&mut self,\s*stream: store::Ptr,\s*reason: Reason,\s*initiator: Initiator,\s*counts: &mut Counts,\s*send_buffer: &mut Buffer<Frame<B>>,\s*\) -> Result<\(\), crate::proto::error::GoAway>=>fn send_reset_in_transition(&mut self, stream: &mut Stream, reason: Reason, initiator: Initiator, counts: &mut Counts, send_buffer: &mut SendBuf) -> Result<(), ErrGoAway>
    //@subst_re ^\s*\{\s*counts\.transition\(stream, \|counts, stream\| \{(.*)\}\)\s*\}\s*$ ==>> {\1}
    //@subst_re return Err\(crate::proto::error::GoAway \{\s*reason: Reason::ENHANCE_YOUR_CALM,\s*debug_data: "too_many_internal_resets"\.into\(\),\s*\}\);=>return Err(ErrGoAway { reason: Reason::ENHANCE_YOUR_CALM });
    //@ret r
    //@spec     ensures
    //@spec         final(counts).transitions@ == old(counts).transitions@,
    //@spec         final(self).recv == old(self).recv && final(self).conn_error == old(self).conn_error && final(self).send.init_window_sz == old(self).send.init_window_sz,
    //@spec         final(stream).id == old(stream).id && final(stream).key == old(stream).key,
    //@spec         (initiator == Initiator::Library && !old(counts).quota_left()) ==> r == Err::<(), ErrGoAway>(ErrGoAway { reason: Reason::ENHANCE_YOUR_CALM })
    //@spec             && final(self).send.rst@ == old(self).send.rst@ && *final(counts) == *old(counts) && *final(stream) == *old(stream),
    //@spec         !(initiator == Initiator::Library && !old(counts).quota_left()) ==> r is Ok && final(self).send.rst@ == old(self).send.rst@.push((old(stream).id, reason, initiator))
    //@spec             && final(counts).err_resets@ == old(counts).err_resets@ + (if initiator == Initiator::Library { 1int } else { 0int })
    //@spec             && final(stream).recv_task is None,
    //@end
}

impl SInner {
    // C17 / C09: the connection layer resets stream `id` after a stream error raised while reading (DynConnection::
    // handle_poll2_result).  A stream we do not know gets a placeholder record so that later frames for it are recognised as
    // "for a reset stream" (and the next-id bookkeeping of the side that would have opened it is advanced); then exactly
    // Actions::send_reset(.., Initiator::Library) above.  Every Ptr is handed back; exactly one transition.
    //@extract src/proto/streams/streams.rs Inner::send_reset
    //@subst_re fn send_reset<B>\(\s*&mut self,\s*send_buffer: &SendBuffer<B>,\s*id: StreamId,\s*reason: Reason,\s*\) -> Result<\(\), crate::proto::error::GoAway>=>fn send_reset(&mut self, send_buffer: &mut SendBuf, id: StreamId, reason: Reason) -> Result<(), ErrGoAway>
    //@subst let key = match self.store.find_entry(id) {=>let stream = match self.store.find_mut(&id) {
    //@subst Entry::Occupied(e) => e.key(), ==>> Some(s) => s,
    //@subst Entry::Vacant(e) => { ==>> None => {
    //@subst e.insert(stream)=>self.store.insert_placeholder(id, stream)
    //@subst_re let stream = self\.store\.resolve\(key\);\s*let mut send_buffer = send_buffer\.inner\.lock\(\)\.unwrap\(\);\s*let send_buffer = &mut \*send_buffer;=>
    //@subst_re &mut self\.counts,\s*send_buffer,\s*\)=>&mut self.counts, send_buffer, &mut self.store)
    //@ret r
    //@spec     requires
    //@spec         // a stream error names a stream: errors about stream 0 are connection errors (decode_frame_* units); the real
    //@spec         // `assert!(!id.is_zero())` of peer::Dyn::is_local_init
    //@spec         id.0 != 0,
    //@spec     ensures
    //@spec         final(self).store.held() == old(self).store.held(),
    //@spec         final(self).counts.transitions@ == old(self).counts.transitions@ + 1,
    //@spec         !old(self).counts.quota_left() ==> r == Err::<(), ErrGoAway>(ErrGoAway { reason: Reason::ENHANCE_YOUR_CALM }) && final(self).actions.send.rst@ == old(self).actions.send.rst@,
    //@spec         old(self).counts.quota_left() ==> r is Ok && final(self).actions.send.rst@ == old(self).actions.send.rst@.push((id, reason, Initiator::Library))
    //@spec             && final(self).counts.err_resets@ == old(self).counts.err_resets@ + 1,
    //@end
}

pub struct StreamRefM { pub key: Key }

//@extract src/proto/streams/streams.rs OpaqueStreamRef::new
//@subst fn new(inner: Arc<Mutex<Inner>>, stream: &mut store::Ptr) -> OpaqueStreamRef=>fn opaque_stream_ref_new(stream: &mut Stream) -> Key
//@subst_re OpaqueStreamRef \{\s*inner,\s*key: stream\.key\(\),\s*\}=>stream.key()
//@ret r
//@spec     requires old(stream).ref_count < usize::MAX,
//@spec     ensures r == old(stream).key && *final(stream) == (Stream { ref_count: (old(stream).ref_count + 1) as usize, ..*old(stream) }),
//@end

impl StreamRefM {
    // C02 / C03 / C04 / C19: a server promises a stream.  The new record is created with the peer's initial SEND window
    // and our initial RECEIVE window (precondition of SStore::insert_new — a swap of the two arguments of Stream::new is a
    // failed obligation), reserved(local), waiting for its PUSH_PROMISE; if the promise cannot be queued the record is
    // removed again; on success exactly one new handle exists for it.  Every Ptr is handed back.
    // Listed substitutions: the two Mutex lock preambles and `request.extensions_mut().clear()` are removed (the body runs
    // inside the critical section; `me` and `send_buffer` become parameters), `actions` is `me.actions`, the returned
    // StreamRef is reduced to the key of the promised stream.
    //@extract src/proto/streams/streams.rs StreamRef::send_push_promise
    //@subst_re pub fn send_push_promise\(\s*&mut self,\s*mut request: Request<\(\)>,\s*\) -> Result<StreamRef<B>, UserError>=>pub fn send_push_promise(&mut self, request: Req, me: &mut SInner, send_buffer: &mut SendBuf) -> Result<Key, UserError>
    //@subst_re request\.extensions_mut\(\)\.clear\(\);\s*let mut me = self\.opaque\.inner\.lock\(\)\.unwrap\(\);\s*let me = &mut \*me;\s*let mut send_buffer = self\.send_buffer\.inner\.lock\(\)\.unwrap\(\);\s*let send_buffer = &mut \*send_buffer;\s*let actions = &mut me\.actions;=>
    //@subst let promised_id = actions.send.reserve_local()?;=>let promised_id = me.actions.send.reserve_local()?;
    //@subst_re me\.store\.insert\(\s*promised_id,\s*Stream::new\((.*?)\),\s*\); ==>> me.store.insert_new(promised_id, Stream::new(\1), Ghost(me.actions.send.init_window_sz as int), Ghost(me.actions.recv.init_window_sz as int));
    //@subst actions.send.init_window_sz()=>me.actions.send.init_window_sz()
    //@subst actions.recv.init_window_sz()=>me.actions.recv.init_window_sz()
    //@subst_re child_stream\.key\(\)\s*\}; ==>> let _k = child_stream.key(); me.store.put_back_any(child_stream); _k };
    //@subst let mut stream = me.store.resolve(self.opaque.key);=>let mut stream = me.store.resolve_key(self.key);
    //@subst crate::server::Peer::convert_push_message(stream.id, promised_id, request)?;=>match convert_push_message(stream.id, promised_id, request) { Ok(f) => f, Err(e) => { me.store.put_back_any(stream); return Err(e); } };
    //@subst_re actions\s*\.send\s*\.send_push_promise\(frame, send_buffer, &mut stream, &mut actions\.task\)\s*\}; ==>> let _p = me.actions.send.send_push_promise(frame, send_buffer, &mut stream, &mut me.actions.task); me.store.put_back_any(stream); _p };
    //@subst let mut child_stream = me.store.resolve(child_key);=>let mut child_stream = me.store.resolve_key(child_key);
    //@subst child_stream.remove();=>me.store.remove(child_stream);
    //@subst_re let opaque =\s*OpaqueStreamRef::new\(self\.opaque\.inner\.clone\(\), &mut me\.store\.resolve\(child_key\)\); ==>> let mut _c = me.store.resolve_promised_child(child_key); let opaque = opaque_stream_ref_new(&mut _c); me.store.put_back_any(_c);
    //@subst_re Ok\(StreamRef \{\s*opaque,\s*send_buffer: self\.send_buffer\.clone\(\),\s*\}\)=>Ok(opaque)
    //@ret r
    //@spec     requires old(me).refs < usize::MAX,
    //@spec     ensures
    //@spec         final(me).store.held() == old(me).store.held(),
    //@spec         r is Ok ==> final(me).refs == old(me).refs + 1,
    //@spec         r is Err ==> final(me).refs == old(me).refs,
    //@spec         final(me).actions.send.init_window_sz == old(me).actions.send.init_window_sz && final(me).actions.recv.init_window_sz == old(me).actions.recv.init_window_sz,
    //@end
}

/// Streams<B, P>, reduced (the Arc<Mutex<Inner>> and the send buffer are passed in)
pub struct StreamsM { pub tag: u8 }

impl StreamsM {
    // C02 / C03 / C04 / C05 / C13 / C19: a client starts a request.  Refused — nothing created, handle count unchanged — when
    // the connection has failed, when stream ids are exhausted, when this handle's previous request is still waiting for a
    // concurrency slot (C05: poll_ready must be used), when the endpoint is a server; otherwise the new record is created
    // with the peer's initial SEND window and our initial RECEIVE window (precondition of insert_new), marked HEAD when the
    // method is HEAD (C13: no body expected), and — if the HEADERS cannot be queued — removed again.  On success exactly
    // one handle exists for the stream and the stream is not closed (the real debug_assert, an obligation).
    // Listed substitutions: lock preambles / extension handling removed; `?` with its From conversion into SendError
    // written out; the returned StreamRef reduced to the key.
    //@extract src/proto/streams/streams.rs Streams::send_request
    //@subst_re pub fn send_request\(\s*&mut self,\s*mut request: Request<\(\)>,\s*end_of_stream: bool,\s*pending: Option<&OpaqueStreamRef>,\s*\) -> Result<\(StreamRef<B>, bool\), SendError>=>pub fn send_request(&mut self, request: Req, end_of_stream: bool, pending: Option<&StreamRefM>, me: &mut SInner, send_buffer: &mut SendBuf) -> Result<(Key, bool), SendErr>
    //@subst_re use super::stream::ContentLength;\s*use http::Method;\s*let protocol = request\.extensions_mut\(\)\.remove::<Protocol>\(\);\s*request\.extensions_mut\(\)\.clear\(\);\s*let mut me = self\.inner\.lock\(\)\.unwrap\(\);\s*let me = &mut \*me;\s*let mut send_buffer = self\.send_buffer\.inner\.lock\(\)\.unwrap\(\);\s*let send_buffer = &mut \*send_buffer;=>
    //@subst me.actions.ensure_no_conn_error()?;=>if let Err(e) = me.actions.ensure_no_conn_error() { return Err(SendErr::Connection(e)); }
    //@subst me.actions.send.ensure_next_stream_id()?;=>if let Err(e) = me.actions.send.ensure_next_stream_id() { return Err(SendErr::User(e)); }
    //@subst if me.store.resolve(stream.key).is_pending_open {=>if me.store.is_pending_open_at(stream.key) {
    //@subst return Err(UserError::Rejected.into());=>return Err(SendErr::User(UserError::Rejected));
    //@subst return Err(UserError::UnexpectedFrameType.into());=>return Err(SendErr::User(UserError::UnexpectedFrameType));
    //@subst let stream_id = me.actions.send.open()?;=>let stream_id = match me.actions.send.open() { Ok(i) => i, Err(e) => { return Err(SendErr::User(e)); } };
    //@subst if *request.method() == Method::HEAD {=>if request.is_head() {
    //@subst_re client::Peer::convert_send_message\(stream_id, request, protocol, end_of_stream\)\?;=>match convert_send_message(stream_id, request, end_of_stream) { Ok(h) => h, Err(e) => { return Err(SendErr::User(e)); } };
    //@subst let mut stream = me.store.insert(stream.id, stream);=>let mut stream = me.store.insert_new(stream.id, stream, Ghost(me.actions.send.init_window_sz as int), Ghost(me.actions.recv.init_window_sz as int));
    //@subst stream.remove();=>me.store.remove(stream);
    //@subst return Err(err.into());=>return Err(SendErr::User(err));
    //@subst_re Ok\(\(\s*StreamRef \{\s*opaque: OpaqueStreamRef::new\(self\.inner\.clone\(\), &mut stream\),\s*send_buffer: self\.send_buffer\.clone\(\),\s*\},\s*is_full,\s*\)\)=>let _k = opaque_stream_ref_new(&mut stream); proof { assert(stream.ref_count == 1); } me.store.put_back_any(stream); Ok((_k, is_full))
    //@ret r
    //@spec     requires old(me).refs < usize::MAX,
    //@spec     ensures
    //@spec         final(me).store.held() == old(me).store.held(),
    //@spec         r is Ok ==> final(me).refs == old(me).refs + 1,
    //@spec         r is Err ==> final(me).refs == old(me).refs,
    //@spec         // C07: a failed connection refuses new requests with the recorded error
    //@spec         old(me).actions.conn_error is Some ==> (r matches Err(SendErr::Connection(e)) && e == old(me).actions.conn_error->Some_0),
    //@spec         // C05: one request waiting for a slot per handle
    //@spec         (old(me).actions.conn_error is None && (pending matches Some(p) && old(me).store.spec_get(p.key).is_pending_open)) ==> r is Err,
    //@spec         // C04: a server cannot start a stream with HEADERS
    //@spec         old(me).counts.peer == PeerDyn::Server ==> r is Err,
    //@end
}

proof fn vacuity_probe_streams()
    ensures false,
{
}

} // verus!
