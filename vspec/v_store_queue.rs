// @unit id=v_store_queue props=C06,C19,C01,C08 tier=quick
// Verus contracts on the REAL bodies of src/proto/streams/store.rs `Queue::{new, take, push, push_front, pop, pop_if, is_empty}` — generic
// over the link trait `Next` — and of the `Next` implementations NextAccept / NextSend / NextSendCapacity / NextWindowUpdate / NextOpen in
// stream.rs (extracted on every run): the intrusive scheduler queues (pending_send, pending_capacity, pending_open,
// pending_accept, pending_window_updates, pending_reset_expired) that are threaded through the stream records of the store.
//
// Theorem (for ANY queue length, any other queues threaded through the same records):  with `keys` the abstract content,
//   I-queue   head..tail is exactly `keys`, linked in order through N's `next` field, without duplicates; a record carries
//             N's `is_queued` flag IFF it is in `keys` (C19 "in no queue" is what the flag says; C06 nothing queued is lost);
//   push      a stream that is already queued is refused (false, nothing changes); otherwise it is appended at the BACK;
//   push_front  ... prepended at the FRONT;
//   pop       removes and returns the FRONT, un-flagged, its link cleared; None iff empty;
//   frame     no other record of the store changes, and on the records it touches only N's own link and flag change.
// This is the behaviour the other units ASSUME of `Queue::push / pop` (their queue models keep only the flag and a length).
//
// Modelled by hand (ASSUMED): `Store` as a map from keys to stream records with `Index` / `IndexMut` by key (the slab + key
// guard: Kani unit store_key_guard); `Ptr` is the real shape `{ key, store: &mut Store }`, its `Deref` / `DerefMut` are the
// functions `get` / `get_mut`.  Listed substitutions: the implicit deref coercions at the `N::f(stream)` call sites are written
// out (`stream.get()` / `stream.get_mut()`); `&mut stream.resolve(k)` temporaries are named; the generic `R: Resolve` of pop is
// instantiated with `Store`; each function takes the abstract content as a ghost argument.
use vstd::prelude::*;
use core::marker::PhantomData;

verus! {

#[derive(PartialEq, Eq, Structural, Clone, Copy, Debug)]
pub struct Key { pub index: u32, pub stream_id: u32 }

/// Stream, reduced to the link fields of five of the six queues (NextResetExpire keeps its flag in an Instant); `other` stands for everything else
pub struct Stream {
    pub next_pending_accept: Option<Key>, pub is_pending_accept: bool,
    pub next_pending_send_capacity: Option<Key>, pub is_pending_send_capacity: bool,
    pub next_window_update: Option<Key>, pub is_pending_window_update: bool,
    pub next_pending_send: Option<Key>, pub is_pending_send: bool,
    pub next_open: Option<Key>, pub is_pending_open: bool,
    pub other: u64,
}

pub struct Store { pub m: Ghost<Map<Key, Stream>> }
impl Store {
    /// `&self[key]` (ops::Index<Key>: panics on a dangling key)
    #[verifier::external_body]
    pub fn index(&self, key: Key) -> (r: &Stream)
        requires self.m@.dom().contains(key),
        ensures *r == self.m@[key],
    { unimplemented!() }
    /// `&mut self[key]` (ops::IndexMut<Key>)
    #[verifier::external_body]
    pub fn index_mut(&mut self, key: Key) -> (r: &mut Stream)
        requires old(self).m@.dom().contains(key),
        ensures *r == old(self).m@[key], final(self).m@ == old(self).m@.insert(key, *final(r)),
    { unimplemented!() }
}

/// store::Ptr, the real shape
pub struct Ptr<'a> { pub key: Key, pub store: &'a mut Store }
impl<'a> Ptr<'a> {
    pub open spec fn m(self) -> Map<Key, Stream> { (*self.store).m@ }

    /// Ptr::key
    pub fn key(&self) -> (r: Key) ensures r == self.key { self.key }
    /// Deref for Ptr: `&self.store[self.key]`
    pub fn get(&self) -> (r: &Stream)
        requires (*old(self.store)).m@.dom().contains(self.key),
        ensures *r == (*old(self.store)).m@[self.key],
    { self.store.index(self.key) }
    /// DerefMut for Ptr: `&mut self.store[self.key]`
    pub fn get_mut(&mut self) -> (r: &mut Stream)
        requires (*old(self).store).m@.dom().contains(old(self).key),
        ensures *r == (*old(self).store).m@[old(self).key], final(self).key == old(self).key,
            (*final(self).store).m@ == (*old(self).store).m@.insert(old(self).key, *final(r)),
    { self.store.index_mut(self.key) }
    /// `&mut self.resolve(k)` + DerefMut: the record of ANOTHER key of the same store
    pub fn get_mut_at(&mut self, k: Key) -> (r: &mut Stream)
        requires (*old(self).store).m@.dom().contains(k),
        ensures *r == (*old(self).store).m@[k], final(self).key == old(self).key,
            (*final(self).store).m@ == (*old(self).store).m@.insert(k, *final(r)),
    { self.store.index_mut(k) }
    /// `self.resolve(k).key()`
    pub fn key_of(&mut self, k: Key) -> (r: Key)
        ensures r == k, final(self).key == old(self).key, *final(self).store == *old(self).store,
    { k }
}

/// store.rs `trait Next` with the meaning of its five functions: `s_next` / `s_queued` are N's own link and flag, `s_rest`
/// is everything else of the record
pub trait Next {
    spec fn s_next(s: Stream) -> Option<Key>;
    spec fn s_queued(s: Stream) -> bool;
    spec fn s_rest(s: Stream) -> Stream;
    /// what `set_queued(stream, true)` demands of the record (the debug_assert!s of NextSend / NextOpen: a stream waits for
    /// a concurrency slot OR is scheduled for sending, never both)
    spec fn may_queue(s: Stream) -> bool;

    fn next(stream: &Stream) -> (r: Option<Key>)
        ensures r == Self::s_next(*stream);
    fn set_next(stream: &mut Stream, key: Option<Key>)
        ensures Self::s_next(*final(stream)) == key, Self::s_queued(*final(stream)) == Self::s_queued(*old(stream)), Self::s_rest(*final(stream)) == Self::s_rest(*old(stream));
    fn take_next(stream: &mut Stream) -> (r: Option<Key>)
        ensures r == Self::s_next(*old(stream)), Self::s_next(*final(stream)) is None, Self::s_queued(*final(stream)) == Self::s_queued(*old(stream)), Self::s_rest(*final(stream)) == Self::s_rest(*old(stream));
    fn is_queued(stream: &Stream) -> (r: bool)
        ensures r == Self::s_queued(*stream);
    fn set_queued(stream: &mut Stream, val: bool)
        requires val ==> Self::may_queue(*old(stream)),
        ensures Self::s_queued(*final(stream)) == val, Self::s_next(*final(stream)) == Self::s_next(*old(stream)), Self::s_rest(*final(stream)) == Self::s_rest(*old(stream));
}

pub struct NextAccept;
pub struct NextSendCapacity;
pub struct NextWindowUpdate;

impl Next for NextAccept {
    open spec fn may_queue(s: Stream) -> bool { true }
    open spec fn s_next(s: Stream) -> Option<Key> { s.next_pending_accept }
    open spec fn s_queued(s: Stream) -> bool { s.is_pending_accept }
    open spec fn s_rest(s: Stream) -> Stream { Stream { next_pending_accept: None, is_pending_accept: false, ..s } }
    //@extract src/proto/streams/stream.rs Next@NextAccept::next
    //@subst -> Option<store::Key>=>-> Option<Key>
    //@ret r
    //@end
    //@extract src/proto/streams/stream.rs Next@NextAccept::set_next
    //@subst key: Option<store::Key>=>key: Option<Key>
    //@end
    //@extract src/proto/streams/stream.rs Next@NextAccept::take_next
    //@subst -> Option<store::Key>=>-> Option<Key>
    //@ret r
    //@end
    //@extract src/proto/streams/stream.rs Next@NextAccept::is_queued
    //@ret r
    //@end
    //@extract src/proto/streams/stream.rs Next@NextAccept::set_queued
    //@end
}
impl Next for NextSendCapacity {
    open spec fn may_queue(s: Stream) -> bool { true }
    open spec fn s_next(s: Stream) -> Option<Key> { s.next_pending_send_capacity }
    open spec fn s_queued(s: Stream) -> bool { s.is_pending_send_capacity }
    open spec fn s_rest(s: Stream) -> Stream { Stream { next_pending_send_capacity: None, is_pending_send_capacity: false, ..s } }
    //@extract src/proto/streams/stream.rs Next@NextSendCapacity::next
    //@subst -> Option<store::Key>=>-> Option<Key>
    //@ret r
    //@end
    //@extract src/proto/streams/stream.rs Next@NextSendCapacity::set_next
    //@subst key: Option<store::Key>=>key: Option<Key>
    //@end
    //@extract src/proto/streams/stream.rs Next@NextSendCapacity::take_next
    //@subst -> Option<store::Key>=>-> Option<Key>
    //@ret r
    //@end
    //@extract src/proto/streams/stream.rs Next@NextSendCapacity::is_queued
    //@ret r
    //@end
    //@extract src/proto/streams/stream.rs Next@NextSendCapacity::set_queued
    //@end
}
impl Next for NextWindowUpdate {
    open spec fn may_queue(s: Stream) -> bool { true }
    open spec fn s_next(s: Stream) -> Option<Key> { s.next_window_update }
    open spec fn s_queued(s: Stream) -> bool { s.is_pending_window_update }
    open spec fn s_rest(s: Stream) -> Stream { Stream { next_window_update: None, is_pending_window_update: false, ..s } }
    //@extract src/proto/streams/stream.rs Next@NextWindowUpdate::next
    //@subst -> Option<store::Key>=>-> Option<Key>
    //@ret r
    //@end
    //@extract src/proto/streams/stream.rs Next@NextWindowUpdate::set_next
    //@subst key: Option<store::Key>=>key: Option<Key>
    //@end
    //@extract src/proto/streams/stream.rs Next@NextWindowUpdate::take_next
    //@subst -> Option<store::Key>=>-> Option<Key>
    //@ret r
    //@end
    //@extract src/proto/streams/stream.rs Next@NextWindowUpdate::is_queued
    //@ret r
    //@end
    //@extract src/proto/streams/stream.rs Next@NextWindowUpdate::set_queued
    //@end
}

pub struct NextSend;
pub struct NextOpen;
impl Next for NextSend {
    open spec fn may_queue(s: Stream) -> bool { !s.is_pending_open }
    open spec fn s_next(s: Stream) -> Option<Key> { s.next_pending_send }
    open spec fn s_queued(s: Stream) -> bool { s.is_pending_send }
    open spec fn s_rest(s: Stream) -> Stream { Stream { next_pending_send: None, is_pending_send: false, ..s } }
    //@extract src/proto/streams/stream.rs Next@NextSend::next
    //@subst -> Option<store::Key>=>-> Option<Key>
    //@ret r
    //@end
    //@extract src/proto/streams/stream.rs Next@NextSend::set_next
    //@subst key: Option<store::Key>=>key: Option<Key>
    //@end
    //@extract src/proto/streams/stream.rs Next@NextSend::take_next
    //@subst -> Option<store::Key>=>-> Option<Key>
    //@ret r
    //@end
    //@extract src/proto/streams/stream.rs Next@NextSend::is_queued
    //@ret r
    //@end
    //@extract src/proto/streams/stream.rs Next@NextSend::set_queued
    //@end
}
impl Next for NextOpen {
    open spec fn may_queue(s: Stream) -> bool { !s.is_pending_send }
    open spec fn s_next(s: Stream) -> Option<Key> { s.next_open }
    open spec fn s_queued(s: Stream) -> bool { s.is_pending_open }
    open spec fn s_rest(s: Stream) -> Stream { Stream { next_open: None, is_pending_open: false, ..s } }
    //@extract src/proto/streams/stream.rs Next@NextOpen::next
    //@subst -> Option<store::Key>=>-> Option<Key>
    //@ret r
    //@end
    //@extract src/proto/streams/stream.rs Next@NextOpen::set_next
    //@subst key: Option<store::Key>=>key: Option<Key>
    //@end
    //@extract src/proto/streams/stream.rs Next@NextOpen::take_next
    //@subst -> Option<store::Key>=>-> Option<Key>
    //@ret r
    //@end
    //@extract src/proto/streams/stream.rs Next@NextOpen::is_queued
    //@ret r
    //@end
    //@extract src/proto/streams/stream.rs Next@NextOpen::set_queued
    //@end
}
//@struct src/proto/streams/store.rs Indices pub
impl Copy for Indices {}
impl Clone for Indices { fn clone(&self) -> Self { *self } }

pub struct Queue<N> { pub indices: Option<Indices>, pub _p: core::marker::PhantomData<N> }

pub mod store { pub use super::Indices; pub use super::Ptr; }

/// I-queue
pub open spec fn q_inv<N: Next>(q: Queue<N>, m: Map<Key, Stream>, keys: Seq<Key>) -> bool {
    &&& keys.no_duplicates()
    &&& forall|i: int| 0 <= i < keys.len() ==> m.dom().contains(#[trigger] keys[i]) && N::s_queued(m[keys[i]])
    &&& forall|i: int| 0 <= i < keys.len() - 1 ==> N::s_next(m[#[trigger] keys[i]]) == Some(keys[i + 1])
    &&& keys.len() > 0 ==> N::s_next(m[keys[keys.len() - 1]]) is None
    &&& forall|k: Key| m.dom().contains(k) && N::s_queued(#[trigger] m[k]) ==> keys.contains(k)
    &&& forall|k: Key| m.dom().contains(k) && !N::s_queued(#[trigger] m[k]) ==> N::s_next(m[k]) is None
    &&& match q.indices { None => keys.len() == 0, Some(ix) => keys.len() > 0 && ix.head == keys[0] && ix.tail == keys[keys.len() - 1] }
}

/// frame: outside `touched` nothing changed; inside, only N's link and flag
pub open spec fn only_links<N: Next>(m0: Map<Key, Stream>, m1: Map<Key, Stream>) -> bool {
    &&& m1.dom() == m0.dom()
    &&& forall|k: Key| m0.dom().contains(k) ==> N::s_rest(#[trigger] m1[k]) == N::s_rest(m0[k])
}

impl<N: Next> Queue<N> {
    //@extract src/proto/streams/store.rs Queue::is_empty
    //@ret r
    //@spec     ensures r == (self.indices is None),
    //@end

    //@extract src/proto/streams/store.rs Queue::push
    //@subst pub fn push(&mut self, stream: &mut store::Ptr) -> bool=>pub fn push(&mut self, stream: &mut Ptr, Ghost(keys): Ghost<Seq<Key>>) -> bool
    //@subst_re N::(is_queued|next)\((\w+)\)=>N::\1(\2.get())
    //@subst_re N::(set_queued)\((\w+),=>N::\1(\2.get_mut(),
    //@subst N::set_next(&mut stream.resolve(idxs.tail), Some(key));=>N::set_next(stream.get_mut_at(idxs.tail), Some(key));
    //@ret r
    //@spec     requires
    //@spec         q_inv(*old(self), (*old(stream).store).m@, keys),
    //@spec         (*old(stream).store).m@.dom().contains(old(stream).key),
    //@spec         !keys.contains(old(stream).key) ==> N::may_queue((*old(stream).store).m@[old(stream).key]),
    //@spec     ensures
    //@spec         final(stream).key == old(stream).key,
    //@spec         only_links::<N>((*old(stream).store).m@, (*final(stream).store).m@),
    //@spec         // already queued: refused, nothing changes
    //@spec         keys.contains(old(stream).key) ==> !r && *final(self) == *old(self) && (*final(stream).store).m@ == (*old(stream).store).m@,
    //@spec         // otherwise appended at the BACK
    //@spec         !keys.contains(old(stream).key) ==> r && q_inv(*final(self), (*final(stream).store).m@, keys.push(old(stream).key)),
    //@spec         // records that are neither the pushed stream nor the old tail are untouched
    //@spec         forall|k: Key| (*old(stream).store).m@.dom().contains(k) && k != old(stream).key && !(keys.len() > 0 && k == keys[keys.len() - 1]) ==> (*final(stream).store).m@[k] == (*old(stream).store).m@[k],
    //@before N::set_queued(stream.get_mut(), true);=>let ghost m0 = (*old(stream).store).m@; let ghost key0 = stream.key; proof { assert(!keys.contains(key0)); }
    //@before_tail proof { let m2 = (*stream.store).m@; let keys2 = keys.push(key0); let n = keys.len() as int; assert(forall|i: int| 0 <= i < n ==> keys2[i] == keys[i]); assert(keys2[n] == key0); assert(forall|i: int| 0 <= i < n ==> keys[i] != key0);
    //@before_tail   assert forall|k: Key| m2.dom().contains(k) && N::s_queued(#[trigger] m2[k]) implies keys2.contains(k) by { if k == key0 { assert(keys2[n] == k); } else { assert(N::s_queued(m0[k])); assert(keys.contains(k)); let i = choose|i: int| 0 <= i < n && keys[i] == k; assert(keys2[i] == k); } }
    //@before_tail   assert(keys2.no_duplicates()); assert(q_inv(*self, m2, keys2)); assert(m2.dom() =~= m0.dom()); assert(only_links::<N>(m0, m2)); }
    //@end

    //@extract src/proto/streams/store.rs Queue::push_front
    //@subst pub fn push_front(&mut self, stream: &mut store::Ptr) -> bool=>pub fn push_front(&mut self, stream: &mut Ptr, Ghost(keys): Ghost<Seq<Key>>) -> bool
    //@subst_re N::(is_queued|next)\((\w+)\)=>N::\1(\2.get())
    //@subst_re N::(set_queued|set_next)\((\w+),=>N::\1(\2.get_mut(),
    //@subst let head_key = stream.resolve(idxs.head).key();=>let head_key = stream.key_of(idxs.head);
    //@ret r
    //@spec     requires
    //@spec         q_inv(*old(self), (*old(stream).store).m@, keys),
    //@spec         (*old(stream).store).m@.dom().contains(old(stream).key),
    //@spec         !keys.contains(old(stream).key) ==> N::may_queue((*old(stream).store).m@[old(stream).key]),
    //@spec     ensures
    //@spec         final(stream).key == old(stream).key,
    //@spec         only_links::<N>((*old(stream).store).m@, (*final(stream).store).m@),
    //@spec         keys.contains(old(stream).key) ==> !r && *final(self) == *old(self) && (*final(stream).store).m@ == (*old(stream).store).m@,
    //@spec         // otherwise prepended at the FRONT
    //@spec         !keys.contains(old(stream).key) ==> r && q_inv(*final(self), (*final(stream).store).m@, seq![old(stream).key] + keys),
    //@spec         // only the pushed record changes
    //@spec         forall|k: Key| (*old(stream).store).m@.dom().contains(k) && k != old(stream).key ==> (*final(stream).store).m@[k] == (*old(stream).store).m@[k],
    //@before N::set_queued(stream.get_mut(), true);=>let ghost m0 = (*old(stream).store).m@; let ghost key0 = stream.key; proof { assert(!keys.contains(key0)); }
    //@before_tail proof { let m2 = (*stream.store).m@; let keys2 = seq![key0] + keys; let n = keys.len() as int; assert(keys2[0] == key0); assert(forall|i: int| 0 <= i < n ==> keys2[i + 1] == keys[i]); assert(forall|i: int| 1 <= i <= n ==> keys2[i] == keys[i - 1]); assert(forall|i: int| 0 <= i < n ==> keys[i] != key0); assert forall|k: Key| m2.dom().contains(k) && N::s_queued(#[trigger] m2[k]) implies keys2.contains(k) by { if k == key0 { assert(keys2[0] == k); } else { assert(N::s_queued(m0[k])); assert(keys.contains(k)); let i = choose|i: int| 0 <= i < n && keys[i] == k; assert(keys2[i + 1] == k); } } assert(keys2.no_duplicates()); assert forall|i: int| 0 <= i < keys2.len() - 1 implies N::s_next(m2[#[trigger] keys2[i]]) == Some(keys2[i + 1]) by { if i == 0 { } else { assert(keys2[i] == keys[i - 1]); assert(keys2[i + 1] == keys[i]); } } assert(q_inv(*self, m2, keys2)); assert(m2.dom() =~= m0.dom()); assert(only_links::<N>(m0, m2)); }
    //@end

    // Listed substitutions for pop: the generic `R: Resolve` is `Store`; the `Ptr` it resolves is written out as (key, store):
    // `store.resolve(k)` => the key, `N::f(&stream)` / `N::f(&mut stream)` => `N::f(store.index(k))` / `N::f(store.index_mut(k))`,
    // and the returned `Ptr` is its key.
    //@extract src/proto/streams/store.rs Queue::pop
    //@subst_re pub fn pop<'a, R>\(&mut self, store: &'a mut R\) -> Option<store::Ptr<'a>>\s*where\s*R: Resolve,=>pub fn pop(&mut self, store: &mut Store, Ghost(keys): Ghost<Seq<Key>>) -> Option<Key>
    //@subst let mut stream = store.resolve(idxs.head);=>let stream = idxs.head;
    //@subst_re N::(next|is_queued)\(&stream\)=>N::\1(store.index(stream))
    //@subst_re N::(take_next|set_queued)\(&mut stream=>N::\1(store.index_mut(stream)
    //@ret r
    //@spec     requires q_inv(*old(self), old(store).m@, keys),
    //@spec     ensures
    //@spec         only_links::<N>(old(store).m@, final(store).m@),
    //@spec         keys.len() == 0 ==> r is None && *final(self) == *old(self) && final(store).m@ == old(store).m@,
    //@spec         // the FRONT leaves the queue, un-flagged, its link cleared; the rest keeps its order
    //@spec         keys.len() > 0 ==> r == Some(keys[0]) && q_inv(*final(self), final(store).m@, keys.drop_first())
    //@spec             && !N::s_queued(final(store).m@[keys[0]]) && N::s_next(final(store).m@[keys[0]]) is None,
    //@spec         forall|k: Key| old(store).m@.dom().contains(k) && !(keys.len() > 0 && k == keys[0]) ==> final(store).m@[k] == old(store).m@[k],
    //@after let stream = idxs.head;=>let ghost m0 = old(store).m@; proof { assert(keys.len() > 0); assert(keys[0] == stream); if idxs.head == idxs.tail { assert(keys.len() == 1) by { if keys.len() > 1 { assert(keys[0] == keys[keys.len() - 1]); } } } }
    //@before return Some(stream);=>proof { let m2 = store.m@; let keys2 = keys.drop_first(); let n = keys.len() as int; assert(forall|i: int| 0 <= i < n - 1 ==> keys2[i] == keys[i + 1]); assert(forall|i: int| 1 <= i < n ==> keys[i] != stream); assert forall|k: Key| m2.dom().contains(k) && N::s_queued(#[trigger] m2[k]) implies keys2.contains(k) by { assert(k != stream); assert(N::s_queued(m0[k])); assert(keys.contains(k)); let i = choose|i: int| 0 <= i < n && keys[i] == k; assert(i >= 1); assert(keys2[i - 1] == k); } assert(keys2.no_duplicates()); assert(q_inv(*self, m2, keys2)); assert(m2.dom() =~= m0.dom()); assert(only_links::<N>(m0, m2)); }
    //@end

    // pop_if (used by Recv::clear_expired_reset_streams with a clock predicate): the FRONT is popped exactly when the
    // predicate holds for it; otherwise — or when the queue is empty — nothing changes.  Only the front is ever looked at.
    //@extract src/proto/streams/store.rs Queue::pop_if
    //@subst pub fn pop_if<'a, R, F>(&mut self, store: &'a mut R, f: F) -> Option<store::Ptr<'a>>=>pub fn pop_if<F>(&mut self, store: &mut Store, f: F, Ghost(keys): Ghost<Seq<Key>>) -> Option<Key>
    //@subst_re R: Resolve,\s*=>
    //@subst_re f\(&store\.resolve\(idxs\.(\w+)\)\)=>f(store.index(idxs.\1))
    //@before let should_pop =>proof { assert(keys[0] == idxs.head); assert(keys[keys.len() - 1] == idxs.tail); }
    //@subst return self.pop(store);=>return self.pop(store, Ghost(keys));
    //@ret r
    //@spec     requires
    //@spec         q_inv(*old(self), old(store).m@, keys),
    //@spec         forall|s: &Stream| #[trigger] f.requires((s,)),
    //@spec     ensures
    //@spec         only_links::<N>(old(store).m@, final(store).m@),
    //@spec         keys.len() == 0 ==> r is None && *final(self) == *old(self) && final(store).m@ == old(store).m@,
    //@spec         keys.len() > 0 ==> (
    //@spec             (r == Some(keys[0]) && f.ensures((&old(store).m@[keys[0]],), true) && q_inv(*final(self), final(store).m@, keys.drop_first())
    //@spec                 && !N::s_queued(final(store).m@[keys[0]]))
    //@spec             || (r is None && f.ensures((&old(store).m@[keys[0]],), false) && *final(self) == *old(self) && final(store).m@ == old(store).m@)),
    //@end

    //@extract src/proto/streams/store.rs Queue::take
    //@ret r
    //@spec     ensures r.indices == old(self).indices, final(self).indices is None,
    //@spec         // the whole list moves: what was I-queue for `self` is I-queue for the result
    //@spec         forall|m: Map<Key, Stream>, keys: Seq<Key>| q_inv(*old(self), m, keys) ==> #[trigger] q_inv(r, m, keys),
    //@end

    //@extract src/proto/streams/store.rs Queue::new
    //@ret r
    //@spec     ensures forall|m: Map<Key, Stream>| (forall|k: Key| m.dom().contains(k) ==> !N::s_queued(#[trigger] m[k]) && N::s_next(m[k]) is None) ==> q_inv(r, m, Seq::<Key>::empty()),
    //@end
}

proof fn vacuity_probe_store_queue()
    ensures false,
{
}

} // verus!
