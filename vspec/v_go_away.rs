// @unit id=v_go_away props=C15,C09,C12,C08 tier=quick
// Verus contracts on the real bodies of src/proto/go_away.rs (extracted on every run) and the monotonicity
// lemma for C15: the last-stream-id of the GOAWAY frames an endpoint queues never increases.
use vstd::prelude::*;

verus! {

// Reduced views (R4/R5): StreamId and Reason are plain u32 newtypes in /repo; frame::GoAway is reduced to the
// two fields the extracted bodies read (debug data is carried along untouched by the real code).
#[derive(PartialEq, Eq, Structural, Clone, Copy, Debug)]
pub struct StreamId(pub u32);

impl StreamId {
    pub const MAX: StreamId = StreamId(0x7fff_ffff);
}

#[derive(PartialEq, Eq, Structural, Clone, Copy, Debug)]
pub struct Reason(pub u32);

pub mod frame {
    use super::*;
    #[derive(Clone, Copy, Debug)]
    pub struct GoAway {
        pub last_stream_id: StreamId,
        pub error_code: Reason,
    }
    impl GoAway {
        pub fn last_stream_id(&self) -> (r: StreamId)
            ensures r == self.last_stream_id,
        {
            self.last_stream_id
        }
        pub fn reason(&self) -> (r: Reason)
            ensures r == self.error_code,
        {
            self.error_code
        }
    }
}

pub struct GoingAway {
    pub last_processed_id: StreamId,
    pub reason: Reason,
}

pub struct GoAway {
    pub close_now: bool,
    pub going_away: Option<GoingAway>,
    pub is_user_initiated: bool,
    pub pending: Option<frame::GoAway>,
}

pub enum Poll<T> { Ready(T), Pending }
impl<T> Poll<T> {
    pub fn is_ready(&self) -> (r: bool) ensures r == (self is Ready) { match self { Poll::Ready(_) => true, Poll::Pending => false } }
}
pub struct Context { pub tag: u8 }

/// Codec, write side, as send_pending_go_away sees it (ASSUMED; its own contracts: kani/codec__framed_write.rs,
/// kani/proto__go_away.rs): `poll_ready` answers from the transport state; `buffer` may only be called after Ready(Ok)
/// (FramedWrite::buffer asserts has_capacity: C08) and appends the frame to the wire order
pub struct Codec { pub sent: Ghost<Seq<frame::GoAway>> }
impl Codec {
    pub uninterp spec fn next_ready(self) -> Poll<Result<(), u8>>;
    pub uninterp spec fn has_room(self) -> bool;

    #[verifier::external_body]
    pub fn poll_ready(&mut self, cx: &mut Context) -> (r: Poll<Result<(), u8>>)
        ensures r == old(self).next_ready(), final(self).sent@ == old(self).sent@, (r matches Poll::Ready(Ok(_))) ==> final(self).has_room(),
    { unimplemented!() }

    #[verifier::external_body]
    pub fn buffer(&mut self, item: frame::GoAway) -> (r: Result<(), u8>)
        requires old(self).has_room(),
        ensures r is Ok, final(self).sent@ == old(self).sent@.push(item),
    { unimplemented!() }
}

impl GoAway {
    // I-goaway, the precondition the real `assert!` states: ids passed in never exceed the recorded one.
    pub open spec fn accepts(self, f: frame::GoAway) -> bool {
        self.going_away is Some ==> f.last_stream_id.0 <= self.going_away->Some_0.last_processed_id.0
    }

    pub open spec fn recorded(self) -> Option<(u32, u32)> {
        match self.going_away {
            Some(g) => Some((g.last_processed_id.0, g.reason.0)),
            None => None,
        }
    }

    // step relation of go_away (also used by the lemma)
    pub open spec fn step_go_away(pre: GoAway, f: frame::GoAway, post: GoAway) -> bool {
        &&& post.recorded() == Some((f.last_stream_id.0, f.error_code.0))
        &&& post.pending is Some && post.pending->Some_0.last_stream_id == f.last_stream_id && post.pending->Some_0.error_code == f.error_code
        &&& post.close_now == pre.close_now
        &&& post.is_user_initiated == pre.is_user_initiated
    }

    //@extract src/proto/go_away.rs GoAway::new
    //@ret r
    //@spec     ensures !r.close_now && r.going_away is None && !r.is_user_initiated && r.pending is None,
    //@end

    //@extract src/proto/go_away.rs GoAway::go_away
    //@subst_re assert!\(\s*f\.last_stream_id\(\) <= going_away\.last_processed_id,.*?\);=>assert(f.last_stream_id.0 <= going_away.last_processed_id.0);
    //@spec     requires old(self).accepts(f),
    //@spec     ensures GoAway::step_go_away(*old(self), f, *final(self)),
    //@end

    //@extract src/proto/go_away.rs GoAway::go_away_now
    //@spec     requires old(self).accepts(f),
    //@spec     ensures
    //@spec         final(self).close_now,
    //@spec         final(self).is_user_initiated == old(self).is_user_initiated,
    //@spec         // an identical GOAWAY is not queued again: nothing but close_now changes
    //@spec         old(self).recorded() == Some((f.last_stream_id.0, f.error_code.0)) ==> final(self).recorded() == old(self).recorded() && final(self).pending == old(self).pending,
    //@spec         old(self).recorded() != Some((f.last_stream_id.0, f.error_code.0)) ==> final(self).recorded() == Some((f.last_stream_id.0, f.error_code.0)) && final(self).pending is Some && final(self).pending->Some_0.last_stream_id == f.last_stream_id,
    //@end

    //@extract src/proto/go_away.rs GoAway::go_away_from_user
    //@spec     requires old(self).accepts(f),
    //@spec     ensures
    //@spec         final(self).close_now && final(self).is_user_initiated,
    //@spec         final(self).recorded() == Some((f.last_stream_id.0, f.error_code.0)),
    //@end

    //@extract src/proto/go_away.rs GoAway::is_going_away
    //@ret r
    //@spec     ensures r == (self.going_away is Some),
    //@end

    //@extract src/proto/go_away.rs GoAway::is_user_initiated
    //@ret r
    //@spec     ensures r == self.is_user_initiated,
    //@end

    // C15 / C12: the queued GOAWAY is written exactly once — under write back-pressure it stays queued (nothing is lost,
    // nothing is written twice) — and the caller learns its code; once nothing is queued and an immediate close was asked
    // for, the recorded code is reported again so that the connection closes with it.
    // Listed substitutions: generics dropped; `?` on Poll<io::Result<()>> written out; `.expect` => assert(is_ok);
    // the one-line closure `self.going_away().map(|going_away| going_away.reason)` written out as a match.
    //@extract src/proto/go_away.rs GoAway::send_pending_go_away
    //@subst_re pub fn send_pending_go_away<T, B>\(\s*&mut self,\s*cx: &mut Context,\s*dst: &mut Codec<T, B>,\s*\) -> Poll<Option<io::Result<Reason>>>\s*where\s*T: AsyncWrite \+ Unpin,\s*B: Buf,=>pub fn send_pending_go_away(&mut self, cx: &mut Context, dst: &mut Codec) -> Poll<Option<Result<Reason, u8>>>
    //@subst if !dst.poll_ready(cx)?.is_ready() {=>let _pr = dst.poll_ready(cx); if let Poll::Ready(Err(e)) = _pr { return Poll::Ready(Some(Err(e))); } if !_pr.is_ready() {
    //@subst dst.buffer(frame.into()).expect("invalid GOAWAY frame");=>let _b = dst.buffer(frame); assert(_b.is_ok());
    //@subst_re return match self\.going_away\(\)\.map\(\|going_away\| going_away\.reason\) \{\s*Some\(reason\) => Poll::Ready\(Some\(Ok\(reason\)\)\),\s*None => Poll::Ready\(None\),\s*\}; ==>> return match &self.going_away { Some(going_away) => Poll::Ready(Some(Ok(going_away.reason))), None => Poll::Ready(None) };
    //@ret r
    //@spec     ensures
    //@spec         old(self).pending matches Some(f) ==> (match old(dst).next_ready() {
    //@spec             // back-pressure: the frame stays queued, nothing is written
    //@spec             Poll::Pending => r is Pending && final(self).pending == old(self).pending && final(dst).sent@ == old(dst).sent@,
    //@spec             Poll::Ready(Err(e)) => r == Poll::<Option<Result<Reason, u8>>>::Ready(Some(Err(e))) && final(dst).sent@ == old(dst).sent@ && final(self).pending is None,
    //@spec             // written exactly once, unmodified; its code is reported
    //@spec             Poll::Ready(Ok(_)) => r == Poll::<Option<Result<Reason, u8>>>::Ready(Some(Ok(f.error_code))) && final(self).pending is None && final(dst).sent@ == old(dst).sent@.push(f),
    //@spec         }),
    //@spec         // nothing queued: nothing is written
    //@spec         old(self).pending is None ==> final(dst).sent@ == old(dst).sent@ && final(self).pending is None
    //@spec             && (r == (if old(self).close_now && old(self).going_away is Some { Poll::<Option<Result<Reason, u8>>>::Ready(Some(Ok(old(self).going_away->Some_0.reason))) } else { Poll::<Option<Result<Reason, u8>>>::Ready(None) })),
    //@spec         final(self).close_now == old(self).close_now && final(self).is_user_initiated == old(self).is_user_initiated
    //@spec             && (final(self).going_away is Some) == (old(self).going_away is Some),
    //@end

    //@extract src/proto/go_away.rs GoAway::should_close_now
    //@ret r
    //@spec     ensures r == (self.pending is None && self.close_now),
    //@end
}

// ================================================================================================
// C15: over any history of go_away / go_away_now / go_away_from_user calls that respect the precondition
// (callers pass Recv::last_processed_id / StreamId::MAX first, then never a larger id), the sequence of ids
// recorded — hence placed in `pending`, hence sent — is non-increasing.
// ================================================================================================
pub open spec fn ga_history(states: Seq<GoAway>, frames: Seq<frame::GoAway>) -> bool {
    &&& states.len() == frames.len() + 1
    &&& forall|i: int| 0 <= i < frames.len() ==> #[trigger] states[i].accepts(frames[i])
    &&& forall|i: int| 0 <= i < frames.len() ==> #[trigger] states[i + 1].recorded() == Some((frames[i].last_stream_id.0, frames[i].error_code.0))
}

pub proof fn lemma_C15_goaway_monotone(states: Seq<GoAway>, frames: Seq<frame::GoAway>, i: int, j: int)
    requires
        ga_history(states, frames),
        0 <= i <= j < frames.len(),
    ensures
        frames[j].last_stream_id.0 <= frames[i].last_stream_id.0,
    decreases j - i,
{
    if i < j {
        lemma_C15_goaway_monotone(states, frames, i, j - 1);
        assert(states[j].accepts(frames[j]));
        assert(states[(j - 1) + 1].recorded() == Some((frames[j - 1].last_stream_id.0, frames[j - 1].error_code.0)));
    }
}

proof fn vacuity_probe_go_away()
    ensures false,
{
}

} // verus!
