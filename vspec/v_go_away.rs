// @unit id=v_go_away props=C15,C08 tier=quick
// Verus contracts on the real bodies of src/proto/go_away.rs (extracted on every run) and the monotonicity
// lemma for C15: the last-stream-id of the GOAWAY frames an endpoint queues never increases.
use vstd::prelude::*;

verus! {

// Reduced views (R4/R5): StreamId and Reason are plain u32 newtypes in /repo; frame::GoAway is reduced to the
// two fields the extracted bodies read (debug data is carried along untouched by the real code).
#[derive(PartialEq, Eq, Structural, Clone, Copy, Debug)]
pub struct StreamId(pub u32);

impl StreamId {
    pub const MAX: StreamId = StreamId(0x7fff_ffff);
}

#[derive(PartialEq, Eq, Structural, Clone, Copy, Debug)]
pub struct Reason(pub u32);

pub mod frame {
    use super::*;
    #[derive(Clone, Copy, Debug)]
    pub struct GoAway {
        pub last_stream_id: StreamId,
        pub error_code: Reason,
    }
    impl GoAway {
        pub fn last_stream_id(&self) -> (r: StreamId)
            ensures r == self.last_stream_id,
        {
            self.last_stream_id
        }
        pub fn reason(&self) -> (r: Reason)
            ensures r == self.error_code,
        {
            self.error_code
        }
    }
}

pub struct GoingAway {
    pub last_processed_id: StreamId,
    pub reason: Reason,
}

pub struct GoAway {
    pub close_now: bool,
    pub going_away: Option<GoingAway>,
    pub is_user_initiated: bool,
    pub pending: Option<frame::GoAway>,
}

impl GoAway {
    // I-goaway, the precondition the real `assert!` states: ids passed in never exceed the recorded one.
    pub open spec fn accepts(self, f: frame::GoAway) -> bool {
        self.going_away is Some ==> f.last_stream_id.0 <= self.going_away->Some_0.last_processed_id.0
    }

    pub open spec fn recorded(self) -> Option<(u32, u32)> {
        match self.going_away {
            Some(g) => Some((g.last_processed_id.0, g.reason.0)),
            None => None,
        }
    }

    // step relation of go_away (also used by the lemma)
    pub open spec fn step_go_away(pre: GoAway, f: frame::GoAway, post: GoAway) -> bool {
        &&& post.recorded() == Some((f.last_stream_id.0, f.error_code.0))
        &&& post.pending is Some && post.pending->Some_0.last_stream_id == f.last_stream_id && post.pending->Some_0.error_code == f.error_code
        &&& post.close_now == pre.close_now
        &&& post.is_user_initiated == pre.is_user_initiated
    }

    //@extract src/proto/go_away.rs GoAway::new
    //@ret r
    //@spec     ensures !r.close_now && r.going_away is None && !r.is_user_initiated && r.pending is None,
    //@end

    //@extract src/proto/go_away.rs GoAway::go_away
    //@subst_re assert!\(\s*f\.last_stream_id\(\) <= going_away\.last_processed_id,.*?\);=>assert(f.last_stream_id.0 <= going_away.last_processed_id.0);
    //@spec     requires old(self).accepts(f),
    //@spec     ensures GoAway::step_go_away(*old(self), f, *final(self)),
    //@end

    //@extract src/proto/go_away.rs GoAway::go_away_now
    //@spec     requires old(self).accepts(f),
    //@spec     ensures
    //@spec         final(self).close_now,
    //@spec         final(self).is_user_initiated == old(self).is_user_initiated,
    //@spec         // an identical GOAWAY is not queued again: nothing but close_now changes
    //@spec         old(self).recorded() == Some((f.last_stream_id.0, f.error_code.0)) ==> final(self).recorded() == old(self).recorded() && final(self).pending == old(self).pending,
    //@spec         old(self).recorded() != Some((f.last_stream_id.0, f.error_code.0)) ==> final(self).recorded() == Some((f.last_stream_id.0, f.error_code.0)) && final(self).pending is Some && final(self).pending->Some_0.last_stream_id == f.last_stream_id,
    //@end

    //@extract src/proto/go_away.rs GoAway::go_away_from_user
    //@spec     requires old(self).accepts(f),
    //@spec     ensures
    //@spec         final(self).close_now && final(self).is_user_initiated,
    //@spec         final(self).recorded() == Some((f.last_stream_id.0, f.error_code.0)),
    //@end

    //@extract src/proto/go_away.rs GoAway::is_going_away
    //@ret r
    //@spec     ensures r == (self.going_away is Some),
    //@end

    //@extract src/proto/go_away.rs GoAway::is_user_initiated
    //@ret r
    //@spec     ensures r == self.is_user_initiated,
    //@end

    //@extract src/proto/go_away.rs GoAway::should_close_now
    //@ret r
    //@spec     ensures r == (self.pending is None && self.close_now),
    //@end
}

// ================================================================================================
// C15: over any history of go_away / go_away_now / go_away_from_user calls that respect the precondition
// (callers pass Recv::last_processed_id / StreamId::MAX first, then never a larger id), the sequence of ids
// recorded — hence placed in `pending`, hence sent — is non-increasing.
// ================================================================================================
pub open spec fn ga_history(states: Seq<GoAway>, frames: Seq<frame::GoAway>) -> bool {
    &&& states.len() == frames.len() + 1
    &&& forall|i: int| 0 <= i < frames.len() ==> #[trigger] states[i].accepts(frames[i])
    &&& forall|i: int| 0 <= i < frames.len() ==> #[trigger] states[i + 1].recorded() == Some((frames[i].last_stream_id.0, frames[i].error_code.0))
}

pub proof fn lemma_C15_goaway_monotone(states: Seq<GoAway>, frames: Seq<frame::GoAway>, i: int, j: int)
    requires
        ga_history(states, frames),
        0 <= i <= j < frames.len(),
    ensures
        frames[j].last_stream_id.0 <= frames[i].last_stream_id.0,
    decreases j - i,
{
    if i < j {
        lemma_C15_goaway_monotone(states, frames, i, j - 1);
        assert(states[j].accepts(frames[j]));
        assert(states[(j - 1) + 1].recorded() == Some((frames[j - 1].last_stream_id.0, frames[j - 1].error_code.0)));
    }
}

proof fn vacuity_probe_go_away()
    ensures false,
{
}

} // verus!
