// @unit id=v_connection props=C09,C15,C17,C07,C14,C08 tier=quick
// Verus contracts on the REAL bodies of src/proto/connection.rs (extracted on every run): the error-containment and
// shutdown plumbing of DynConnection — `handle_poll2_result`, `handle_go_away`, `go_away`, `go_away_now`,
// `go_away_now_data`, `go_away_from_user`, `recv_frame` —, `Connection::go_away_gracefully`, and the DRIVER:
// `Connection::{poll, poll2, poll_ready, poll_go_away, take_error}` and `Streams::send_pending_refusal` (streams.rs).
//
// Driver (C08 / C14 / C07 / C15):  I-single-slot — the PING ACK owed, the SETTINGS ACK owed and the RST_STREAM(REFUSED_STREAM)
//   owed occupy one-element slots whose emptiness `recv_ping`, `recv_settings` and `Recv::open` assert! — is ESTABLISHED by
//   poll_ready (Ready(Ok) only with all three handed to the codec) and poll2 takes a frame from the codec only after that:
//   the three asserts are obligations at the call sites in poll2 / recv_frame and are discharged.  The connection future
//   resolves only with an I/O error or, in state Closed(code, initiator), with exactly the recorded outcome (the peer's GOAWAY
//   code if it sent one with an error, else our code and initiator, else Ok); Closed is entered from Closing only after
//   `codec.shutdown` completed (the GOAWAY we owe is flushed first); the debug_assert "graceful GOAWAY should be NO_ERROR"
//   is discharged from I-graceful.
//
// C09 containment:  a STREAM error raised while reading a frame is answered with exactly one RST_STREAM(id, code) for
//   that stream and the connection carries on (state untouched, no GOAWAY, no other stream failed); a reset that came
//   from the PEER is not echoed; a CONNECTION error fails every stream with exactly that error and queues a GOAWAY with
//   exactly that code and the last peer stream handed to the application — unless a GOAWAY with the same code is already
//   under way (then nothing is sent twice, the connection just closes); an I/O error fails every stream and is returned,
//   except the benign "peer went away after everything was said" EOF.
// C15 / C17:  the code and initiator that end up in the connection state / result are the ones received.
//
// Modelled by hand: DynConnection's fields are `&'a mut` references in /repo (Verus has no `&mut` fields): they are owned
// fields here and `*self.state = ..` / `*self.error = ..` lose their `*` (listed substitutions); the debug data of a GOAWAY
// is not modelled (R5) — the `debug_data` variables are dropped from patterns and calls (listed); `DynStreams` and `GoAway`
// are external models that LOG what they are asked to do (ghost sequences), their own contracts are the units v_streams /
// v_go_away; two one-line closures (`map_or(false, |frame| ..)`, `.map(|f| ..) == Some(true)`) are written out.
use vstd::prelude::*;

verus! {

#[derive(PartialEq, Eq, Structural, Clone, Copy, Debug)]
pub struct StreamId(pub u32);
impl StreamId {
    pub const MAX: StreamId = StreamId(0x7fff_ffff);
}
#[derive(PartialEq, Eq, Structural, Clone, Copy, Debug)]
pub struct Reason(pub u32);
impl Reason {
    pub const NO_ERROR: Reason = Reason(0);
}
#[derive(PartialEq, Eq, Structural, Clone, Copy, Debug)]
pub enum Initiator { User, Library, Remote }

#[derive(PartialEq, Eq, Structural, Clone, Copy, Debug)]
pub enum IoErrorKind { UnexpectedEof, BrokenPipe, Other }
pub mod io {
    pub use super::IoErrorKind as ErrorKind;
}

/// proto::Error, reduced (R5): GoAway without debug data, Io without the message
#[derive(PartialEq, Eq, Structural, Clone, Copy, Debug)]
pub enum Error {
    Reset(StreamId, Reason, Initiator),
    GoAway(Reason, Initiator),
    Io(io::ErrorKind),
}
impl Error {
    pub fn user_go_away(reason: Reason) -> (r: Error) ensures r == Error::GoAway(reason, Initiator::User) { Error::GoAway(reason, Initiator::User) }
    pub fn remote_go_away(reason: Reason) -> (r: Error) ensures r == Error::GoAway(reason, Initiator::Remote) { Error::GoAway(reason, Initiator::Remote) }
    pub fn clone(&self) -> (r: Error) ensures r == *self { *self }
}

/// errors raised while READING carry Initiator::Library (this endpoint's own checks) or Initiator::Remote (a reset the peer
/// sent), never Initiator::User — the constructors used by the codec and the streams layer (Error::library_reset,
/// library_go_away, remote_reset, From<io::Error>); ASSUMED of the external functions below, proved of recv_frame / poll2
pub open spec fn read_error(r: Result<(), Error>) -> bool {
    r matches Err(Error::Reset(_, _, i)) ==> i != Initiator::User
}

/// crate::proto::error::GoAway { debug_data, reason } — what Streams::send_reset reports when the reset quota is exhausted
pub struct ErrGoAway { pub reason: Reason }

#[derive(PartialEq, Eq, Structural, Clone, Copy, Debug)]
pub enum State { Open, Closing(Reason, Initiator), Closed(Reason, Initiator) }

/// frame::GoAway, reduced (top level + re-export: derives inside a nested module crash this Verus build)
#[derive(PartialEq, Eq, Structural, Clone, Copy, Debug)]
pub struct FGoAway { pub last_stream_id: StreamId, pub error_code: Reason }
impl FGoAway {
    pub fn new(last_stream_id: StreamId, reason: Reason) -> (r: FGoAway) ensures r == (FGoAway { last_stream_id, error_code: reason }) { FGoAway { last_stream_id, error_code: reason } }
    /// with_debug_data: debug data not modelled
    pub fn with_debug_data(last_stream_id: StreamId, reason: Reason) -> (r: FGoAway) ensures r == (FGoAway { last_stream_id, error_code: reason }) { FGoAway { last_stream_id, error_code: reason } }
    pub fn reason(&self) -> (r: Reason) ensures r == self.error_code { self.error_code }
}
pub mod frame {
    pub use super::FGoAway as GoAway;
}

/// proto::GoAway (src/proto/go_away.rs; its real bodies: unit v_go_away): logs the frames it is handed
pub struct GoAway {
    pub going_away_reason: Option<Reason>,
    pub close_now: bool,                       // set by go_away_now / go_away_from_user, never cleared
    pub is_user_initiated: bool,
    pub pending_code: Option<Reason>,          // error code of the GOAWAY frame waiting to be written, if any
    pub now: Ghost<Seq<frame::GoAway>>,        // go_away_now(f) calls
    pub graceful: Ghost<Seq<frame::GoAway>>,   // go_away(f) calls
    pub from_user: Ghost<Seq<frame::GoAway>>,  // go_away_from_user(f) calls
}
impl GoAway {
    #[verifier::external_body]
    pub fn go_away(&mut self, f: frame::GoAway)
        ensures *final(self) == (GoAway { graceful: Ghost(old(self).graceful@.push(f)), going_away_reason: Some(f.error_code), pending_code: Some(f.error_code), ..*old(self) }),
    { unimplemented!() }
    #[verifier::external_body]
    pub fn go_away_now(&mut self, f: frame::GoAway)
        ensures *final(self) == (GoAway { now: Ghost(old(self).now@.push(f)), going_away_reason: final(self).going_away_reason, close_now: true, pending_code: final(self).pending_code, ..*old(self) }),
            final(self).going_away_reason is Some,     // v_go_away: either one is recorded already or this one is
    { unimplemented!() }
    #[verifier::external_body]
    pub fn go_away_from_user(&mut self, f: frame::GoAway)
        ensures *final(self) == (GoAway { from_user: Ghost(old(self).from_user@.push(f)), going_away_reason: final(self).going_away_reason, close_now: true, is_user_initiated: true, pending_code: final(self).pending_code, ..*old(self) }),
            final(self).going_away_reason is Some,
    { unimplemented!() }
    /// `self.go_away.going_away().map_or(false, |frame| frame.reason() == reason)` written out
    pub fn going_away_with_reason(&self, reason: Reason) -> (r: bool)
        ensures r == (self.going_away_reason == Some(reason)),
    { match self.going_away_reason { Some(x) => x.0 == reason.0, None => false } }
}

/// DynStreams: logs what the connection layer asks of the streams layer
pub struct DynStreams {
    pub refused_owed: bool,                           // Recv::refused is Some: a RST_STREAM(REFUSED_STREAM) is owed (single slot)
    pub last_processed_id: StreamId,
    pub buffer_empty: bool,
    pub server: bool,
    pub resets: Ghost<Seq<(StreamId, Reason)>>,       // send_reset(id, reason) calls  => RST_STREAM frames
    pub errors: Ghost<Seq<Error>>,                    // handle_error(e) calls         => every stream failed with e
    pub go_aways: Ghost<Seq<StreamId>>,               // send_go_away(id) calls        => receive cut-off lowered
    pub calls: Ghost<Seq<Call>>,                      // recv_*(frame) calls, in order
}
impl DynStreams {
    pub fn last_processed_id(&self) -> (r: StreamId) ensures r == self.last_processed_id { self.last_processed_id }
    pub fn is_buffer_empty(&self) -> (r: bool) ensures r == self.buffer_empty { self.buffer_empty }
    pub fn is_server(&self) -> (r: bool) ensures r == self.server { self.server }
    /// whether the streams layer turns this reset into a connection error (lifetime quota of locally reset streams
    /// exhausted: C18) and with which code — decided by Counts, unknown here
    pub uninterp spec fn reset_refused(self, id: StreamId, reason: Reason) -> Option<Reason>;

    #[verifier::external_body]
    pub fn send_reset(&mut self, id: StreamId, reason: Reason) -> (r: Result<(), ErrGoAway>)
        ensures
            *final(self) == (DynStreams { resets: Ghost(old(self).resets@.push((id, reason))), ..*old(self) }),
            match old(self).reset_refused(id, reason) { None => r is Ok, Some(rr) => r is Err && r->Err_0.reason == rr },
    { unimplemented!() }
    #[verifier::external_body]
    pub fn handle_error(&mut self, e: Error)
        ensures *final(self) == (DynStreams { errors: Ghost(old(self).errors@.push(e)), ..*old(self) }),
    { unimplemented!() }
    #[verifier::external_body]
    pub fn send_go_away(&mut self, id: StreamId)
        ensures *final(self) == (DynStreams { go_aways: Ghost(old(self).go_aways@.push(id)), ..*old(self) }),
    { unimplemented!() }
}

/// frame::Frame as the connection layer sees it: the payloads of stream frames are opaque tokens here
#[derive(PartialEq, Eq, Structural, Clone, Copy, Debug)]
pub enum Frame { Data(u8), Headers(u8), Priority(u8), PushPromise(u8), Settings(u8), Ping(u8), GoAway(FGoAway), WindowUpdate(u8), Reset(u8) }

#[derive(PartialEq, Eq, Structural, Clone, Copy, Debug)]
pub enum ReceivedFrame { Settings(u8), Continue, Done }

/// what the connection layer handed to the streams layer, in order
#[derive(PartialEq, Eq, Structural, Clone, Copy, Debug)]
pub enum Call { Headers(u8), Data(u8), Reset(u8), PushPromise(u8), GoAway(FGoAway), WindowUpdate(u8), Eof }

impl DynStreams {
    #[verifier::external_body]
    pub fn recv_headers(&mut self, frame: u8) -> (r: Result<(), Error>)
        requires !old(self).refused_owed,       // the real `assert!(self.refused.is_none())` of Recv::open (I-single-slot)
        ensures read_error(r), *final(self) == (DynStreams { calls: Ghost(old(self).calls@.push(Call::Headers(frame))), refused_owed: final(self).refused_owed, ..*old(self) }),
    { unimplemented!() }
    #[verifier::external_body]
    pub fn recv_data(&mut self, frame: u8) -> (r: Result<(), Error>)
        ensures read_error(r), *final(self) == (DynStreams { calls: Ghost(old(self).calls@.push(Call::Data(frame))), ..*old(self) }),
    { unimplemented!() }
    #[verifier::external_body]
    pub fn recv_reset(&mut self, frame: u8) -> (r: Result<(), Error>)
        ensures read_error(r), *final(self) == (DynStreams { calls: Ghost(old(self).calls@.push(Call::Reset(frame))), ..*old(self) }),
    { unimplemented!() }
    #[verifier::external_body]
    pub fn recv_push_promise(&mut self, frame: u8) -> (r: Result<(), Error>)
        requires !old(self).refused_owed,       // Recv::open again (a promised stream is opened)
        ensures read_error(r), *final(self) == (DynStreams { calls: Ghost(old(self).calls@.push(Call::PushPromise(frame))), refused_owed: final(self).refused_owed, ..*old(self) }),
    { unimplemented!() }
    #[verifier::external_body]
    pub fn recv_window_update(&mut self, frame: u8) -> (r: Result<(), Error>)
        ensures read_error(r), *final(self) == (DynStreams { calls: Ghost(old(self).calls@.push(Call::WindowUpdate(frame))), ..*old(self) }),
    { unimplemented!() }
    #[verifier::external_body]
    pub fn recv_go_away(&mut self, frame: &FGoAway) -> (r: Result<(), Error>)
        ensures read_error(r), *final(self) == (DynStreams { calls: Ghost(old(self).calls@.push(Call::GoAway(*frame))), ..*old(self) }),
    { unimplemented!() }
    /// Streams::recv_eof: Err only for a poisoned mutex (Inner::recv_eof always returns Ok: unit v_streams)
    #[verifier::external_body]
    pub fn recv_eof(&mut self, clear_pending_accept: bool) -> (r: Result<(), ()>)
        ensures *final(self) == (DynStreams { calls: Ghost(old(self).calls@.push(Call::Eof)), ..*old(self) }), r is Ok,
    { unimplemented!() }
}

/// PingPong::recv_ping as the connection sees it (its real body: Kani units pp_recv_ping, pp_ack_consumed_once): the answer
/// says "shutdown" only when the graceful-shutdown PING was outstanding, and then it no longer is
#[derive(PartialEq, Eq, Structural, Clone, Copy, Debug)]
pub struct ReceivedPing { pub shutdown: bool }
impl ReceivedPing {
    pub fn is_shutdown(&self) -> (r: bool) ensures r == self.shutdown { self.shutdown }
}
pub struct PingPong { pub shutdown_pending: bool, pub pong_owed: bool }
impl PingPong {
    /// PingPong::ping_shutdown (Kani unit pp_new_take_shutdown): queues the graceful-shutdown PING; the real body asserts
    /// that none is outstanding
    #[verifier::external_body]
    pub fn ping_shutdown(&mut self)
        requires !old(self).shutdown_pending,
        ensures final(self).shutdown_pending, final(self).pong_owed == old(self).pong_owed,
    { unimplemented!() }

    #[verifier::external_body]
    pub fn recv_ping(&mut self, frame: u8) -> (r: ReceivedPing)
        requires !old(self).pong_owed,          // the real `assert!(self.pending_pong.is_none())` (I-single-slot; unit v_ping_pong)
        ensures r.shutdown ==> old(self).shutdown_pending && !final(self).shutdown_pending, !r.shutdown ==> final(self).shutdown_pending == old(self).shutdown_pending,
    { unimplemented!() }
}

impl GoAway {
    pub fn is_going_away(&self) -> (r: bool) ensures r == (self.going_away_reason is Some) { self.going_away_reason.is_some() }
}

pub struct DynConnection {
    pub state: State,
    pub go_away: GoAway,
    pub streams: DynStreams,
    pub error: Option<frame::GoAway>,
    pub ping_pong: PingPong,
}

/// I-shutdown: the graceful-shutdown PING is only outstanding after a GOAWAY was queued
pub open spec fn i_shutdown(c: DynConnection) -> bool {
    c.ping_pong.shutdown_pending ==> c.go_away.going_away_reason is Some
}

/// I-single-slot: the one-element slots a received frame may fill are empty (established by Connection::poll_ready below)
pub open spec fn slots_free(c: DynConnection) -> bool {
    !c.ping_pong.pong_owed && !c.streams.refused_owed
}

/// I-graceful: a GOAWAY that is queued while no immediate close was asked for is a graceful one, and those carry NO_ERROR
pub open spec fn i_graceful(c: DynConnection) -> bool {
    !c.go_away.close_now ==> (c.go_away.pending_code matches Some(x) ==> x == Reason::NO_ERROR)
}

impl DynConnection {
    /// `self.error.as_ref().map(|f| f.reason() == Reason::NO_ERROR) == Some(true)` written out
    pub fn peer_said_no_error(&self) -> (r: bool)
        ensures r == (self.error matches Some(f) && f.error_code == Reason::NO_ERROR),
    { match self.error { Some(f) => f.error_code.0 == 0, None => false } }

    //@extract src/proto/connection.rs DynConnection::go_away
    //@spec     ensures
    //@spec         // C15 graceful: the cut-off the peer is told and the cut-off the receive side applies are the same id
    //@spec         final(self).streams.go_aways@ == old(self).streams.go_aways@.push(id) && final(self).go_away.graceful@ == old(self).go_away.graceful@.push(frame::GoAway { last_stream_id: id, error_code: e }),
    //@spec         final(self).state == old(self).state && final(self).error == old(self).error && final(self).ping_pong == old(self).ping_pong,
    //@spec         final(self).streams == (DynStreams { go_aways: final(self).streams.go_aways, ..old(self).streams }),
    //@spec         final(self).go_away.now@ == old(self).go_away.now@ && final(self).go_away.from_user@ == old(self).go_away.from_user@ && final(self).go_away.going_away_reason == Some(e),
    //@spec         final(self).go_away.close_now == old(self).go_away.close_now && final(self).go_away.pending_code == Some(e),
    //@end

    //@extract src/proto/connection.rs DynConnection::go_away_now
    //@spec     ensures
    //@spec         // C15: the id in our GOAWAY is the highest peer stream handed to the application
    //@spec         final(self).go_away.now@ == old(self).go_away.now@.push(frame::GoAway { last_stream_id: old(self).streams.last_processed_id, error_code: e }),
    //@spec         final(self).state == old(self).state && final(self).streams == old(self).streams && final(self).error == old(self).error,
    //@spec         final(self).ping_pong == old(self).ping_pong && final(self).go_away.going_away_reason is Some && final(self).go_away.close_now,
    //@end

    //@extract src/proto/connection.rs DynConnection::go_away_now_data
    //@subst fn go_away_now_data(&mut self, e: Reason, data: Bytes)=>fn go_away_now_data(&mut self, e: Reason)
    //@subst frame::GoAway::with_debug_data(last_processed_id, e, data)=>frame::GoAway::with_debug_data(last_processed_id, e)
    //@spec     ensures
    //@spec         final(self).go_away.now@ == old(self).go_away.now@.push(frame::GoAway { last_stream_id: old(self).streams.last_processed_id, error_code: e }),
    //@spec         final(self).state == old(self).state && final(self).streams == old(self).streams && final(self).error == old(self).error,
    //@spec         final(self).go_away.graceful@ == old(self).go_away.graceful@ && final(self).go_away.from_user@ == old(self).go_away.from_user@,
    //@spec         final(self).ping_pong == old(self).ping_pong && final(self).go_away.going_away_reason is Some && final(self).go_away.close_now,
    //@end

    //@extract src/proto/connection.rs DynConnection::go_away_from_user
    //@spec     ensures
    //@spec         // C15/C07 abrupt shutdown by the application: GOAWAY with its code, and every stream fails with a USER go-away of that code
    //@spec         final(self).go_away.from_user@ == old(self).go_away.from_user@.push(frame::GoAway { last_stream_id: old(self).streams.last_processed_id, error_code: e }),
    //@spec         final(self).streams.errors@ == old(self).streams.errors@.push(Error::GoAway(e, Initiator::User)),
    //@spec         final(self).state == old(self).state && final(self).streams.resets@ == old(self).streams.resets@,
    //@spec         final(self).go_away.close_now && final(self).ping_pong == old(self).ping_pong && final(self).streams.refused_owed == old(self).streams.refused_owed,
    //@end

    //@extract src/proto/connection.rs DynConnection::handle_go_away
    //@subst fn handle_go_away(&mut self, reason: Reason, debug_data: Bytes, initiator: Initiator)=>fn handle_go_away(&mut self, reason: Reason, initiator: Initiator)
    //@subst let e = Error::GoAway(debug_data.clone(), reason, initiator);=>let e = Error::GoAway(reason, initiator);
    //@subst_re if self\s*\.go_away\s*\.going_away\(\)\s*\.map_or\(false, \|frame\| frame\.reason\(\) == reason\)=>if self.go_away.going_away_with_reason(reason)
    //@subst *self.state = State::Closing(reason, initiator);=>self.state = State::Closing(reason, initiator);
    //@subst self.go_away_now_data(reason, debug_data);=>self.go_away_now_data(reason);
    //@spec     ensures
    //@spec         // a GOAWAY with this code is already under way: nothing is sent twice, no stream is failed twice, the connection closes
    //@spec         old(self).go_away.going_away_reason == Some(reason) ==> final(self).state == State::Closing(reason, initiator)
    //@spec             && final(self).streams == old(self).streams && final(self).go_away == old(self).go_away,
    //@spec         // otherwise: EVERY stream fails with exactly this error, and exactly one GOAWAY(last processed id, code) is queued
    //@spec         old(self).go_away.going_away_reason != Some(reason) ==> final(self).streams.errors@ == old(self).streams.errors@.push(Error::GoAway(reason, initiator))
    //@spec             && final(self).go_away.now@ == old(self).go_away.now@.push(frame::GoAway { last_stream_id: old(self).streams.last_processed_id, error_code: reason })
    //@spec             && final(self).streams.resets@ == old(self).streams.resets@ && final(self).state == old(self).state,
    //@spec         final(self).error == old(self).error && final(self).ping_pong == old(self).ping_pong,
    //@spec         i_shutdown(*old(self)) ==> i_shutdown(*final(self)),
    //@spec         i_graceful(*old(self)) ==> i_graceful(*final(self)),
    //@spec         final(self).streams.refused_owed == old(self).streams.refused_owed,
    //@end

    //@extract src/proto/connection.rs DynConnection::handle_poll2_result
    //@subst *self.state = State::Closing(Reason::NO_ERROR, Initiator::Library);=>self.state = State::Closing(Reason::NO_ERROR, Initiator::Library);
    //@subst Err(Error::GoAway(debug_data, reason, initiator)) => { ==>> Err(Error::GoAway(reason, initiator)) => {
    //@subst self.handle_go_away(reason, debug_data, initiator);=>self.handle_go_away(reason, initiator);
    //@subst Err(crate::proto::error::GoAway { debug_data, reason }) => { ==>> Err(ErrGoAway { reason }) => {
    //@subst self.handle_go_away(reason, debug_data, Initiator::Library);=>self.handle_go_away(reason, Initiator::Library);
    //@subst Err(Error::Io(kind, inner)) => { ==>> Err(Error::Io(kind)) => {
    //@subst let e = Error::Io(kind, inner);=>let e = Error::Io(kind);
    //@subst_re \|\| self\.error\.as_ref\(\)\.map\(\|f\| f\.reason\(\) == Reason::NO_ERROR\)\s*== Some\(true\)\)=>|| self.peer_said_no_error())
    //@subst *self.state = State::Closed(Reason::NO_ERROR, Initiator::Library);=>self.state = State::Closed(Reason::NO_ERROR, Initiator::Library);
    //@ret r
    //@spec     requires
    //@spec         // stream errors raised by this endpoint's own checks carry Initiator::Library, resets received from the peer
    //@spec         // Initiator::Remote (the real debug_assert_eq!, an obligation of the callers: proto::Error constructors)
    //@spec         result matches Err(Error::Reset(_, _, i)) ==> i != Initiator::User,
    //@spec     ensures
    //@spec         i_shutdown(*old(self)) ==> i_shutdown(*final(self)),
    //@spec         i_graceful(*old(self)) ==> i_graceful(*final(self)),
    //@spec         final(self).ping_pong == old(self).ping_pong && final(self).streams.refused_owed == old(self).streams.refused_owed,
    //@spec         // Closed is never entered here except for the benign EOF: every other ending goes through Closing (flush + shutdown first)
    //@spec         final(self).state is Closed ==> final(self).state == old(self).state || final(self).state == State::Closed(Reason::NO_ERROR, Initiator::Library),
    //@spec         match result {
    //@spec             // the read side ended cleanly: flush and close
    //@spec             Ok(()) => r is Ok && final(self).state == State::Closing(Reason::NO_ERROR, Initiator::Library) && final(self).streams == old(self).streams && final(self).go_away == old(self).go_away,
    //@spec             // C09: a stream error is CONTAINED — one RST_STREAM(id, code), nothing else; the connection carries on
    //@spec             Err(Error::Reset(id, reason, Initiator::Library)) => r is Ok && final(self).streams.resets@ == old(self).streams.resets@.push((id, reason))
    //@spec                 && (old(self).streams.reset_refused(id, reason) is None ==> final(self).state == old(self).state && final(self).go_away == old(self).go_away
    //@spec                         && final(self).streams.errors@ == old(self).streams.errors@)
    //@spec                 // C18: too many streams reset by our own checks => the quota turns the next one into a connection error
    //@spec                 && (old(self).streams.reset_refused(id, reason) matches Some(rr) ==> (old(self).go_away.going_away_reason != Some(rr) ==>
    //@spec                         final(self).streams.errors@ == old(self).streams.errors@.push(Error::GoAway(rr, Initiator::Library))
    //@spec                         && final(self).go_away.now@ == old(self).go_away.now@.push(frame::GoAway { last_stream_id: old(self).streams.last_processed_id, error_code: rr }))),
    //@spec             // a reset the PEER sent is not echoed
    //@spec             Err(Error::Reset(_, _, Initiator::Remote)) => r is Ok && *final(self) == *old(self),
    //@spec             Err(Error::Reset(_, _, Initiator::User)) => true,
    //@spec             // C09/C15/C17: a connection error fails every stream with exactly it and queues GOAWAY(last processed, code) — once
    //@spec             Err(Error::GoAway(reason, initiator)) => r is Ok && final(self).streams.resets@ == old(self).streams.resets@
    //@spec                 && (old(self).go_away.going_away_reason != Some(reason) ==> final(self).streams.errors@ == old(self).streams.errors@.push(Error::GoAway(reason, initiator))
    //@spec                         && final(self).go_away.now@ == old(self).go_away.now@.push(frame::GoAway { last_stream_id: old(self).streams.last_processed_id, error_code: reason }))
    //@spec                 && (old(self).go_away.going_away_reason == Some(reason) ==> final(self).state == State::Closing(reason, initiator) && final(self).go_away == old(self).go_away && final(self).streams == old(self).streams),
    //@spec             // C07: an I/O error fails every stream with it and is the connection's result, except the benign EOF
    //@spec             Err(Error::Io(kind)) => final(self).streams.errors@ == old(self).streams.errors@.push(Error::Io(kind)) && final(self).go_away == old(self).go_away
    //@spec                 && (r is Ok ==> kind == io::ErrorKind::UnexpectedEof && old(self).streams.buffer_empty && final(self).state == State::Closed(Reason::NO_ERROR, Initiator::Library))
    //@spec                 && (r is Err ==> r == Err::<(), Error>(Error::Io(kind)) && final(self).state == old(self).state),
    //@spec         },
    //@end
}

impl DynConnection {
    // Dispatch of one received frame (C01 order, C09, C14, C15, C08): every frame goes to exactly the function of the
    // streams layer that owns it, exactly once, and an error it reports is returned UNCHANGED (so that handle_poll2_result
    // above sees the real stream id / code / initiator); SETTINGS goes back to the caller; a GOAWAY is recorded as the
    // connection's result after the streams were told; the ACK of the graceful-shutdown PING queues the second GOAWAY with
    // the real last processed id and NO_ERROR (C15) — the `assert!` "received unexpected shutdown ping" is an obligation,
    // discharged from I-shutdown below; end of input fails every stream (recv_eof) and reports Done.
    //@extract src/proto/connection.rs DynConnection::recv_frame
    //@subst use crate::frame::Frame::*;=>
    //@subst_re Some\((Headers|Data|Reset|PushPromise|Settings|GoAway|Ping|WindowUpdate|Priority)\(frame\)\) => ==>> Some(Frame::\1(frame)) =>
    //@subst *self.error = Some(frame);=>self.error = Some(frame);
    //@subst self.streams.recv_eof(false).expect("mutex poisoned");=>let _e = self.streams.recv_eof(false); assert(_e.is_ok());
    //@ret r
    //@spec     requires
    //@spec         // I-shutdown: the graceful-shutdown PING is only outstanding after the first GOAWAY was queued
    //@spec         // (Connection::go_away_gracefully: go_away(MAX, NO_ERROR) then ping_shutdown())
    //@spec         i_shutdown(*old(self)),
    //@spec         // I-single-slot: Connection::poll2 takes a frame only after poll_ready answered Ready (proved below)
    //@spec         slots_free(*old(self)),
    //@spec     ensures
    //@spec         i_shutdown(*final(self)),
    //@spec         i_graceful(*old(self)) ==> i_graceful(*final(self)),
    //@spec         final(self).state == old(self).state,
    //@spec         match frame {
    //@spec             Some(Frame::Headers(f)) => final(self).streams.calls@ == old(self).streams.calls@.push(Call::Headers(f)) && final(self).go_away == old(self).go_away && final(self).error == old(self).error,
    //@spec             Some(Frame::Data(f)) => final(self).streams.calls@ == old(self).streams.calls@.push(Call::Data(f)) && final(self).go_away == old(self).go_away && final(self).error == old(self).error,
    //@spec             Some(Frame::Reset(f)) => final(self).streams.calls@ == old(self).streams.calls@.push(Call::Reset(f)) && final(self).go_away == old(self).go_away && final(self).error == old(self).error,
    //@spec             Some(Frame::PushPromise(f)) => final(self).streams.calls@ == old(self).streams.calls@.push(Call::PushPromise(f)) && final(self).go_away == old(self).go_away && final(self).error == old(self).error,
    //@spec             Some(Frame::WindowUpdate(f)) => final(self).streams.calls@ == old(self).streams.calls@.push(Call::WindowUpdate(f)) && final(self).go_away == old(self).go_away && final(self).error == old(self).error,
    //@spec             Some(Frame::Settings(f)) => r == Ok::<ReceivedFrame, Error>(ReceivedFrame::Settings(f)) && *final(self) == *old(self),
    //@spec             Some(Frame::Priority(_)) => r == Ok::<ReceivedFrame, Error>(ReceivedFrame::Continue) && *final(self) == *old(self),
    //@spec             // C15: the peer's GOAWAY reaches the streams first; it becomes the connection's result only if they accepted it
    //@spec             Some(Frame::GoAway(g)) => final(self).streams.calls@ == old(self).streams.calls@.push(Call::GoAway(g)) && final(self).go_away == old(self).go_away
    //@spec                 && (r is Ok ==> final(self).error == Some(g)) && (r is Err ==> final(self).error == old(self).error),
    //@spec             // C14/C15: PING; the shutdown ACK queues the final GOAWAY(last processed id, NO_ERROR) and lowers the receive cut-off to it
    //@spec             Some(Frame::Ping(_)) => r == Ok::<ReceivedFrame, Error>(ReceivedFrame::Continue) && final(self).streams.calls@ == old(self).streams.calls@ && final(self).error == old(self).error
    //@spec                 && (final(self).go_away.graceful@ == old(self).go_away.graceful@
    //@spec                     || (old(self).ping_pong.shutdown_pending && !final(self).ping_pong.shutdown_pending
    //@spec                         && final(self).go_away.graceful@ == old(self).go_away.graceful@.push(frame::GoAway { last_stream_id: old(self).streams.last_processed_id, error_code: Reason::NO_ERROR })
    //@spec                         && final(self).streams.go_aways@ == old(self).streams.go_aways@.push(old(self).streams.last_processed_id))),
    //@spec             // C07: end of input: every stream is failed, and the caller is told the read side is done
    //@spec             None => r == Ok::<ReceivedFrame, Error>(ReceivedFrame::Done) && final(self).streams.calls@ == old(self).streams.calls@.push(Call::Eof),
    //@spec         },
    //@spec         r matches Err(Error::Reset(_, _, i)) ==> i != Initiator::User,
    //@spec         // errors come from the streams layer only, and pass through unchanged (nothing else can fail here)
    //@spec         r is Err ==> (frame matches Some(Frame::Headers(_))) || (frame matches Some(Frame::Data(_))) || (frame matches Some(Frame::Reset(_)))
    //@spec             || (frame matches Some(Frame::PushPromise(_))) || (frame matches Some(Frame::WindowUpdate(_))) || (frame matches Some(Frame::GoAway(_))),
    //@end
}

// ================================================================================================
// The driver: Connection::{poll, poll2, poll_ready, take_error} and Streams::send_pending_refusal
// ================================================================================================
pub enum Poll<T> { Ready(T), Pending }
pub struct Context { pub tag: u8 }

/// Codec<T, Prioritized<B>> as the driver sees it: a source of frames (anything may arrive: the result of poll_next is
/// unconstrained), a sink with back-pressure, and `shutdown` (flush everything, then close the write side: Kani unit
/// fw_shutdown_flushes_first, Verus unit v_framed_write)
pub struct Codec { pub shut: bool }
impl Codec {
    #[verifier::external_body]
    pub fn poll_next(&mut self, cx: &mut Context) -> (r: Poll<Option<Result<Frame, Error>>>)
        ensures final(self).shut == old(self).shut,
            r matches Poll::Ready(Some(Err(Error::Reset(_, _, i)))) ==> i != Initiator::User,     // FramedRead raises library errors only
    { unimplemented!() }
    #[verifier::external_body]
    pub fn poll_ready(&mut self, cx: &mut Context) -> (r: Poll<Result<(), io::ErrorKind>>)
        ensures final(self).shut == old(self).shut,
    { unimplemented!() }
    #[verifier::external_body]
    pub fn shutdown(&mut self, cx: &mut Context) -> (r: Poll<Result<(), io::ErrorKind>>)
        ensures (r matches Poll::Ready(Ok(_))) ==> final(self).shut, !(r matches Poll::Ready(Ok(_))) ==> final(self).shut == old(self).shut,
    { unimplemented!() }
}

impl Error {
    pub fn library_go_away(reason: Reason) -> (r: Error) ensures r == Error::GoAway(reason, Initiator::Library) { Error::GoAway(reason, Initiator::Library) }
}

#[derive(PartialEq, Eq, Structural, Clone, Copy, Debug)]
pub enum BufferStatus { Complete, CodecFull }

impl DynStreams {
    /// `me.actions.recv.send_pending_refusal(dst)` behind the lock: contract of the real body in unit v_recv — Complete means
    /// the slot is empty (the RST_STREAM was buffered or nothing was owed), CodecFull means nothing changed
    #[verifier::external_body]
    pub fn recv_send_pending_refusal(&mut self, dst: &mut Codec) -> (r: Result<BufferStatus, io::ErrorKind>)
        ensures
            *final(self) == (DynStreams { refused_owed: final(self).refused_owed, ..*old(self) }), final(dst).shut == old(dst).shut,
            r == Ok::<BufferStatus, io::ErrorKind>(BufferStatus::Complete) ==> !final(self).refused_owed,
            !(r == Ok::<BufferStatus, io::ErrorKind>(BufferStatus::Complete)) ==> final(self).refused_owed == old(self).refused_owed,
    { unimplemented!() }

    // Streams::send_pending_refusal (streams.rs): Ready(Ok) only once the refusal slot is empty; waits for the codec otherwise.
    // Listed substitutions: generics dropped; the lock preamble + `?` => a match on the model function above;
    // `ready!(dst.poll_ready(cx))?` written out.
    //@extract src/proto/streams/streams.rs Streams::send_pending_refusal
    //@attr #[verifier::exec_allows_no_decreases_clause]
    //@subst_re pub fn send_pending_refusal<T>\(\s*&mut self,\s*cx: &mut Context,\s*dst: &mut Codec<T, Prioritized<B>>,\s*\) -> Poll<io::Result<\(\)>>\s*where\s*T: AsyncWrite \+ Unpin, ==>> pub fn send_pending_refusal(&mut self, cx: &mut Context, dst: &mut Codec) -> Poll<Result<(), io::ErrorKind>>
    //@subst_re let mut me = self\.inner\.lock\(\)\.unwrap\(\);\s*let me = &mut \*me;\s*me\.actions\.recv\.send_pending_refusal\(dst\)\? ==>> match self.recv_send_pending_refusal(dst) { Ok(s) => s, Err(e) => { return Poll::Ready(Err(e)); } }
    //@subst_opt_re ready!\(dst\.poll_ready\(cx\)\)\? ==>> match dst.poll_ready(cx) { Poll::Pending => { return Poll::Pending; } Poll::Ready(Err(e)) => { return Poll::Ready(Err(e)); } Poll::Ready(Ok(())) => {} }
    //@ret r
    //@spec     ensures
    //@spec         *final(self) == (DynStreams { refused_owed: final(self).refused_owed, ..*old(self) }), final(dst).shut == old(dst).shut,
    //@spec         (r matches Poll::Ready(Ok(_))) ==> !final(self).refused_owed,
    //@spec         !old(self).refused_owed ==> !final(self).refused_owed,
    //@loop 0     invariant
    //@loop 0         *self == (DynStreams { refused_owed: self.refused_owed, ..*old(self) }), dst.shut == old(dst).shut,
    //@loop 0         !old(self).refused_owed ==> !self.refused_owed,
    //@end

    /// Streams::poll_complete: flushes what the streams layer owes (WINDOW_UPDATEs, queued frames) and the codec
    #[verifier::external_body]
    pub fn poll_complete(&mut self, cx: &mut Context, dst: &mut Codec) -> (r: Poll<Result<(), io::ErrorKind>>)
        ensures *final(self) == *old(self), final(dst).shut == old(dst).shut,
    { unimplemented!() }
    #[verifier::external_body]
    pub fn clear_expired_reset_streams(&mut self)
        ensures *final(self) == *old(self),
    { unimplemented!() }
    #[verifier::external_body]
    pub fn has_streams(&self) -> (r: bool) { unimplemented!() }
}

impl PingPong {
    /// PingPong::send_pending_pong (its real body: unit v_ping_pong): Ready(Ok) only with the slot empty
    #[verifier::external_body]
    pub fn send_pending_pong(&mut self, cx: &mut Context, dst: &mut Codec) -> (r: Poll<Result<(), io::ErrorKind>>)
        ensures final(self).shutdown_pending == old(self).shutdown_pending, final(dst).shut == old(dst).shut,
            (r matches Poll::Ready(Ok(_))) ==> !final(self).pong_owed,
            !old(self).pong_owed ==> !final(self).pong_owed,
    { unimplemented!() }
    #[verifier::external_body]
    pub fn send_pending_ping(&mut self, cx: &mut Context, dst: &mut Codec) -> (r: Poll<Result<(), io::ErrorKind>>)
        ensures final(self).shutdown_pending == old(self).shutdown_pending, final(self).pong_owed == old(self).pong_owed, final(dst).shut == old(dst).shut,
    { unimplemented!() }
}

/// proto::Settings (its real bodies: unit v_settings): `remote_owed` = a SETTINGS frame of the peer waits for its ACK
pub struct Settings { pub remote_owed: bool }
impl Settings {
    #[verifier::external_body]
    pub fn poll_send(&mut self, cx: &mut Context, dst: &mut Codec, streams: &mut DynStreams) -> (r: Poll<Result<(), Error>>)
        ensures (r matches Poll::Ready(Ok(_))) ==> !final(self).remote_owed, !old(self).remote_owed ==> !final(self).remote_owed,
            r matches Poll::Ready(Err(Error::Reset(_, _, i))) ==> i != Initiator::User,
            *final(streams) == *old(streams), final(dst).shut == old(dst).shut,
    { unimplemented!() }
    #[verifier::external_body]
    pub fn recv_settings(&mut self, frame: u8, codec: &mut Codec, streams: &mut DynStreams) -> (r: Result<(), Error>)
        requires !old(self).remote_owed,        // the real `assert!(self.remote.is_none())` (I-single-slot)
        ensures *final(streams) == *old(streams), final(codec).shut == old(codec).shut, read_error(r),
    { unimplemented!() }
}

impl GoAway {
    /// GoAway::send_pending_go_away (its real body: unit v_go_away)
    #[verifier::external_body]
    pub fn send_pending_go_away(&mut self, cx: &mut Context, dst: &mut Codec) -> (r: Poll<Option<Result<Reason, io::ErrorKind>>>)
        ensures
            *final(self) == (GoAway { pending_code: final(self).pending_code, ..*old(self) }), final(dst).shut == old(dst).shut,
            old(self).pending_code matches Some(c) ==> ((r is Pending && final(self).pending_code == old(self).pending_code)
                || ((r matches Poll::Ready(Some(Err(_)))) && final(self).pending_code is None) || (r == Poll::<Option<Result<Reason, io::ErrorKind>>>::Ready(Some(Ok(c))) && final(self).pending_code is None)),
            old(self).pending_code is None ==> final(self).pending_code is None
                && r == (if old(self).close_now && old(self).going_away_reason is Some { Poll::<Option<Result<Reason, io::ErrorKind>>>::Ready(Some(Ok(old(self).going_away_reason->Some_0))) } else { Poll::<Option<Result<Reason, io::ErrorKind>>>::Ready(None) }),
    { unimplemented!() }
    pub fn should_close_now(&self) -> (r: bool) ensures r == (self.pending_code is None && self.close_now) { self.pending_code.is_none() && self.close_now }
    pub fn is_user_initiated(&self) -> (r: bool) ensures r == self.is_user_initiated { self.is_user_initiated }
    #[verifier::external_body]
    pub fn should_close_on_idle(&self) -> (r: bool) { unimplemented!() }
}

/// Connection<T, P, B>, reduced: `inner` stands for ConnectionInner (the fields DynConnection borrows), its `settings` field
/// sits beside it (listed substitution `self.inner.settings` => `self.settings`)
pub struct Connection { pub codec: Codec, pub inner: DynConnection, pub settings: Settings }

/// what the connection future resolves with once the state is Closed(ours, initiator) (C07 / C15 / C17): the PEER's code if
/// it sent a GOAWAY with an error, else our own code with its initiator, else success
pub open spec fn final_result(ours: Reason, initiator: Initiator, theirs: Option<frame::GoAway>) -> Result<(), Error> {
    let t = match theirs { Some(f) => f.error_code, None => Reason::NO_ERROR };
    if ours == Reason::NO_ERROR && t == Reason::NO_ERROR { Ok(()) }
    else if t == Reason::NO_ERROR { Err(Error::GoAway(ours, initiator)) }
    else { Err(Error::GoAway(t, Initiator::Remote)) }
}


impl Connection {
    //@extract src/proto/connection.rs Connection::clear_expired_reset_streams
    //@spec     ensures *final(self) == *old(self),
    //@end

    //@extract src/proto/connection.rs Connection::poll_go_away
    //@subst fn poll_go_away(&mut self, cx: &mut Context) -> Poll<Option<io::Result<Reason>>>=>fn poll_go_away(&mut self, cx: &mut Context) -> Poll<Option<Result<Reason, io::ErrorKind>>>
    //@ret r
    //@spec     ensures
    //@spec         *final(self) == (Connection { inner: DynConnection { go_away: final(self).inner.go_away, ..old(self).inner }, ..*old(self) }),
    //@spec         final(self).inner.go_away == (GoAway { pending_code: final(self).inner.go_away.pending_code, ..old(self).inner.go_away }),
    //@spec         old(self).inner.go_away.pending_code matches Some(c) ==> ((r is Pending && final(self).inner.go_away.pending_code == old(self).inner.go_away.pending_code)
    //@spec             || ((r matches Poll::Ready(Some(Err(_)))) && final(self).inner.go_away.pending_code is None) || (r == Poll::<Option<Result<Reason, io::ErrorKind>>>::Ready(Some(Ok(c))) && final(self).inner.go_away.pending_code is None)),
    //@spec         old(self).inner.go_away.pending_code is None ==> final(self).inner.go_away.pending_code is None
    //@spec             && (r matches Poll::Ready(Some(Ok(_))) ==> old(self).inner.go_away.close_now),
    //@end

    // I-single-slot is ESTABLISHED here (C08 / C14): Ready(Ok) is only answered when the PING ACK owed, the SETTINGS ACK owed
    // and the RST_STREAM(REFUSED_STREAM) owed have all been handed to the codec — the three `assert!(.. .is_none())` in
    // PingPong::recv_ping, Settings::recv_settings and Recv::open rely on exactly this.
    // Listed substitutions: `ready!(e)?` written out (the io::Error -> proto::Error conversion of `?` is Error::Io);
    // `self.inner.settings` => `self.settings`; the span guards dropped (R1).
    //@extract src/proto/connection.rs Connection::poll_ready
    //@subst let _e = self.inner.span.enter();=>
    //@subst_opt_re ready!\(self\.inner\.ping_pong\.send_pending_pong\(cx, \&mut self\.codec\)\)\?; ==>> match self.inner.ping_pong.send_pending_pong(cx, &mut self.codec) { Poll::Pending => { return Poll::Pending; } Poll::Ready(Err(e)) => { return Poll::Ready(Err(Error::Io(e))); } Poll::Ready(Ok(())) => {} }
    //@subst_opt_re ready!\(self\.inner\.ping_pong\.send_pending_ping\(cx, \&mut self\.codec\)\)\?; ==>> match self.inner.ping_pong.send_pending_ping(cx, &mut self.codec) { Poll::Pending => { return Poll::Pending; } Poll::Ready(Err(e)) => { return Poll::Ready(Err(Error::Io(e))); } Poll::Ready(Ok(())) => {} }
    //@subst_opt_re ready!\(self\s*\.inner\s*\.settings\s*\.poll_send\(cx, &mut self\.codec, &mut self\.inner\.streams\)\)\?; ==>> match self.settings.poll_send(cx, &mut self.codec, &mut self.inner.streams) { Poll::Pending => { return Poll::Pending; } Poll::Ready(Err(e)) => { return Poll::Ready(Err(e)); } Poll::Ready(Ok(())) => {} }
    //@subst_opt_re ready!\(self\.inner\.streams\.send_pending_refusal\(cx, \&mut self\.codec\)\)\?; ==>> match self.inner.streams.send_pending_refusal(cx, &mut self.codec) { Poll::Pending => { return Poll::Pending; } Poll::Ready(Err(e)) => { return Poll::Ready(Err(Error::Io(e))); } Poll::Ready(Ok(())) => {} }
    //@ret r
    //@spec     ensures
    //@spec         (r matches Poll::Ready(Ok(_))) ==> slots_free(final(self).inner) && !final(self).settings.remote_owed,
    //@spec         r matches Poll::Ready(Err(Error::Reset(_, _, i))) ==> i != Initiator::User,
    //@spec         // nothing else moves: state, GOAWAY bookkeeping, what the streams layer was asked, the shutdown PING
    //@spec         final(self).inner.state == old(self).inner.state && final(self).inner.go_away == old(self).inner.go_away && final(self).inner.error == old(self).inner.error,
    //@spec         final(self).inner.streams == (DynStreams { refused_owed: final(self).inner.streams.refused_owed, ..old(self).inner.streams }),
    //@spec         final(self).inner.ping_pong.shutdown_pending == old(self).inner.ping_pong.shutdown_pending && final(self).codec.shut == old(self).codec.shut,
    //@end

    // The read loop (C08 / C09 / C14): before EVERY frame is taken from the codec, pending GOAWAYs are written and poll_ready
    // has answered Ready — so recv_frame and recv_settings are only ever called with the single slots free (their
    // preconditions are obligations at the call sites here), I-shutdown and I-graceful hold around every iteration, a
    // frame's error leaves through the return value (to handle_poll2_result), and the real
    // `debug_assert_eq!(reason, NO_ERROR, "graceful GOAWAY should be NO_ERROR")` cannot fire.
    // Listed substitutions: `ready!(..)` / `?` written out; `self.inner.as_dyn()` => `self.inner`; `Pin::new(&mut self.codec)`
    // => `self.codec`; `self.inner.settings` => `self.settings`.
    //@extract src/proto/connection.rs Connection::poll2
    //@attr #[verifier::exec_allows_no_decreases_clause]
    //@subst if let Some(reason) = ready!(self.poll_go_away(cx)?) {=>let _ga = match self.poll_go_away(cx) { Poll::Pending => { return Poll::Pending; } Poll::Ready(Some(Err(e))) => { return Poll::Ready(Err(Error::Io(e))); } Poll::Ready(Some(Ok(x))) => Some(x), Poll::Ready(None) => None }; if let Some(reason) = _ga {
    //@subst_opt_re ready!\(self\.poll_ready\(cx\)\)\?; ==>> match self.poll_ready(cx) { Poll::Pending => { return Poll::Pending; } Poll::Ready(Err(e)) => { return Poll::Ready(Err(e)); } Poll::Ready(Ok(())) => {} }
    //@subst_re match self\s*\.inner\s*\.as_dyn\(\)\s*\.recv_frame\(ready!\(Pin::new\(&mut self\.codec\)\.poll_next\(cx\)\?\)\)\?\s*\{ ==>> let _fr = match self.codec.poll_next(cx) { Poll::Pending => { return Poll::Pending; } Poll::Ready(Some(Err(e))) => { return Poll::Ready(Err(e)); } Poll::Ready(Some(Ok(f))) => Some(f), Poll::Ready(None) => None }; let _rf = match self.inner.recv_frame(_fr) { Ok(v) => v, Err(e) => { return Poll::Ready(Err(e)); } }; match _rf {
    //@subst_re self\.inner\.settings\.recv_settings\(\s*frame,\s*&mut self\.codec,\s*&mut self\.inner\.streams,\s*\)\?; ==>> match self.settings.recv_settings(frame, &mut self.codec, &mut self.inner.streams) { Ok(()) => {} Err(e) => { return Poll::Ready(Err(e)); } }
    //@ret r
    //@spec     requires
    //@spec         i_shutdown(old(self).inner), i_graceful(old(self).inner),
    //@spec     ensures
    //@spec         i_shutdown(final(self).inner), i_graceful(final(self).inner),
    //@spec         final(self).inner.state == old(self).inner.state && final(self).codec.shut == old(self).codec.shut,
    //@spec         // an immediate close asked for by the library is reported with the code of the GOAWAY that was written
    //@spec         r matches Poll::Ready(x) ==> read_error(x),
    //@loop 0     invariant
    //@loop 0         i_shutdown(self.inner), i_graceful(self.inner),
    //@loop 0         self.inner.state == old(self).inner.state && self.codec.shut == old(self).codec.shut,
    //@end

    // C07 / C15 / C17: what the connection future resolves with
    // Listed substitution: the `.take().as_ref().map_or(.., |frame| ..)` chain written out as a match (debug data not modelled).
    //@extract src/proto/connection.rs Connection::take_error
    //@subst_re let \(debug_data, theirs\) = self\s*\.inner\s*\.error\s*\.take\(\)\s*\.as_ref\(\)\s*\.map_or\(\(Bytes::new\(\), Reason::NO_ERROR\), \|frame\| \{\s*\(frame\.debug_data\(\)\.clone\(\), frame\.reason\(\)\)\s*\}\); ==>> let theirs = match self.inner.error.take() { Some(frame) => frame.reason(), None => Reason::NO_ERROR };
    //@subst_opt_re Error::GoAway\(Bytes::new\(\), ==>> Error::GoAway(
    //@subst_opt_re Error::remote_go_away\(debug_data, ==>> Error::remote_go_away(
    //@ret r
    //@spec     ensures
    //@spec         r == final_result(ours, initiator, old(self).inner.error),
    //@spec         final(self).inner.error is None,
    //@spec         *final(self) == (Connection { inner: DynConnection { error: None, ..old(self).inner }, ..*old(self) }),
    //@end

    // The connection future (C07 / C12 / C15): it resolves only (a) with an I/O error, or (b) in state Closed(code, initiator)
    // with exactly final_result(code, initiator, the peer's GOAWAY) — and Closed is only entered from Closing after the codec
    // was flushed and shut down (the GOAWAY we owe is on the wire first), or directly for the benign EOF (NO_ERROR); every
    // result of poll2 goes through handle_poll2_result (no error is dropped on the floor).
    //@extract src/proto/connection.rs Connection::poll
    //@attr #[verifier::exec_allows_no_decreases_clause]
    //@subst_re let span = self\.inner\.span\.clone\(\);\s*let _e = span\.enter\(\);=>
    //@subst_opt_re ready!\(self\.inner\.streams\.poll_complete\(cx, \&mut self\.codec\)\)\?; ==>> match self.inner.streams.poll_complete(cx, &mut self.codec) { Poll::Pending => { return Poll::Pending; } Poll::Ready(Err(e)) => { return Poll::Ready(Err(Error::Io(e))); } Poll::Ready(Ok(())) => {} }
    //@subst self.inner.as_dyn().go_away_now(Reason::NO_ERROR);=>self.inner.go_away_now(Reason::NO_ERROR);
    //@subst self.inner.as_dyn().handle_poll2_result(result)?=>match self.inner.handle_poll2_result(result) { Ok(()) => {} Err(e) => { return Poll::Ready(Err(e)); } }
    //@subst_opt_re ready!\(self\.codec\.shutdown\(cx\)\)\?; ==>> match self.codec.shutdown(cx) { Poll::Pending => { return Poll::Pending; } Poll::Ready(Err(e)) => { return Poll::Ready(Err(Error::Io(e))); } Poll::Ready(Ok(())) => {} }
    //@ret r
    //@spec     requires
    //@spec         i_shutdown(old(self).inner), i_graceful(old(self).inner),
    //@spec     ensures
    //@spec         i_shutdown(final(self).inner), i_graceful(final(self).inner),
    //@spec         match r {
    //@spec             Poll::Pending => true,
    //@spec             Poll::Ready(x) => (x matches Err(Error::Io(_)))
    //@spec                 || (final(self).inner.state matches State::Closed(code, initiator)
    //@spec                     && (exists|theirs: Option<frame::GoAway>| x == #[trigger] final_result(code, initiator, theirs))
    //@spec                     && final(self).inner.error is None
    //@spec                     // flushed and shut down before the result is handed out — unless it was Closed already, or the benign EOF
    //@spec                     && (final(self).codec.shut || old(self).inner.state == final(self).inner.state || (code == Reason::NO_ERROR && initiator == Initiator::Library))),
    //@spec         },
    //@loop 0     invariant
    //@loop 0         i_shutdown(self.inner), i_graceful(self.inner),
    //@loop 0         self.inner.state matches State::Closed(code, initiator) ==> (self.codec.shut || old(self).inner.state == self.inner.state || (code == Reason::NO_ERROR && initiator == Initiator::Library)),
    //@loop 0         old(self).codec.shut ==> self.codec.shut,
    //@end

    // C15 graceful shutdown, first step: GOAWAY(2^31-1, NO_ERROR) — "no new streams, everything in flight will be
    // processed" — then the PING whose ACK triggers the second GOAWAY (recv_frame above).  A shutdown already under way is
    // not restarted.  Establishes I-shutdown, the precondition of recv_frame.
    // Listed substitution: `self.inner.as_dyn()` (which lends ConnectionInner's fields to a DynConnection) => `self.inner`.
    //@extract src/proto/connection.rs Connection::go_away_gracefully
    //@subst self.inner.as_dyn().go_away(StreamId::MAX, Reason::NO_ERROR);=>self.inner.go_away(StreamId::MAX, Reason::NO_ERROR);
    //@spec     requires i_shutdown(old(self).inner),
    //@spec     ensures
    //@spec         i_shutdown(final(self).inner),
    //@spec         i_graceful(old(self).inner) ==> i_graceful(final(self).inner),
    //@spec         old(self).inner.go_away.going_away_reason is Some ==> *final(self) == *old(self),
    //@spec         old(self).inner.go_away.going_away_reason is None ==>
    //@spec             final(self).inner.go_away.graceful@ == old(self).inner.go_away.graceful@.push(frame::GoAway { last_stream_id: StreamId(0x7fff_ffff), error_code: Reason::NO_ERROR })
    //@spec             && final(self).inner.ping_pong.shutdown_pending
    //@spec             && final(self).inner.streams.errors@ == old(self).inner.streams.errors@ && final(self).inner.streams.calls@ == old(self).inner.streams.calls@,
    //@end
}

proof fn vacuity_probe_connection()
    ensures false,
{
}

} // verus!
