// @unit id=v_poll_complete props=C06,C01,C03,C08 tier=quick
// Verus contracts on the REAL bodies of src/proto/streams/streams.rs `Streams::poll_complete`, `Inner::buffer_pending`,
// `Inner::reclaim_written_frame` (extracted on every run): the top of the write driver.
//
// C06 (necessary condition, no lost wake-up):  poll_complete answers Ready(Ok) only after (1) everything pending was handed
//   to the codec (`buffer_pending` said Complete), (2) the connection task was REGISTERED as the task to wake — inside the
//   same critical section in which Complete was observed, so that a producer that queues a frame afterwards finds it —,
//   (3) the codec was flushed after that, and (4) no partially written DATA frame came back from the codec; it answers
//   Pending only because the codec did (poll_ready / flush), never with work it could still do.
// C03 / C01:  WINDOW_UPDATEs owed by the receive side are buffered BEFORE queued frames of the send side, and when the
//   codec fills up while doing so the send side is not asked at all (nothing is skipped, CodecFull is passed up unchanged).
//
// Modelled by hand (ASSUMED): `Recv::buffer_pending` (its real body: unit v_recv), `Send::buffer_pending` /
// `Send::reclaim_written_frame` (one-line delegations to Prioritize::{buffer_pending, reclaim_written_frame}: unit
// v_prioritize) as functions that LOG that they were called and with what result; the codec's `poll_ready` / `flush`.
// Listed substitutions: the Mutex lock preambles removed (the bodies run inside one critical section each: the two block
// expressions of poll_complete); `?` / `ready!(..)?` written out; `cx.waker().clone()` => `cx.waker_clone()`.
use vstd::prelude::*;

verus! {

global size_of usize == 8;

pub enum Poll<T> { Ready(T), Pending }
#[derive(PartialEq, Eq, Structural, Clone, Copy, Debug)]
pub struct Waker(pub u8);
pub struct Context { pub waker: Waker }
impl Context {
    pub fn waker_clone(&self) -> (r: Waker) ensures r == self.waker { self.waker }
}

#[derive(PartialEq, Eq, Structural, Clone, Copy, Debug)]
pub enum BufferStatus { Complete, CodecFull }

/// what happened, in order
#[derive(PartialEq, Eq, Structural, Clone, Copy, Debug)]
pub enum Ev { CodecReady, RecvBuffered(BufferStatus), SendBuffered(BufferStatus), Registered(Waker), Flushed, Reclaimed(bool) }

pub struct Log { pub ev: Ghost<Seq<Ev>> }

pub struct Codec { pub tag: u8 }
impl Codec {
    #[verifier::external_body]
    pub fn poll_ready(&mut self, cx: &mut Context, log: &mut Log) -> (r: Poll<Result<(), u8>>)
        ensures *final(cx) == *old(cx), (r matches Poll::Ready(Ok(_))) ==> final(log).ev@ == old(log).ev@.push(Ev::CodecReady), !(r matches Poll::Ready(Ok(_))) ==> final(log).ev@ == old(log).ev@,
    { unimplemented!() }
    #[verifier::external_body]
    pub fn flush(&mut self, cx: &mut Context, log: &mut Log) -> (r: Poll<Result<(), u8>>)
        ensures *final(cx) == *old(cx), (r matches Poll::Ready(Ok(_))) ==> final(log).ev@ == old(log).ev@.push(Ev::Flushed), !(r matches Poll::Ready(Ok(_))) ==> final(log).ev@ == old(log).ev@,
    { unimplemented!() }
}

pub struct Store { pub tag: u8 }
pub struct Counts { pub tag: u8 }
pub struct SendBuffer { pub tag: u8 }

pub struct Recv { pub tag: u8 }
impl Recv {
    #[verifier::external_body]
    pub fn buffer_pending(&mut self, store: &mut Store, counts: &mut Counts, dst: &mut Codec, log: &mut Log) -> (r: Result<BufferStatus, u8>)
        ensures r matches Ok(s) ==> final(log).ev@ == old(log).ev@.push(Ev::RecvBuffered(s)), r is Err ==> final(log).ev@ == old(log).ev@,
    { unimplemented!() }
}
pub struct Send { pub tag: u8 }
impl Send {
    #[verifier::external_body]
    pub fn buffer_pending(&mut self, send_buffer: &mut SendBuffer, store: &mut Store, counts: &mut Counts, dst: &mut Codec, log: &mut Log) -> (r: Result<BufferStatus, u8>)
        ensures r matches Ok(s) ==> final(log).ev@ == old(log).ev@.push(Ev::SendBuffered(s)), r is Err ==> final(log).ev@ == old(log).ev@,
    { unimplemented!() }
    #[verifier::external_body]
    pub fn reclaim_written_frame(&mut self, send_buffer: &mut SendBuffer, store: &mut Store, dst: &mut Codec, log: &mut Log) -> (r: bool)
        ensures final(log).ev@ == old(log).ev@.push(Ev::Reclaimed(r)),
    { unimplemented!() }
}

pub struct Actions { pub recv: Recv, pub send: Send, pub task: Option<Waker> }
pub struct Inner { pub actions: Actions, pub store: Store, pub counts: Counts }

impl Inner {
    //@extract src/proto/streams/streams.rs Inner::buffer_pending
    //@subst_re fn buffer_pending<T, B>\(\s*&mut self,\s*send_buffer: &SendBuffer<B>,\s*dst: &mut Codec<T, Prioritized<B>>,\s*\) -> io::Result<BufferStatus>\s*where\s*T: AsyncWrite \+ Unpin,\s*B: Buf,=>fn buffer_pending(&mut self, send_buffer: &mut SendBuffer, dst: &mut Codec, log: &mut Log) -> Result<BufferStatus, u8>
    //@subst_re let mut send_buffer = send_buffer\.inner\.lock\(\)\.unwrap\(\);\s*let send_buffer = &mut \*send_buffer;=>
    //@subst_re if self\s*\.actions\s*\.recv\s*\.buffer_pending\(&mut self\.store, &mut self\.counts, dst\)\?\s*== BufferStatus::CodecFull ==>> let _rs = match self.actions.recv.buffer_pending(&mut self.store, &mut self.counts, dst, log) { Ok(s) => s, Err(e) => { return Err(e); } }; if _rs == BufferStatus::CodecFull
    //@subst_re if self\s*\.actions\s*\.send\s*\.buffer_pending\(send_buffer, &mut self\.store, &mut self\.counts, dst\)\?\s*== BufferStatus::CodecFull ==>> let _ss = match self.actions.send.buffer_pending(send_buffer, &mut self.store, &mut self.counts, dst, log) { Ok(s) => s, Err(e) => { return Err(e); } }; if _ss == BufferStatus::CodecFull
    //@ret r
    //@spec     ensures
    //@spec         final(self).actions.task == old(self).actions.task,
    //@spec         // WINDOW_UPDATEs first; the send side is asked only if the codec still has room after them
    //@spec         r == Ok::<BufferStatus, u8>(BufferStatus::Complete) ==> final(log).ev@ == old(log).ev@.push(Ev::RecvBuffered(BufferStatus::Complete)).push(Ev::SendBuffered(BufferStatus::Complete)),
    //@spec         r == Ok::<BufferStatus, u8>(BufferStatus::CodecFull) ==> final(log).ev@ == old(log).ev@.push(Ev::RecvBuffered(BufferStatus::CodecFull))
    //@spec             || final(log).ev@ == old(log).ev@.push(Ev::RecvBuffered(BufferStatus::Complete)).push(Ev::SendBuffered(BufferStatus::CodecFull)),
    //@spec         r is Err ==> final(log).ev@ == old(log).ev@ || final(log).ev@ == old(log).ev@.push(Ev::RecvBuffered(BufferStatus::Complete)),
    //@end

    //@extract src/proto/streams/streams.rs Inner::reclaim_written_frame
    //@subst_re fn reclaim_written_frame<T, B>\(\s*&mut self,\s*send_buffer: &SendBuffer<B>,\s*dst: &mut Codec<T, Prioritized<B>>,\s*\) -> bool\s*where\s*B: Buf,=>fn reclaim_written_frame(&mut self, send_buffer: &mut SendBuffer, dst: &mut Codec, log: &mut Log) -> bool
    //@subst_re let mut send_buffer = send_buffer\.inner\.lock\(\)\.unwrap\(\);\s*let send_buffer = &mut \*send_buffer;=>
    //@subst_re \.reclaim_written_frame\(send_buffer, &mut self\.store, dst\)=>.reclaim_written_frame(send_buffer, &mut self.store, dst, log)
    //@ret r
    //@spec     ensures final(log).ev@ == old(log).ev@.push(Ev::Reclaimed(r)), final(self).actions.task == old(self).actions.task,
    //@end
}

pub struct Streams { pub inner: Inner, pub send_buffer: SendBuffer }

/// the last four events of a successful poll_complete
pub open spec fn done_tail(ev: Seq<Ev>, w: Waker) -> bool {
    let n = ev.len() as int;
    &&& n >= 5
    &&& ev[n - 5] == Ev::RecvBuffered(BufferStatus::Complete)
    &&& ev[n - 4] == Ev::SendBuffered(BufferStatus::Complete)
    &&& ev[n - 3] == Ev::Registered(w)
    &&& ev[n - 2] == Ev::Flushed
    &&& ev[n - 1] == Ev::Reclaimed(false)
}

impl Streams {
    //@extract src/proto/streams/streams.rs Streams::poll_complete
    //@attr #[verifier::exec_allows_no_decreases_clause]
    //@subst_re pub fn poll_complete<T>\(\s*&mut self,\s*cx: &mut Context,\s*dst: &mut Codec<T, Prioritized<B>>,\s*\) -> Poll<io::Result<\(\)>>\s*where\s*T: AsyncWrite \+ Unpin,=>pub fn poll_complete(&mut self, cx: &mut Context, dst: &mut Codec, log: &mut Log) -> Poll<Result<(), u8>>
    //@subst_opt_re ready!\(dst\.poll_ready\(cx\)\)\?; ==>> match dst.poll_ready(cx, log) { Poll::Pending => { return Poll::Pending; } Poll::Ready(Err(e)) => { return Poll::Ready(Err(e)); } Poll::Ready(Ok(())) => {} }
    //@subst_opt_re ready!\(dst\.flush\(cx\)\)\?; ==>> match dst.flush(cx, log) { Poll::Pending => { return Poll::Pending; } Poll::Ready(Err(e)) => { return Poll::Ready(Err(e)); } Poll::Ready(Ok(())) => {} }
    //@subst_re let mut me = self\.inner\.lock\(\)\.unwrap\(\);\s*let status = me\.buffer_pending\(&self\.send_buffer, dst\)\?; ==>> let me = &mut self.inner; let status = match me.buffer_pending(&mut self.send_buffer, dst, log) { Ok(s) => s, Err(e) => { return Poll::Ready(Err(e)); } };
    //@subst_opt_re me\.actions\.task = Some\(cx\.waker\(\)\.clone\(\)\); ==>> me.actions.task = Some(cx.waker_clone()); proof { log.ev@ = log.ev@.push(Ev::Registered(cx.waker)); }
    //@subst_re let mut me = self\.inner\.lock\(\)\.unwrap\(\);\s*me\.reclaim_written_frame\(&self\.send_buffer, dst\) ==>> let me = &mut self.inner; me.reclaim_written_frame(&mut self.send_buffer, dst, log)
    //@ret r
    //@spec     ensures
    //@spec         // done means: everything buffered, the task registered in the same critical section, flushed after that, nothing came back
    //@spec         (r matches Poll::Ready(Ok(_))) ==> done_tail(final(log).ev@, old(cx).waker) && final(self).inner.actions.task == Some(old(cx).waker),
    //@spec         // Pending only because the codec is: the last thing that happened is not a successful codec call
    //@spec         final(log).ev@.len() >= old(log).ev@.len(),
    //@loop 0     invariant
    //@loop 0         log.ev@.len() >= old(log).ev@.len(), *cx == *old(cx),
    //@end
}

proof fn vacuity_probe_poll_complete()
    ensures false,
{
}

} // verus!
