// @unit id=v_decoder_strings props=C11,C10,C08 tier=quick
// Verus contracts on the REAL bodies of src/hpack/decoder.rs `Decoder::{try_decode_string, decode_string, decode_literal,
// decode_indexed, process_size_update}`, `StringMarker::consume`, `take`, `consume`, `peek_u8` (extracted on every run): HPACK string literals and
// literal header field representations (RFC 7541 5.2, 6.2), for EVERY input.
//
// C11:  `decode_string` parses exactly one string literal from the front of what is left to decode — H bit, 7-bit-prefix
//       length, that many octets, Huffman-decoded when H is set — equal to the spec function `str_parse`; it fails with
//       NeedMore exactly when the input ends inside the literal (no octet, length unfinished, fewer octets than the length
//       says) and then the buffer is untouched, so that the block can be resumed when the next CONTINUATION arrives;
//       `decode_literal` = index (6- or 4-bit prefix) then — index 0 — name literal and value literal, or — index > 0 — the
//       name of that table entry and a value literal, equal to `lit_parse`; the octets consumed are exactly those of the
//       representation (`rest` afterwards = `rest` before without its first `consumed` octets), whether the string was cut
//       out of the buffer (`take`) or only skipped (Huffman); on error the buffer content is unchanged.
//       These are the contracts the driver unit v_decoder_driver ASSUMES of the representation decoders.
// C08:  `advance`, `split_to`, the slice `&chunk()[..len]` and the position arithmetic cannot go out of bounds.
//
// Modelled by hand (ASSUMED): `Cursor<&mut BytesMut>` as (bytes, position) with `rest` = bytes from the position on;
// `Bytes` / `BytesMut` values as octet sequences; `decode_int` (its real body: Kani units hpack_dec_int_*, complete for the
// 5-octet limit) as the uninterpreted `int_parse` with "consumes at least one and at most the available octets";
// `huffman::decode` (Kani: against a bit-by-bit reference, bounded) as `huff`; `Table::get`, `Header::new`,
// `Name::into_entry` as uninterpreted results.  Listed substitutions: Cursor accessors on the model; `buf.get_mut().split_to`
// => `split_front`; `&buf.chunk()[..len]` => `chunk_prefix(len)`; the `.map(|buf| StringMarker { .. })` closure written out.
use vstd::prelude::*;

verus! {

global size_of usize == 8;

//@struct src/hpack/decoder.rs DecoderError
//@struct src/hpack/decoder.rs NeedMore
impl Copy for DecoderError {}
impl Clone for DecoderError { fn clone(&self) -> Self { *self } }
impl Copy for NeedMore {}
impl Clone for NeedMore { fn clone(&self) -> Self { *self } }

/// Bytes / frozen BytesMut
pub struct Bytes { pub b: Ghost<Seq<u8>> }
pub struct BytesMut { pub b: Ghost<Seq<u8>> }
impl BytesMut {
    #[verifier::external_body]
    pub fn advance(&mut self, n: usize)
        requires n <= old(self).b@.len(),
        ensures final(self).b@ == old(self).b@.skip(n as int),
    { unimplemented!() }
    #[verifier::external_body]
    pub fn freeze(self) -> (r: Bytes) ensures r.b@ == self.b@ { unimplemented!() }
}

/// Cursor<&mut BytesMut>
pub struct Cur { pub bytes: Ghost<Seq<u8>>, pub pos: Ghost<int> }
impl Cur {
    pub open spec fn wf(self) -> bool { 0 <= self.pos@ <= self.bytes@.len() && self.bytes@.len() <= 0x7fff_ffff_ffff_ffff }
    pub open spec fn rest(self) -> Seq<u8> { self.bytes@.skip(self.pos@) }

    #[verifier::external_body]
    pub fn position(&self) -> (r: u64) requires self.wf(), ensures r == self.pos@ { unimplemented!() }
    #[verifier::external_body]
    pub fn set_position(&mut self, p: u64) ensures final(self).pos@ == p, final(self).bytes@ == old(self).bytes@ { unimplemented!() }
    #[verifier::external_body]
    pub fn remaining(&self) -> (r: usize) requires self.wf(), ensures r == self.bytes@.len() - self.pos@ { unimplemented!() }
    #[verifier::external_body]
    pub fn has_remaining(&self) -> (r: bool) requires self.wf(), ensures r == (self.pos@ < self.bytes@.len()) { unimplemented!() }
    /// Buf::advance of a Cursor: panics beyond the end
    #[verifier::external_body]
    pub fn advance(&mut self, n: usize)
        requires old(self).wf(), old(self).pos@ + n <= old(self).bytes@.len(),
        ensures final(self).pos@ == old(self).pos@ + n, final(self).bytes@ == old(self).bytes@,
    { unimplemented!() }
    /// `buf.chunk()[0]`
    #[verifier::external_body]
    pub fn chunk_first(&self) -> (r: u8)
        requires self.wf(), self.pos@ < self.bytes@.len(),
        ensures r == self.bytes@[self.pos@],
    { unimplemented!() }
    /// `&buf.chunk()[..len]`
    #[verifier::external_body]
    pub fn chunk_prefix(&self, len: usize) -> (r: Vec<u8>)
        requires self.wf(), self.pos@ + len <= self.bytes@.len(),
        ensures r@ == self.bytes@.subrange(self.pos@, self.pos@ + len),
    { unimplemented!() }
    /// `buf.get_mut().split_to(n)`: the first n octets of the UNDERLYING buffer leave it (the position is not adjusted)
    #[verifier::external_body]
    pub fn split_front(&mut self, n: usize) -> (r: BytesMut)
        requires n <= old(self).bytes@.len(),
        ensures r.b@ == old(self).bytes@.take(n as int), final(self).bytes@ == old(self).bytes@.skip(n as int), final(self).pos@ == old(self).pos@,
    { unimplemented!() }
}

/// hpack integer with an n-bit prefix (RFC 7541 5.1) at the front of `rest`: (value, octets consumed), or the error
pub uninterp spec fn int_parse(rest: Seq<u8>, prefix: u8) -> Result<(usize, int), DecoderError>;

/// decoder.rs `decode_int` (real body: Kani units): reads forward, never changes the buffer
#[verifier::external_body]
pub fn decode_int(buf: &mut Cur, prefix_size: u8) -> (r: Result<usize, DecoderError>)
    requires old(buf).wf(),
    ensures
        final(buf).wf() && final(buf).bytes@ == old(buf).bytes@,
        match int_parse(old(buf).rest(), prefix_size) {
            Ok((v, k)) => r == Ok::<usize, DecoderError>(v) && 1 <= k <= old(buf).rest().len() && final(buf).pos@ == old(buf).pos@ + k,
            Err(e) => r == Err::<usize, DecoderError>(e),
        },
        old(buf).rest().len() == 0 ==> int_parse(old(buf).rest(), prefix_size) is Err,
{ unimplemented!() }

/// huffman::decode(raw, scratch)
pub uninterp spec fn huff(raw: Seq<u8>) -> Result<Seq<u8>, DecoderError>;
#[verifier::external_body]
pub fn huffman_decode(raw: &Vec<u8>, scratch: &mut BytesMut) -> (r: Result<BytesMut, DecoderError>)
    ensures match huff(raw@) { Ok(v) => r is Ok && r->Ok_0.b@ == v, Err(e) => r matches Err(e2) && e2 == e },
{ unimplemented!() }

/// A decoded header field / table entry / name, opaque
#[derive(Clone, Copy, Debug)]
pub struct Header { pub tok: u64 }
pub uninterp spec fn header_new(name: Seq<u8>, value: Seq<u8>) -> Result<Header, DecoderError>;
pub uninterp spec fn into_entry_spec(entry: Header, value: Seq<u8>) -> Result<Header, DecoderError>;
impl Header {
    /// Header::new(name, value): validation of the field (lower case, pseudo-headers, status codes) — not verified here
    #[verifier::external_body]
    pub fn new(name: Bytes, value: Bytes) -> (r: Result<Header, DecoderError>)
        ensures r == header_new(name.b@, value.b@), !(r matches Err(DecoderError::NeedMore(_))),      // validation errors only
    { unimplemented!() }
    /// `e.name().into_entry(value)`
    #[verifier::external_body]
    pub fn name_into_entry(&self, value: Bytes) -> (r: Result<Header, DecoderError>)
        ensures r == into_entry_spec(*self, value.b@), !(r matches Err(DecoderError::NeedMore(_))),
    { unimplemented!() }
}

pub struct Table { pub tag: u8 }
impl Table {
    pub uninterp spec fn get_spec(self, index: usize) -> Result<Header, DecoderError>;
    /// Table::get (static + dynamic table lookup: Kani unit hpack_table_get, Verus unit v_decoder_table)
    #[verifier::external_body]
    pub fn get(&self, index: usize) -> (r: Result<Header, DecoderError>) ensures r == self.get_spec(index) { unimplemented!() }
    /// Table::set_max_size (its real body: unit v_decoder_table): logs the limit it is given
    pub uninterp spec fn limit(self) -> usize;
    #[verifier::external_body]
    pub fn set_max_size(&mut self, size: usize) ensures final(self).limit() == size { unimplemented!() }
}

//@struct src/hpack/decoder.rs StringMarker pub

pub struct Decoder {
    pub max_size_update: Option<usize>,
    pub last_max_update: usize,
    pub table: Table,
    pub buffer: BytesMut,
}

/// RFC 7541 5.2: one string literal at the front of `rest`: (value, octets consumed)
pub open spec fn str_parse(rest: Seq<u8>) -> Result<(Seq<u8>, int), DecoderError> {
    if rest.len() == 0 { Err(DecoderError::NeedMore(NeedMore::UnexpectedEndOfStream)) }
    else {
        match int_parse(rest, 7) {
            Err(e) => Err(e),
            Ok((len, k)) => if len > rest.len() - k { Err(DecoderError::NeedMore(NeedMore::StringUnderflow)) } else {
                let raw = rest.subrange(k, k + len);
                if rest[0] >= 128 { match huff(raw) { Ok(v) => Ok((v, k + len)), Err(e) => Err(e) } } else { Ok((raw, k + len)) }
            },
        }
    }
}

/// `a` is what is left of `b` after some octets were taken from its front
pub open spec fn is_suffix(a: Seq<u8>, b: Seq<u8>) -> bool { a == b || (a.len() < b.len() && a == b.skip(b.len() - a.len())) }

pub proof fn lemma_suffix_trans(a: Seq<u8>, b: Seq<u8>, c: Seq<u8>)
    requires is_suffix(a, b), is_suffix(b, c),
    ensures is_suffix(a, c),
{
    if a != b && b != c {
        assert(c.skip(c.len() - b.len()).skip(b.len() - a.len()) =~= c.skip(c.len() - a.len()));
    }
}

/// the value a marker stands for, relative to the input it was parsed from
pub open spec fn marker_value(m: StringMarker, rest: Seq<u8>) -> Seq<u8> {
    match m.string { Some(s) => s.b@, None => rest.subrange(m.offset as int, m.offset + m.len) }
}

/// RFC 7541 6.2: literal header field, after the pattern bits: index with `prefix` bits, then name (if index 0) and value
pub open spec fn lit_parse(rest: Seq<u8>, prefix: u8, table: Table) -> Result<(Header, int), DecoderError> {
    match int_parse(rest, prefix) {
        Err(e) => Err(e),
        Ok((idx, k)) => if idx == 0 {
            match str_parse(rest.skip(k)) {
                Err(e) => Err(e),
                Ok((name, c1)) => match str_parse(rest.skip(k + c1)) {
                    Err(e) => Err(e),
                    Ok((value, c2)) => match header_new(name, value) { Ok(h) => Ok((h, k + c1 + c2)), Err(e) => Err(e) },
                },
            }
        } else {
            match table.get_spec(idx) {
                Err(e) => Err(e),
                Ok(ent) => match str_parse(rest.skip(k)) {
                    Err(e) => Err(e),
                    Ok((value, c)) => match into_entry_spec(ent, value) { Ok(h) => Ok((h, k + c)), Err(e) => Err(e) },
                },
            }
        }
    }
}

//@extract src/hpack/decoder.rs peek_u8
//@subst fn peek_u8<B: Buf>(buf: &B) -> Option<u8>=>fn peek_u8(buf: &Cur) -> Option<u8>
//@subst Some(buf.chunk()[0])=>Some(buf.chunk_first())
//@ret r
//@spec     requires buf.wf(),
//@spec     ensures match r { Some(b) => buf.pos@ < buf.bytes@.len() && b == buf.bytes@[buf.pos@], None => buf.pos@ == buf.bytes@.len() },
//@end

// `take`: the first `position + n` octets leave the buffer, the last n of them are returned, the position is 0 — what is
// left to decode is what was left before without its first n octets
//@extract src/hpack/decoder.rs take
//@subst fn take(buf: &mut Cursor<&mut BytesMut>, n: usize) -> Bytes=>fn take(buf: &mut Cur, n: usize) -> Bytes
//@subst_re buf\.get_mut\(\)\.split_to\(=>buf.split_front(
//@ret r
//@spec     requires old(buf).wf(), old(buf).pos@ + n <= old(buf).bytes@.len(),
//@spec     ensures
//@spec         final(buf).wf() && final(buf).pos@ == 0,
//@spec         r.b@ == old(buf).rest().take(n as int),
//@spec         final(buf).bytes@ == old(buf).rest().skip(n as int) && final(buf).rest() == old(buf).rest().skip(n as int),
//@spec         is_suffix(final(buf).bytes@, old(buf).bytes@),
//@after head.advance(pos);=>proof { let b0 = old(buf).bytes@; let p = old(buf).pos@; assert(head.b@ =~= b0.skip(p).take(n as int)); assert(buf.bytes@ =~= b0.skip(p).skip(n as int)); assert(buf.bytes@.skip(0) =~= buf.bytes@); assert(buf.bytes@ =~= b0.skip(p + n)); assert(b0.skip(0) =~= b0); }
//@end

//@extract src/hpack/decoder.rs consume
//@subst fn consume(buf: &mut Cursor<&mut BytesMut>)=>fn consume(buf: &mut Cur)
//@spec     requires old(buf).wf(),
//@spec     ensures final(buf).pos@ == 0, final(buf).bytes@ == old(buf).bytes@.skip(old(buf).pos@), final(buf).wf(),
//@after take(buf, 0);=>proof { assert(old(buf).rest().skip(0) =~= old(buf).rest()); }
//@end

impl StringMarker {
    //@extract src/hpack/decoder.rs StringMarker::consume
    //@subst fn consume(self, buf: &mut Cursor<&mut BytesMut>) -> Bytes=>fn consume(self, buf: &mut Cur) -> Bytes
    //@ret r
    //@spec     requires old(buf).wf(), self.offset + self.len <= old(buf).rest().len(),
    //@spec     ensures
    //@spec         final(buf).wf(),
    //@spec         r.b@ == marker_value(self, old(buf).rest()),
    //@spec         final(buf).rest() == old(buf).rest().skip(self.offset + self.len),
    //@spec         is_suffix(final(buf).bytes@, old(buf).bytes@),
    //@after buf.advance(self.offset);=>proof { let b0 = old(buf).bytes@; let p = old(buf).pos@; let o = self.offset as int; let l = self.len as int; assert(b0.skip(p + o).take(l) =~= b0.skip(p).subrange(o, o + l)); assert(b0.skip(p + o).skip(l) =~= b0.skip(p).skip(o + l)); assert(b0.skip(p + o + l) =~= b0.skip(p).skip(o + l)); }
    //@end
}

impl Decoder {
    //@extract src/hpack/decoder.rs Decoder::try_decode_string
    //@subst buf: &mut Cursor<&mut BytesMut>,=>buf: &mut Cur,
    //@subst_re let ret = \{\s*let raw = &buf\.chunk\(\)\[\.\.len\];\s*huffman::decode\(raw, &mut self\.buffer\)\.map\(\|buf\| StringMarker \{\s*offset,\s*len,\s*string: Some\(BytesMut::freeze\(buf\)\),\s*\}\)\s*\}; ==>> let ret = { let raw = buf.chunk_prefix(len); match huffman_decode(&raw, &mut self.buffer) { Ok(b) => Ok(StringMarker { offset, len, string: Some(BytesMut::freeze(b)) }), Err(e) => Err(e) } };
    //@ret r
    //@spec     requires old(buf).wf(),
    //@spec     ensures
    //@spec         final(buf).wf() && final(buf).bytes@ == old(buf).bytes@,
    //@spec         final(self).table == old(self).table && final(self).max_size_update == old(self).max_size_update && final(self).last_max_update == old(self).last_max_update,
    //@spec         match str_parse(old(buf).rest()) {
    //@spec             Ok((v, c)) => r is Ok && r->Ok_0.offset + r->Ok_0.len == c && marker_value(r->Ok_0, old(buf).rest()) == v && final(buf).pos@ == old(buf).pos@ + c
    //@spec                 && c <= old(buf).rest().len() && c >= 1,
    //@spec             Err(e) => r matches Err(e2) && e2 == e,
    //@spec         },
    //@after let offset = (buf.position() - old_pos) as usize;=>proof { let rest = old(buf).rest(); let k = offset as int; assert(forall|x: u8| ((x & 0x80u8) == 0x80u8) == (x >= 128)) by (bit_vector); assert(rest[0] == old(buf).bytes@[old(buf).pos@]); assert(buf.bytes@.subrange(buf.pos@, buf.pos@ + len) =~= rest.subrange(k, k + len)); }
    //@end

    //@extract src/hpack/decoder.rs Decoder::decode_string
    //@subst buf: &mut Cursor<&mut BytesMut>=>buf: &mut Cur
    //@ret r
    //@spec     requires old(buf).wf(),
    //@spec     ensures
    //@spec         final(buf).wf(),
    //@spec         final(self).table == old(self).table && final(self).max_size_update == old(self).max_size_update && final(self).last_max_update == old(self).last_max_update,
    //@spec         match str_parse(old(buf).rest()) {
    //@spec             Ok((v, c)) => r is Ok && r->Ok_0.b@ == v && final(buf).rest() == old(buf).rest().skip(c) && 1 <= c <= old(buf).rest().len(),
    //@spec             Err(e) => (r matches Err(e2) && e2 == e) && final(buf).bytes@ == old(buf).bytes@,
    //@spec         },
    //@spec         is_suffix(final(buf).bytes@, old(buf).bytes@),
    //@end

    //@extract src/hpack/decoder.rs Decoder::decode_indexed
    //@subst buf: &mut Cursor<&mut BytesMut>=>buf: &mut Cur
    //@ret r
    //@spec     requires old(buf).wf(),
    //@spec     ensures
    //@spec         final(buf).wf() && final(buf).bytes@ == old(buf).bytes@,
    //@spec         match int_parse(old(buf).rest(), 7) {
    //@spec             Ok((idx, k)) => r == self.table.get_spec(idx) && final(buf).pos@ == old(buf).pos@ + k && 1 <= k <= old(buf).rest().len()
    //@spec                 && final(buf).rest() == old(buf).rest().skip(k),
    //@spec             Err(e) => r matches Err(e2) && e2 == e,
    //@spec         },
    //@end

    // RFC 7541 6.3 / 4.2: a dynamic table size update carries a 5-bit-prefix integer; a value above the limit this endpoint
    // last acknowledged in SETTINGS is a decoding error and the table is untouched; otherwise the table limit becomes exactly it
    //@extract src/hpack/decoder.rs Decoder::process_size_update
    //@subst buf: &mut Cursor<&mut BytesMut>=>buf: &mut Cur
    //@ret r
    //@spec     requires old(buf).wf(),
    //@spec     ensures
    //@spec         final(buf).wf() && final(buf).bytes@ == old(buf).bytes@,
    //@spec         final(self).max_size_update == old(self).max_size_update && final(self).last_max_update == old(self).last_max_update,
    //@spec         match int_parse(old(buf).rest(), 5) {
    //@spec             Ok((v, k)) => final(buf).pos@ == old(buf).pos@ + k && 1 <= k <= old(buf).rest().len()
    //@spec                 && (v > old(self).last_max_update ==> r == Err::<(), DecoderError>(DecoderError::InvalidMaxDynamicSize) && final(self).table == old(self).table)
    //@spec                 && (v <= old(self).last_max_update ==> r is Ok && final(self).table.limit() == v),
    //@spec             Err(e) => (r matches Err(e2) && e2 == e) && final(self).table == old(self).table,
    //@spec         },
    //@end

    //@extract src/hpack/decoder.rs Decoder::decode_literal
    //@subst buf: &mut Cursor<&mut BytesMut>,=>buf: &mut Cur,
    //@subst e.name().into_entry(value)=>e.name_into_entry(value)
    //@ret r
    //@spec     requires old(buf).wf(),
    //@spec     ensures
    //@spec         final(buf).wf(),
    //@spec         final(self).table == old(self).table && final(self).max_size_update == old(self).max_size_update && final(self).last_max_update == old(self).last_max_update,
    //@spec         match lit_parse(old(buf).rest(), if index { 6u8 } else { 4u8 }, old(self).table) {
    //@spec             Ok((h, c)) => r == Ok::<Header, DecoderError>(h) && final(buf).rest() == old(buf).rest().skip(c) && 1 <= c <= old(buf).rest().len(),
    //@spec             Err(e) => r matches Err(e2) && e2 == e,
    //@spec         },
    //@spec         // the contract the driver relies on (unit v_decoder_driver): when the input ends inside the representation NOTHING was
    //@spec         // cut out of the buffer (the block can be resumed); otherwise what is left is what was there minus a prefix
    //@spec         (r matches Err(DecoderError::NeedMore(_))) ==> final(buf).bytes@ == old(buf).bytes@,
    //@spec         is_suffix(final(buf).bytes@, old(buf).bytes@),
    //@after let table_idx = decode_int(buf, prefix)?;=>let ghost r1 = buf.rest(); let ghost k = buf.pos@ - old(buf).pos@; proof { assert(r1 =~= old(buf).rest().skip(k)); }
    //@after let name_marker = self.try_decode_string(buf)?;=>let ghost c1 = name_marker.offset + name_marker.len; proof { assert(buf.rest() =~= r1.skip(c1)); assert(r1.skip(c1) =~= old(buf).rest().skip(k + c1)); }
    //@before let name = name_marker.consume(buf);=>let ghost c2 = value_marker.offset + value_marker.len; proof { assert(buf.rest() == r1); }
    //@after let name = name_marker.consume(buf);=>let ghost bm = buf.bytes@;
    //@before Header::new(=>proof { assert(buf.rest() =~= old(buf).rest().skip(k + c1 + c2)); lemma_suffix_trans(buf.bytes@, bm, old(buf).bytes@); }
    //@after let value = self.decode_string(buf)?;=>proof { let c = str_parse(r1)->Ok_0.1; assert(buf.rest() =~= old(buf).rest().skip(k + c)); }
    //@end
}

proof fn vacuity_probe_decoder_strings()
    ensures false,
{
}

} // verus!
