//! A stream that is waiting for *connection level* send capacity sits in
//! `Prioritize::pending_capacity`. If it is reset while it holds no assigned
//! capacity, it stays linked in that queue (the queue is a singly linked list,
//! it cannot be unlinked from the middle) and `is_pending_send_capacity` keeps
//! the record alive.
//!
//! The next time capacity is handed out, `assign_connection_capacity` pops the
//! dead stream and evicts it. At that point nothing references the stream
//! anymore: it is closed, the application dropped its handles, it is in no
//! queue and it is no longer findable by id. The eviction therefore has to
//! release the record, otherwise it stays in the store until the connection
//! itself is dropped.
//!
//! Every test observes the store through the public (`unstable`)
//! `SendRequest::num_wired_streams()` counter, and additionally through the
//! `debug_assert!(self.slab.is_empty())` in `impl Drop for Store`.

use h2_support::prelude::*;
use tokio::sync::oneshot;

/// The connection level send window every connection starts with.
const CONN_WINDOW: usize = 65_535;

/// A stream level window that is larger than the connection level window, so
/// that the *connection* is what the stream ends up waiting for.
const BIG_STREAM_WINDOW: u32 = 1 << 20;

const TIMEOUT: Duration = Duration::from_secs(10);

fn post() -> Request<()> {
    Request::builder()
        .method(Method::POST)
        .uri("https://http2.akamai.com/")
        .body(())
        .unwrap()
}

/// Receive the `HEADERS` of the POST on stream `id` followed by exactly one
/// connection window worth of `DATA`.
async fn recv_post_filling_connection_window(srv: &mut mock::Handle, id: u32) {
    srv.recv_frame(frames::headers(id).request("POST", "https://http2.akamai.com/"))
        .await;
    srv.recv_frame(frames::data(id, vec![0u8; 16_384])).await;
    srv.recv_frame(frames::data(id, vec![0u8; 16_384])).await;
    srv.recv_frame(frames::data(id, vec![0u8; 16_384])).await;
    srv.recv_frame(frames::data(id, vec![0u8; 16_383])).await;
}

/// The peer resets a stream that is queued for connection capacity. The
/// application drops its handles. A later connection level WINDOW_UPDATE
/// evicts the stream from `pending_capacity`; nothing must be retained for it
/// afterwards.
#[tokio::test]
async fn peer_reset_stream_evicted_by_connection_window_update_is_released() {
    h2_support::trace_init!();
    let (io, mut srv) = mock::new();
    let (evicted_tx, evicted_rx) = oneshot::channel::<()>();

    let srv = async move {
        let _ = srv
            .assert_client_handshake_with_settings(
                frames::settings().initial_window_size(BIG_STREAM_WINDOW),
            )
            .await;
        recv_post_filling_connection_window(&mut srv, 1).await;

        // The connection window is now exhausted and stream 1 wants more.
        srv.send_frame(frames::reset(1).cancel()).await;
        // Once the PONG is back, the RST_STREAM has been processed.
        srv.ping_pong([1; 8]).await;

        // Hand out connection capacity: this pops the dead stream.
        srv.send_frame(frames::window_update(0, CONN_WINDOW as u32))
            .await;
        srv.ping_pong([2; 8]).await;
        evicted_tx.send(()).unwrap();
    };

    let client = async move {
        let (mut client, mut h2) = client::handshake(io).await.unwrap();

        let (response, mut stream) = client.send_request(post(), false).unwrap();

        // Ask for more than the connection can give, and use all of what the
        // connection does give.
        stream.reserve_capacity(100_000);
        stream
            .send_data(vec![0u8; CONN_WINDOW].into(), false)
            .unwrap();

        let err = h2.drive(response).await.unwrap_err();
        assert_eq!(err.reason(), Some(Reason::CANCEL));
        assert!(err.is_remote());

        // The application is done with the stream.
        drop(stream);

        h2.drive(evicted_rx).await.unwrap();

        assert_eq!(client.num_active_streams(), 0);
        assert_eq!(
            client.num_wired_streams(),
            0,
            "closed, unreferenced stream is still held in the store after \
             being evicted from pending_capacity"
        );

        // The peer hangs up.
        h2.await.unwrap();
        drop(client);
    };

    tokio::time::timeout(TIMEOUT, join(srv, client))
        .await
        .expect("timed out");
}

/// Same as above, but without looking at the counters: the store must be
/// empty when the connection is dropped (`impl Drop for Store`).
#[tokio::test]
async fn store_is_empty_when_connection_is_dropped_after_eviction() {
    h2_support::trace_init!();
    let (io, mut srv) = mock::new();

    let srv = async move {
        let _ = srv
            .assert_client_handshake_with_settings(
                frames::settings().initial_window_size(BIG_STREAM_WINDOW),
            )
            .await;
        recv_post_filling_connection_window(&mut srv, 1).await;
        srv.send_frame(frames::reset(1).cancel()).await;
        srv.ping_pong([1; 8]).await;
        srv.send_frame(frames::window_update(0, CONN_WINDOW as u32))
            .await;
        srv.ping_pong([2; 8]).await;
        // Dropping `srv` closes the connection.
    };

    let client = async move {
        let (mut client, mut h2) = client::handshake(io).await.unwrap();

        let (response, mut stream) = client.send_request(post(), false).unwrap();
        stream.reserve_capacity(100_000);
        stream
            .send_data(vec![0u8; CONN_WINDOW].into(), false)
            .unwrap();

        let err = h2.drive(response).await.unwrap_err();
        assert_eq!(err.reason(), Some(Reason::CANCEL));
        drop(stream);

        // Runs until the peer hangs up.
        h2.await.unwrap();

        // The last handle to the connection state goes away: the store is
        // dropped here.
        drop(client);
    };

    tokio::time::timeout(TIMEOUT, join(srv, client))
        .await
        .expect("timed out");
}

/// The application cancels the stream itself by dropping all of its handles.
/// `max_concurrent_reset_streams(0)` turns the reset-expiration memory off, so
/// once the RST_STREAM is written the `pending_capacity` link is the only
/// thing left that holds the record.
#[tokio::test]
async fn cancelled_stream_evicted_by_connection_window_update_is_released() {
    h2_support::trace_init!();
    let (io, mut srv) = mock::new();
    let (flushed_tx, flushed_rx) = oneshot::channel::<()>();
    let (evicted_tx, evicted_rx) = oneshot::channel::<()>();

    let srv = async move {
        let _ = srv
            .assert_client_handshake_with_settings(
                frames::settings().initial_window_size(BIG_STREAM_WINDOW),
            )
            .await;
        recv_post_filling_connection_window(&mut srv, 1).await;
        flushed_tx.send(()).unwrap();

        srv.recv_frame(frames::reset(1).cancel()).await;

        srv.send_frame(frames::window_update(0, CONN_WINDOW as u32))
            .await;
        srv.ping_pong([1; 8]).await;
        evicted_tx.send(()).unwrap();
    };

    let client = async move {
        let (mut client, mut h2) = client::Builder::new()
            .max_concurrent_reset_streams(0)
            .handshake::<_, Bytes>(io)
            .await
            .unwrap();

        let (response, mut stream) = client.send_request(post(), false).unwrap();
        stream.reserve_capacity(100_000);
        stream
            .send_data(vec![0u8; CONN_WINDOW].into(), false)
            .unwrap();

        // Everything that could be sent has been sent: the stream holds no
        // assigned capacity and waits for the connection.
        h2.drive(flushed_rx).await.unwrap();

        // Lose interest.
        drop(stream);
        drop(response);

        h2.drive(evicted_rx).await.unwrap();

        assert_eq!(client.num_active_streams(), 0);
        assert_eq!(
            client.num_wired_streams(),
            0,
            "cancelled stream is still held in the store after being \
             evicted from pending_capacity"
        );

        // The peer hangs up.
        h2.await.unwrap();
        drop(client);
    };

    tokio::time::timeout(TIMEOUT, join(srv, client))
        .await
        .expect("timed out");
}

/// Same as above with the reset-expiration memory left on: the record is
/// (legitimately) remembered for `reset_stream_duration`, then forgotten, and
/// only after that the connection level WINDOW_UPDATE arrives.
#[tokio::test]
async fn cancelled_stream_evicted_after_reset_expiration_is_released() {
    h2_support::trace_init!();
    let (io, mut srv) = mock::new();
    let (flushed_tx, flushed_rx) = oneshot::channel::<()>();
    let (evicted_tx, evicted_rx) = oneshot::channel::<()>();

    let srv = async move {
        let _ = srv
            .assert_client_handshake_with_settings(
                frames::settings().initial_window_size(BIG_STREAM_WINDOW),
            )
            .await;
        recv_post_filling_connection_window(&mut srv, 1).await;
        flushed_tx.send(()).unwrap();

        srv.recv_frame(frames::reset(1).cancel()).await;

        // Let the reset expire, and have the connection notice.
        idle_ms(100).await;
        srv.ping_pong([1; 8]).await;

        srv.send_frame(frames::window_update(0, CONN_WINDOW as u32))
            .await;
        srv.ping_pong([2; 8]).await;
        evicted_tx.send(()).unwrap();
    };

    let client = async move {
        let (mut client, mut h2) = client::Builder::new()
            .reset_stream_duration(Duration::from_millis(10))
            .handshake::<_, Bytes>(io)
            .await
            .unwrap();

        let (response, mut stream) = client.send_request(post(), false).unwrap();
        stream.reserve_capacity(100_000);
        stream
            .send_data(vec![0u8; CONN_WINDOW].into(), false)
            .unwrap();

        h2.drive(flushed_rx).await.unwrap();

        drop(stream);
        drop(response);

        h2.drive(evicted_rx).await.unwrap();

        assert_eq!(client.num_active_streams(), 0);
        assert_eq!(
            client.num_wired_streams(),
            0,
            "cancelled stream is still held in the store after its reset \
             expired and it was evicted from pending_capacity"
        );

        // The peer hangs up.
        h2.await.unwrap();
        drop(client);
    };

    tokio::time::timeout(TIMEOUT, join(srv, client))
        .await
        .expect("timed out");
}

/// No WINDOW_UPDATE involved: the capacity that triggers the eviction is
/// handed back by *another* stream. This runs `assign_connection_capacity`
/// from inside that other stream's own state transition.
#[tokio::test]
async fn reset_stream_evicted_by_capacity_returned_from_another_stream_is_released() {
    h2_support::trace_init!();
    let (io, mut srv) = mock::new();
    let (opened_tx, opened_rx) = oneshot::channel::<()>();

    let srv = async move {
        let settings = srv.assert_client_handshake().await;
        assert_default_settings!(settings);

        srv.recv_frame(frames::headers(1).request("POST", "https://http2.akamai.com/"))
            .await;
        srv.recv_frame(frames::headers(3).request("POST", "https://http2.akamai.com/"))
            .await;
        opened_tx.send(()).unwrap();
        // Stream 3 holds on to 10 bytes of connection window, stream 1 gets
        // the rest and waits for the last 10 bytes.
        srv.recv_frame(frames::data(1, vec![0u8; 16_384])).await;
        srv.recv_frame(frames::data(1, vec![0u8; 16_384])).await;
        srv.recv_frame(frames::data(1, vec![0u8; 16_384])).await;
        srv.recv_frame(frames::data(1, vec![0u8; 16_373])).await;

        srv.send_frame(frames::reset(1).cancel()).await;

        // Stream 3 ends without having used its 10 bytes.
        srv.recv_frame(frames::data(3, "").eos()).await;
        srv.send_frame(frames::headers(3).response(204).eos()).await;
    };

    let client = async move {
        let (mut client, mut h2) = client::handshake(io).await.unwrap();

        let (response1, mut stream1) = client.send_request(post(), false).unwrap();
        let (response3, mut stream3) = client.send_request(post(), false).unwrap();

        // Both streams are open.
        h2.drive(opened_rx).await.unwrap();

        stream3.reserve_capacity(10);
        assert_eq!(stream3.capacity(), 10);

        stream1
            .send_data(vec![0u8; CONN_WINDOW].into(), false)
            .unwrap();

        let err = h2.drive(response1).await.unwrap_err();
        assert_eq!(err.reason(), Some(Reason::CANCEL));
        drop(stream1);

        // Returns the 10 unused bytes to the connection, which offers them to
        // the streams queued in `pending_capacity`: that is (dead) stream 1.
        stream3.send_data(Bytes::new(), true).unwrap();

        let response3 = h2.drive(response3).await.unwrap();
        assert_eq!(response3.status(), StatusCode::NO_CONTENT);
        drop(response3);
        drop(stream3);

        assert_eq!(client.num_active_streams(), 0);
        assert_eq!(
            client.num_wired_streams(),
            0,
            "reset stream is still held in the store after being evicted \
             from pending_capacity by another stream's returned capacity"
        );

        // The peer hangs up.
        h2.await.unwrap();
        drop(client);
    };

    tokio::time::timeout(TIMEOUT, join(srv, client))
        .await
        .expect("timed out");
}

/// Guard for the fix, passes with and without it. Here the stream is evicted
/// from `pending_capacity` from inside *its own* state transition: it is
/// cancelled while it still holds assigned-but-unused capacity, returning that
/// capacity runs `assign_connection_capacity`, which pops the very same
/// stream. The eviction must leave that stream to its caller, which is still
/// working on it.
#[tokio::test]
async fn stream_evicted_during_its_own_cancellation() {
    h2_support::trace_init!();
    let (io, mut srv) = mock::new();
    let (opened_tx, opened_rx) = oneshot::channel::<()>();

    let srv = async move {
        let _ = srv
            .assert_client_handshake_with_settings(
                frames::settings().initial_window_size(BIG_STREAM_WINDOW),
            )
            .await;
        srv.recv_frame(frames::headers(1).request("POST", "https://http2.akamai.com/"))
            .await;
        srv.ping_pong([1; 8]).await;
        opened_tx.send(()).unwrap();
        srv.recv_frame(frames::reset(1).cancel()).await;
        srv.ping_pong([2; 8]).await;
    };

    let client = async move {
        let (mut client, mut h2) = client::Builder::new()
            .max_concurrent_reset_streams(0)
            .handshake::<_, Bytes>(io)
            .await
            .unwrap();

        let (response, mut stream) = client.send_request(post(), false).unwrap();
        h2.drive(opened_rx).await.unwrap();

        // Gets the whole connection window assigned and is queued for more.
        stream.reserve_capacity(100_000);
        assert_eq!(stream.capacity(), CONN_WINDOW);

        drop(stream);
        drop(response);

        // The peer hangs up.
        h2.await.unwrap();
        drop(client);
    };

    tokio::time::timeout(TIMEOUT, join(srv, client))
        .await
        .expect("timed out");
}
