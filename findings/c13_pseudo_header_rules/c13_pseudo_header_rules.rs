//! RFC 9113 section 8: a request or response whose header section breaks the
//! pseudo-header field rules is malformed. A malformed message must never be
//! handed to the application as a valid message; the stream is failed with a
//! stream error of type PROTOCOL_ERROR instead.
//!
//! Every test checks both halves of that:
//!
//! * "app":  what the application using the `h2` public API got for the stream,
//! * "wire": that the remote peer received RST_STREAM(PROTOCOL_ERROR).

use futures::StreamExt;
use h2_support::prelude::*;
use tokio::sync::oneshot;

const WAIT: Duration = Duration::from_millis(1000);

type Outcome = Result<(), String>;

/// The next frame the mock peer receives must be RST_STREAM(id, PROTOCOL_ERROR).
async fn expect_protocol_error_reset(peer: &mut mock::Handle, id: u32) -> Outcome {
    match tokio::time::timeout(WAIT, peer.next()).await {
        Ok(Some(Ok(frame::Frame::Reset(ref rst))))
            if rst.stream_id() == id && rst.reason() == Reason::PROTOCOL_ERROR =>
        {
            Ok(())
        }
        Ok(other) => Err(format!(
            "wire: expected RST_STREAM({}, PROTOCOL_ERROR), the peer received {:?}",
            id, other
        )),
        Err(_) => Err(format!(
            "wire: expected RST_STREAM({}, PROTOCOL_ERROR), the peer received nothing within {:?}",
            id, WAIT
        )),
    }
}

fn is_stream_protocol_error(err: &h2::Error) -> bool {
    err.is_reset() && err.reason() == Some(Reason::PROTOCOL_ERROR)
}

fn check(what: &str, (app, wire): (Outcome, Outcome)) {
    let mut msgs = Vec::new();
    if let Err(m) = app {
        msgs.push(m);
    }
    if let Err(m) = wire {
        msgs.push(m);
    }
    assert!(msgs.is_empty(), "{}:\n  {}", what, msgs.join("\n  "));
}

// ===== client: response HEADERS =====

/// The client sends `GET https://example.com/` (END_STREAM) on stream 1 and the
/// peer answers with one HEADERS frame (END_HEADERS, no END_STREAM) carrying
/// `pseudo` plus `content-type: text/plain`.
async fn client_recv_response_headers(pseudo: frame::Pseudo) -> (Outcome, Outcome) {
    let (io, mut srv) = mock::new();
    let (done_tx, done_rx) = oneshot::channel::<()>();

    let srv = async move {
        let settings = srv.assert_client_handshake().await;
        assert_default_settings!(settings);
        srv.recv_frame(
            frames::headers(1)
                .request("GET", "https://example.com/")
                .eos(),
        )
        .await;
        srv.send_frame(
            frames::headers(1)
                .pseudo(pseudo)
                .field("content-type", "text/plain"),
        )
        .await;
        let wire = expect_protocol_error_reset(&mut srv, 1).await;
        let _ = done_tx.send(());
        wire
    };

    let client = async move {
        let (mut client, conn) = client::handshake(io).await.expect("handshake");
        let conn = tokio::spawn(async move {
            let _ = conn.await;
        });

        let res = tokio::time::timeout(WAIT, client.get("https://example.com/")).await;
        let app = match res {
            Ok(Err(ref err)) if is_stream_protocol_error(err) => Ok(()),
            Ok(Err(ref err)) => Err(format!(
                "app: expected a stream PROTOCOL_ERROR, the response future failed with {:?}",
                err
            )),
            Ok(Ok(ref response)) => Err(format!(
                "app: the malformed response was delivered as a valid message: {:?}",
                response
            )),
            Err(_) => Err(format!("app: response future still pending after {:?}", WAIT)),
        };

        // Keep the stream handles alive until the peer has looked at the wire,
        // so that no RST_STREAM(CANCEL) from dropping them gets in the way.
        let _ = tokio::time::timeout(WAIT * 2, done_rx).await;
        drop(res);
        drop(client);
        let _ = tokio::time::timeout(WAIT, conn).await;
        app
    };

    let (wire, app) = tokio::time::timeout(WAIT * 5, join(srv, client))
        .await
        .expect("test timed out");
    (app, wire)
}

/// (a) RFC 9113 8.3.2: ":status MUST be included in all responses ...
/// otherwise the response is malformed".
#[tokio::test]
async fn client_rejects_response_without_status() {
    h2_support::trace_init!();

    let outcome = client_recv_response_headers(frame::Pseudo::default()).await;
    check("response HEADERS without :status", outcome);
}

/// (b) RFC 9113 8.3: "Pseudo-header fields defined for requests MUST NOT
/// appear in responses ... Endpoints MUST treat a request or response that
/// contains undefined or invalid pseudo-header fields as malformed".
#[tokio::test]
async fn client_rejects_response_with_path() {
    h2_support::trace_init!();

    let outcome = client_recv_response_headers(frame::Pseudo {
        path: Some(util::byte_str("/")),
        ..frame::Pseudo::response(StatusCode::OK)
    })
    .await;
    check("response HEADERS with :status and :path", outcome);
}

#[tokio::test]
async fn client_rejects_response_with_method() {
    h2_support::trace_init!();

    let outcome = client_recv_response_headers(frame::Pseudo {
        method: Some(Method::GET),
        ..frame::Pseudo::response(StatusCode::OK)
    })
    .await;
    check("response HEADERS with :status and :method", outcome);
}

#[tokio::test]
async fn client_rejects_response_with_scheme() {
    h2_support::trace_init!();

    let outcome = client_recv_response_headers(frame::Pseudo {
        scheme: Some(util::byte_str("https")),
        ..frame::Pseudo::response(StatusCode::OK)
    })
    .await;
    check("response HEADERS with :status and :scheme", outcome);
}

#[tokio::test]
async fn client_rejects_response_with_authority() {
    h2_support::trace_init!();

    let outcome = client_recv_response_headers(frame::Pseudo {
        authority: Some(util::byte_str("example.com")),
        ..frame::Pseudo::response(StatusCode::OK)
    })
    .await;
    check("response HEADERS with :status and :authority", outcome);
}

/// Sanity check of the helper itself: a well-formed response must *not* pass
/// the "rejected" expectations.
#[tokio::test]
async fn client_accepts_well_formed_response() {
    h2_support::trace_init!();

    let (app, wire) = client_recv_response_headers(frame::Pseudo::response(StatusCode::OK)).await;
    assert!(app.unwrap_err().contains("delivered as a valid message"));
    assert!(wire.unwrap_err().contains("received nothing"));
}

// ===== trailers =====

/// Drain the body, then ask for the trailers.
async fn read_body_then_trailers(body: &mut RecvStream) -> Outcome {
    let read = async {
        while let Some(chunk) = body.data().await {
            match chunk {
                Ok(chunk) => {
                    let _ = body.flow_control().release_capacity(chunk.len());
                }
                Err(err) => return Err(err),
            }
        }
        body.trailers().await
    };

    match tokio::time::timeout(WAIT, read).await {
        Ok(Err(ref err)) if is_stream_protocol_error(err) => Ok(()),
        Ok(Err(ref err)) => Err(format!(
            "app: expected a stream PROTOCOL_ERROR, the body failed with {:?}",
            err
        )),
        Ok(Ok(ref trailers)) => Err(format!(
            "app: the message with malformed trailers was delivered as valid; trailers = {:?}",
            trailers
        )),
        Err(_) => Err(format!("app: body still pending after {:?}", WAIT)),
    }
}

/// (c), client role. RFC 9113 8.1: "Trailers MUST NOT include pseudo-header
/// fields. An endpoint that receives pseudo-header fields in trailers MUST
/// treat the request or response as malformed."
///
/// The request is left open (no END_STREAM from the client) so that the stream
/// is still half open when the trailers arrive and a RST_STREAM is observable.
#[tokio::test]
async fn client_rejects_trailers_with_pseudo_header() {
    h2_support::trace_init!();

    let (io, mut srv) = mock::new();
    let (done_tx, done_rx) = oneshot::channel::<()>();

    let srv = async move {
        let settings = srv.assert_client_handshake().await;
        assert_default_settings!(settings);
        srv.recv_frame(frames::headers(1).request("POST", "https://example.com/"))
            .await;
        srv.send_frame(frames::headers(1).response(200)).await;
        srv.send_frame(frames::data(1, "hello")).await;
        srv.send_frame(
            frames::headers(1)
                .pseudo(frame::Pseudo::response(StatusCode::OK))
                .field("x-trailer", "v")
                .eos(),
        )
        .await;
        let wire = expect_protocol_error_reset(&mut srv, 1).await;
        let _ = done_tx.send(());
        wire
    };

    let client = async move {
        let (mut client, conn) = client::handshake(io).await.expect("handshake");
        let conn = tokio::spawn(async move {
            let _ = conn.await;
        });

        let request = Request::builder()
            .method(Method::POST)
            .uri("https://example.com/")
            .body(())
            .unwrap();
        let (response, send_stream) = client.send_request(request, false).unwrap();

        let response = tokio::time::timeout(WAIT, response)
            .await
            .expect("response timed out")
            .expect("response");
        assert_eq!(response.status(), StatusCode::OK);
        let mut body = response.into_body();

        let app = read_body_then_trailers(&mut body).await;

        let _ = tokio::time::timeout(WAIT * 2, done_rx).await;
        drop(body);
        drop(send_stream);
        drop(client);
        let _ = tokio::time::timeout(WAIT, conn).await;
        app
    };

    let (wire, app) = tokio::time::timeout(WAIT * 5, join(srv, client))
        .await
        .expect("test timed out");
    check("response trailers carrying :status", (app, wire));
}

/// (c), server role: request trailers carrying `:path`.
#[tokio::test]
async fn server_rejects_trailers_with_pseudo_header() {
    h2_support::trace_init!();

    let (io, mut client) = mock::new();
    let (done_tx, done_rx) = oneshot::channel::<()>();

    let client = async move {
        let settings = client.assert_server_handshake().await;
        assert_default_settings!(settings);
        client
            .send_frame(frames::headers(1).request("POST", "https://example.com/"))
            .await;
        client.send_frame(frames::data(1, "hello")).await;
        client
            .send_frame(
                frames::headers(1)
                    .pseudo(frame::Pseudo {
                        path: Some(util::byte_str("/other")),
                        ..Default::default()
                    })
                    .field("x-trailer", "v")
                    .eos(),
            )
            .await;
        let wire = expect_protocol_error_reset(&mut client, 1).await;
        let _ = done_tx.send(());
        wire
    };

    let srv = async move {
        let mut srv = server::handshake(io).await.expect("handshake");
        let (request, respond) = tokio::time::timeout(WAIT, srv.next())
            .await
            .expect("accept timed out")
            .expect("a request")
            .expect("accept");
        assert_eq!(request.method(), Method::POST);

        let conn = tokio::spawn(async move { while let Some(Ok(_)) = srv.next().await {} });

        let mut body = request.into_body();
        let app = read_body_then_trailers(&mut body).await;

        let _ = tokio::time::timeout(WAIT * 2, done_rx).await;
        drop(body);
        drop(respond);
        let _ = tokio::time::timeout(WAIT, conn).await;
        app
    };

    let (wire, app) = tokio::time::timeout(WAIT * 5, join(client, srv))
        .await
        .expect("test timed out");
    check("request trailers carrying :path", (app, wire));
}

// ===== server: request HEADERS =====

/// The peer opens stream 1 with one HEADERS frame (END_HEADERS, END_STREAM)
/// carrying `pseudo` plus `host: example.com`.
async fn server_recv_request_headers(pseudo: frame::Pseudo) -> (Outcome, Outcome) {
    let (io, mut client) = mock::new();
    let (done_tx, done_rx) = oneshot::channel::<()>();

    let client = async move {
        let settings = client.assert_server_handshake().await;
        assert_default_settings!(settings);
        client
            .send_frame(
                frames::headers(1)
                    .pseudo(pseudo)
                    .field("host", "example.com")
                    .eos(),
            )
            .await;
        let wire = expect_protocol_error_reset(&mut client, 1).await;
        let _ = done_tx.send(());
        wire
    };

    let srv = async move {
        let mut srv = server::handshake(io).await.expect("handshake");
        let accepted = tokio::time::timeout(WAIT, srv.next()).await;
        let app = match accepted {
            // Nothing is surfaced to the application for the malformed request.
            Err(_) | Ok(None) => Ok(()),
            Ok(Some(Ok((ref request, _)))) => Err(format!(
                "app: the malformed request was delivered as a valid message: {:?}",
                request
            )),
            Ok(Some(Err(ref err))) => Err(format!(
                "app: expected only a stream error, accept failed with {:?}",
                err
            )),
        };
        let _ = tokio::time::timeout(WAIT * 2, done_rx).await;
        drop(accepted);
        app
    };

    let (wire, app) = tokio::time::timeout(WAIT * 5, join(client, srv))
        .await
        .expect("test timed out");
    (app, wire)
}

/// (d) RFC 9113 8.3.1: "All HTTP/2 requests MUST include exactly one valid
/// value for the :method, :scheme, and :path pseudo-header fields, unless they
/// are CONNECT requests ... An HTTP request that omits mandatory pseudo-header
/// fields is malformed".
///
/// No `:authority` (the request carries `host` instead, as one translated from
/// HTTP/1.1 would).
#[tokio::test]
async fn server_rejects_get_without_path() {
    h2_support::trace_init!();

    let outcome = server_recv_request_headers(frame::Pseudo {
        method: Some(Method::GET),
        scheme: Some(util::byte_str("https")),
        ..Default::default()
    })
    .await;
    check("GET request with :method, :scheme but no :path", outcome);
}

/// (d) variant with `:authority` present.
#[tokio::test]
async fn server_rejects_get_with_authority_without_path() {
    h2_support::trace_init!();

    let outcome = server_recv_request_headers(frame::Pseudo {
        method: Some(Method::GET),
        scheme: Some(util::byte_str("https")),
        authority: Some(util::byte_str("example.com")),
        ..Default::default()
    })
    .await;
    check(
        "GET request with :method, :scheme, :authority but no :path",
        outcome,
    );
}

/// Sanity check of the helper itself with a well-formed request.
#[tokio::test]
async fn server_accepts_well_formed_request() {
    h2_support::trace_init!();

    let (app, wire) = server_recv_request_headers(frame::Pseudo {
        method: Some(Method::GET),
        scheme: Some(util::byte_str("https")),
        path: Some(util::byte_str("/")),
        ..Default::default()
    })
    .await;
    assert!(app.unwrap_err().contains("delivered as a valid message"));
    assert!(wire.unwrap_err().contains("received nothing"));
}
