// Demonstration for finding C03/C06 "owed WINDOW_UPDATE is not queued when SETTINGS_INITIAL_WINDOW_SIZE is
// lowered" (drop into tests/h2-tests/tests/ and run
// `cargo test -p h2-tests --test owed_window_update --offline`).
//
// History: initial stream window 65_535.  The peer sends 20_000 bytes, the application reads and releases
// them (20_000 is below the 50% threshold, so no WINDOW_UPDATE is sent yet: window 45_535, available 65_535).
// The application then lowers the initial window to 16_384 and the peer acknowledges: both numbers drop by
// 49_151, the peer's window for the stream is now -3_616 while 20_000 bytes of credit are owed to it
// (available 16_384).  Nothing puts the stream on the pending-window-update queue, the peer may not send, so
// no further release ever happens: the stream is permanently short of credit (stall).
use futures::future::join;
use h2_support::prelude::*;
use h2_support::util::yield_once;
use std::time::Duration;

#[tokio::test]
async fn lowered_initial_window_after_release_announces_owed_credit() {
    h2_support::trace_init!();
    let (io, mut srv) = mock::new();

    let srv = async move {
        let _settings = srv.assert_client_handshake().await;
        srv.recv_frame(frames::headers(1).request("GET", "https://http2.akamai.com/").eos())
            .await;
        srv.send_frame(frames::headers(1).response(200)).await;
        srv.send_frame(frames::data(1, vec![b'a'; 16_384])).await;
        srv.send_frame(frames::data(1, vec![b'a'; 3_616])).await;
        srv.recv_frame(frames::settings().initial_window_size(16_384)).await;
        srv.send_frame(frames::settings_ack()).await;
        // the peer's view of stream 1 is now 65_535 - 20_000 - 49_151 = -3_616; the client owes 20_000
        srv.recv_frame(frames::window_update(1, 20_000)).await;
        srv.send_frame(frames::data(1, vec![b'a'; 100]).eos()).await;
    };

    let client = async move {
        let (mut client, mut conn) = client::handshake(io).await.unwrap();
        let resp = conn.drive(client.get("https://http2.akamai.com/")).await.expect("response");
        let mut body = resp.into_body();
        let a = conn.drive(body.data()).await.expect("chunk 1").expect("chunk 1");
        let b = conn.drive(body.data()).await.expect("chunk 2").expect("chunk 2");
        assert_eq!(a.len() + b.len(), 20_000);
        body.flow_control().release_capacity(20_000).expect("release");
        conn.drive(yield_once()).await;

        conn.set_initial_window_size(16_384).expect("update");
        conn.drive(yield_once()).await;

        // the rest of the body can only arrive if the owed credit is announced
        conn.drive(async {
            let buf = body.data().await.expect("more data").expect("more data");
            assert_eq!(buf.len(), 100);
            assert!(body.data().await.is_none());
        })
        .await;
        conn.await.expect("client");
    };

    tokio::time::timeout(Duration::from_secs(5), join(srv, client))
        .await
        .expect("stalled: the owed WINDOW_UPDATE(1, 20000) was never sent");
}
