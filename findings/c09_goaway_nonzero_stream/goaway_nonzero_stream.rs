// Demonstration for finding C09/goaway-on-nonzero-stream (drop into tests/h2-tests/tests/ and run
// `cargo test -p h2-tests --test goaway_nonzero_stream --offline`).
// RFC 9113 section 6.8: "An endpoint MUST treat a GOAWAY frame with a stream identifier other than
// 0x00 as a connection error (Section 5.4.1) of type PROTOCOL_ERROR."
// Before the fix the client acts on the frame as a valid GOAWAY(NO_ERROR) from the peer and the connection
// future resolves Ok(()); after the fix it fails with a library GOAWAY(PROTOCOL_ERROR).
use futures::future::join;
use h2_support::prelude::*;

#[tokio::test]
async fn goaway_on_nonzero_stream_is_connection_error() {
    h2_support::trace_init!();
    let (io, mut srv) = mock::new();

    let srv = async move {
        let _settings = srv.assert_client_handshake().await;
        // GOAWAY, length 8, flags 0, stream id 1 (illegal), last-stream-id 0, NO_ERROR
        srv.send_bytes(&[0, 0, 8, 7, 0, 0, 0, 0, 1, 0, 0, 0, 0, 0, 0, 0, 0]).await;
        // the client must answer with its own GOAWAY(PROTOCOL_ERROR)
        srv.recv_frame(frames::go_away(0).protocol_error()).await;
    };

    let client = async move {
        let (_client, conn) = client::handshake(io).await.unwrap();
        let err = conn.await.expect_err("GOAWAY on a non-zero stream must be a connection error");
        assert!(err.is_go_away());
        assert!(err.is_library());
        assert_eq!(err.reason(), Some(Reason::PROTOCOL_ERROR));
    };

    join(srv, client).await;
}
