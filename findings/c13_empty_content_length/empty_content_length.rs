// Demonstration for finding C13 "empty content-length accepted as 0" (drop into tests/h2-tests/tests/ and run
// `cargo test -p h2-tests --test empty_content_length --offline`).
// RFC 9110 8.6: Content-Length = 1*DIGIT; RFC 9113 8.1.1: a message with a malformed content-length is malformed and
// MUST be treated as a stream error PROTOCOL_ERROR.  `frame::parse_u64(b"")` returned Ok(0), so a request with
// `content-length:` (empty value) was handed to the application as a valid message with a declared length of 0.
use futures::future::join;
use futures::StreamExt;
use h2_support::prelude::*;

#[tokio::test]
async fn empty_content_length_is_malformed() {
    h2_support::trace_init!();
    let (io, mut client) = mock::new();

    let client = async move {
        let _settings = client.assert_server_handshake().await;
        client
            .send_frame(
                frames::headers(1)
                    .request("GET", "https://example.com/")
                    .field("content-length", "")
                    .eos(),
            )
            .await;
        client.recv_frame(frames::reset(1).protocol_error()).await;
    };

    let srv = async move {
        let mut srv = server::handshake(io).await.expect("handshake");
        // the malformed request must not reach the application
        let next = tokio::time::timeout(std::time::Duration::from_millis(200), srv.next()).await;
        match next {
            Ok(Some(Ok(_))) => panic!("request with an empty content-length was delivered to the application"),
            _ => {}
        }
    };

    join(client, srv).await;
}
