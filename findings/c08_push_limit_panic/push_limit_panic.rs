// Probe: can a peer make a client panic by promising more pushed streams than the client's
// SETTINGS_MAX_CONCURRENT_STREAMS and then opening all of them?  Recv::open checks the limit when a stream is
// PROMISED but the stream is only counted when its HEADERS arrive, so two promises both pass the check at limit 1.
// Recv::recv_headers then calls Counts::inc_num_recv_streams, which asserts can_inc_num_recv_streams().
use futures::future::join;
use h2_support::prelude::*;

#[tokio::test]
async fn two_promises_at_limit_one_then_both_responses() {
    h2_support::trace_init!();
    let (io, mut srv) = mock::new();

    let mock = async move {
        let _ = srv.assert_client_handshake().await;
        srv.recv_frame(frames::headers(1).request("GET", "https://http2.akamai.com/").eos())
            .await;
        srv.send_frame(frames::push_promise(1, 2).request("GET", "https://http2.akamai.com/a.css"))
            .await;
        srv.send_frame(frames::push_promise(1, 4).request("GET", "https://http2.akamai.com/b.css"))
            .await;
        srv.send_frame(frames::headers(2).response(200)).await;
        srv.send_frame(frames::headers(4).response(200)).await;
        // RFC 9113 5.1.2: the HEADERS that would exceed the advertised limit is a stream error
        srv.recv_frame(frames::reset(4).refused()).await;
        srv.send_frame(frames::headers(1).response(200).eos()).await;
        idle_ms(50).await;
    };

    let h2 = async move {
        let (mut client, mut h2) = client::Builder::new()
            .max_concurrent_streams(1)
            .handshake::<_, Bytes>(io)
            .await
            .unwrap();
        let request = Request::builder()
            .method(Method::GET)
            .uri("https://http2.akamai.com/")
            .body(())
            .unwrap();
        let (resp, _) = client.send_request(request, true).unwrap();
        let _ = h2.drive(resp).await;
        let _ = tokio::time::timeout(std::time::Duration::from_millis(200), h2).await;
    };

    join(mock, h2).await;
}
