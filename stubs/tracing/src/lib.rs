//! No-op stand-in for the `tracing` crate, used only when h2 is compiled for Kani.
//! Kani 0.68 hits an internal compiler error on the callsite statics that the real
//! macros expand to. Logging has no functional effect on h2; the macro arguments are
//! dropped unevaluated (tools/scan_tracing_args.py checks none of them has a side effect).
#[macro_export]
macro_rules! trace { ($($t:tt)*) => {{}}; }
#[macro_export]
macro_rules! debug { ($($t:tt)*) => {{}}; }
#[macro_export]
macro_rules! info { ($($t:tt)*) => {{}}; }
#[macro_export]
macro_rules! warn { ($($t:tt)*) => {{}}; }
#[macro_export]
macro_rules! error { ($($t:tt)*) => {{}}; }
#[macro_export]
macro_rules! trace_span { ($($t:tt)*) => {{ $crate::Span::none() }}; }
#[macro_export]
macro_rules! debug_span { ($($t:tt)*) => {{ $crate::Span::none() }}; }
#[macro_export]
macro_rules! info_span { ($($t:tt)*) => {{ $crate::Span::none() }}; }

#[derive(Clone, Debug, Default)]
pub struct Span;

pub mod span {
    pub struct Entered<'a>(pub(crate) core::marker::PhantomData<&'a ()>);
    pub struct EnteredSpan;
}

impl Span {
    pub const fn none() -> Span {
        Span
    }
    pub fn current() -> Span {
        Span
    }
    pub fn enter(&self) -> span::Entered<'_> {
        span::Entered(core::marker::PhantomData)
    }
    pub fn entered(self) -> span::EnteredSpan {
        span::EnteredSpan
    }
    pub fn in_scope<F: FnOnce() -> T, T>(&self, f: F) -> T {
        f()
    }
    pub fn follows_from<T>(&self, _from: T) -> &Self {
        self
    }
    pub fn is_none(&self) -> bool {
        true
    }
}

pub mod instrument {
    use core::future::Future;
    use core::pin::Pin;
    use core::task::{Context, Poll};

    #[derive(Debug, Clone)]
    pub struct Instrumented<T> {
        inner: T,
        span: crate::Span,
    }

    impl<T> Instrumented<T> {
        pub fn span(&self) -> &crate::Span {
            &self.span
        }
        pub fn inner(&self) -> &T {
            &self.inner
        }
        pub fn inner_mut(&mut self) -> &mut T {
            &mut self.inner
        }
        pub fn into_inner(self) -> T {
            self.inner
        }
    }

    impl<T: Future> Future for Instrumented<T> {
        type Output = T::Output;
        fn poll(self: Pin<&mut Self>, cx: &mut Context<'_>) -> Poll<Self::Output> {
            // structural pinning of `inner`, as in the real crate
            let inner = unsafe { self.map_unchecked_mut(|s| &mut s.inner) };
            inner.poll(cx)
        }
    }

    pub trait Instrument: Sized {
        fn instrument(self, span: crate::Span) -> Instrumented<Self> {
            Instrumented { inner: self, span }
        }
        fn in_current_span(self) -> Instrumented<Self> {
            Instrumented {
                inner: self,
                span: crate::Span,
            }
        }
    }
    impl<T: Sized> Instrument for T {}
}
pub use instrument::Instrument;
