//! Association-list stand-in for `indexmap::IndexMap`, used only when h2 is compiled for
//! Kani. It exposes exactly the methods h2 calls (see src/proto/streams/store.rs) with
//! IndexMap's order semantics: insertion order, `swap_remove` moves the last entry into the
//! hole. The real crate's hashbrown/SipHash internals are intractable for CBMC.
//! tools/indexmap_diff (native differential test against the real crate) supports the
//! assumption that this stub behaves like IndexMap on the methods below.
use std::fmt;

pub struct IndexMap<K, V> {
    entries: Vec<(K, V)>,
}

impl<K: fmt::Debug, V: fmt::Debug> fmt::Debug for IndexMap<K, V> {
    fn fmt(&self, f: &mut fmt::Formatter<'_>) -> fmt::Result {
        f.write_str("IndexMap")
    }
}

impl<K: PartialEq, V> Default for IndexMap<K, V> {
    fn default() -> Self {
        Self::new()
    }
}

impl<K: PartialEq, V> IndexMap<K, V> {
    pub fn new() -> Self {
        IndexMap {
            entries: Vec::new(),
        }
    }

    fn position(&self, key: &K) -> Option<usize> {
        let mut i = 0;
        while i < self.entries.len() {
            if self.entries[i].0 == *key {
                return Some(i);
            }
            i += 1;
        }
        None
    }

    pub fn len(&self) -> usize {
        self.entries.len()
    }

    pub fn is_empty(&self) -> bool {
        self.entries.is_empty()
    }

    pub fn get(&self, key: &K) -> Option<&V> {
        match self.position(key) {
            Some(i) => Some(&self.entries[i].1),
            None => None,
        }
    }

    pub fn get_mut(&mut self, key: &K) -> Option<&mut V> {
        match self.position(key) {
            Some(i) => Some(&mut self.entries[i].1),
            None => None,
        }
    }

    pub fn contains_key(&self, key: &K) -> bool {
        self.position(key).is_some()
    }

    pub fn insert(&mut self, key: K, value: V) -> Option<V> {
        match self.position(&key) {
            Some(i) => Some(std::mem::replace(&mut self.entries[i].1, value)),
            None => {
                self.entries.push((key, value));
                None
            }
        }
    }

    pub fn get_index(&self, index: usize) -> Option<(&K, &V)> {
        match self.entries.get(index) {
            Some(e) => Some((&e.0, &e.1)),
            None => None,
        }
    }

    pub fn swap_remove(&mut self, key: &K) -> Option<V> {
        match self.position(key) {
            Some(i) => Some(self.entries.swap_remove(i).1),
            None => None,
        }
    }

    pub fn entry(&mut self, key: K) -> map::Entry<'_, K, V> {
        match self.position(&key) {
            Some(index) => map::Entry::Occupied(map::OccupiedEntry { map: self, index }),
            None => map::Entry::Vacant(map::VacantEntry { map: self, key }),
        }
    }
}

pub mod map {
    pub use super::IndexMap;

    pub enum Entry<'a, K, V> {
        Occupied(OccupiedEntry<'a, K, V>),
        Vacant(VacantEntry<'a, K, V>),
    }

    pub struct OccupiedEntry<'a, K, V> {
        pub(super) map: &'a mut IndexMap<K, V>,
        pub(super) index: usize,
    }

    pub struct VacantEntry<'a, K, V> {
        pub(super) map: &'a mut IndexMap<K, V>,
        pub(super) key: K,
    }

    impl<'a, K, V> OccupiedEntry<'a, K, V> {
        pub fn key(&self) -> &K {
            &self.map.entries[self.index].0
        }
        pub fn get(&self) -> &V {
            &self.map.entries[self.index].1
        }
        pub fn get_mut(&mut self) -> &mut V {
            &mut self.map.entries[self.index].1
        }
        pub fn index(&self) -> usize {
            self.index
        }
    }

    impl<'a, K, V> VacantEntry<'a, K, V> {
        pub fn insert(self, value: V) -> &'a mut V {
            self.map.entries.push((self.key, value));
            let n = self.map.entries.len();
            &mut self.map.entries[n - 1].1
        }
        pub fn key(&self) -> &K {
            &self.key
        }
    }
}
