"""Mechanical extraction of item text from /repo (token-level scanning, not line regexes).

find_item(text, "Type::method") / find_item(text, "free_fn") / "Trait@Type::method"
returns (start, body_open, end): text[start:end] is the item from `fn`'s qualifiers to the closing
brace, text[body_open] == '{' of the body.
"""
import hashlib
import os
import re


def skip_trivia_and_literals(s, i):
    """If s[i] starts a comment / string / char literal, return index after it, else None."""
    c = s[i]
    n = len(s)
    if c == "/" and i + 1 < n:
        if s[i + 1] == "/":
            j = s.find("\n", i)
            return n if j < 0 else j
        if s[i + 1] == "*":
            depth, j = 1, i + 2
            while j < n and depth:
                if s.startswith("/*", j):
                    depth += 1
                    j += 2
                elif s.startswith("*/", j):
                    depth -= 1
                    j += 2
                else:
                    j += 1
            return j
    if c == '"':
        j = i + 1
        while j < n:
            if s[j] == "\\":
                j += 2
                continue
            if s[j] == '"':
                return j + 1
            j += 1
        return n
    if c in "rb":
        m = re.match(r'(?:br|rb|r|b)(#*)"', s[i:i + 12])
        if m and (i == 0 or not (s[i - 1].isalnum() or s[i - 1] == "_")):
            hashes = m.group(1)
            if m.group(0).startswith(("r", "br", "rb")) and "r" in m.group(0)[:2]:
                end = s.find('"' + hashes, i + len(m.group(0)))
                return n if end < 0 else end + 1 + len(hashes)
            # b"..."
            j = i + len(m.group(0))
            while j < n:
                if s[j] == "\\":
                    j += 2
                    continue
                if s[j] == '"':
                    return j + 1
                j += 1
            return n
        m = re.match(r"b'(\\.|[^\\'])'", s[i:i + 6]) or re.match(r"b'\\x[0-9a-fA-F]{2}'", s[i:i + 8])
        if m and (i == 0 or not (s[i - 1].isalnum() or s[i - 1] == "_")):
            return i + len(m.group(0))
    if c == "'":
        m = re.match(r"'(\\u\{[0-9a-fA-F_]+\}|\\x[0-9a-fA-F]{2}|\\.|[^\\'\n])'", s[i:i + 14])
        if m:
            return i + len(m.group(0))
        return i + 1  # lifetime tick
    return None


def match_brace(s, i, open_c="{", close_c="}"):
    """s[i] == open_c; return index just after the matching close."""
    assert s[i] == open_c, (s[i - 20:i + 20])
    depth = 0
    n = len(s)
    while i < n:
        k = skip_trivia_and_literals(s, i)
        if k is not None:
            i = k
            continue
        c = s[i]
        if c == open_c:
            depth += 1
        elif c == close_c:
            depth -= 1
            if depth == 0:
                return i + 1
        i += 1
    raise ValueError("unbalanced")


def iter_code(s, start=0, end=None):
    """yield (index, char) for code characters only (comments/strings skipped)."""
    i = start
    n = len(s) if end is None else end
    while i < n:
        k = skip_trivia_and_literals(s, i)
        if k is not None:
            i = k
            continue
        yield i, s[i]
        i += 1


def top_level_items(s, start, end, keyword):
    """positions of `keyword` tokens at brace depth 0 within s[start:end]."""
    depth = 0
    out = []
    kw = re.compile(r"\b" + keyword + r"\b")
    i = start
    while i < end:
        k = skip_trivia_and_literals(s, i)
        if k is not None:
            i = k
            continue
        c = s[i]
        if c == "{":
            depth += 1
        elif c == "}":
            depth -= 1
        elif depth == 0 and c == keyword[0] and kw.match(s, i) and (i == 0 or not (s[i - 1].isalnum() or s[i - 1] == "_")):
            out.append(i)
            i += len(keyword)
            continue
        i += 1
    return out


def strip_generics(h):
    out, d = [], 0
    for c in h:
        if c == "<":
            d += 1
        elif c == ">":
            d -= 1
        elif d == 0:
            out.append(c)
    return "".join(out)


def impl_blocks(s):
    """[(header, body_start, body_end)] for every top-level (or mod-nested) impl block."""
    res = []
    for m in re.finditer(r"(?m)^[ \t]*(?:unsafe\s+)?impl\b", s):
        # make sure not in comment/string: cheap check, the line starts with impl
        i = m.end()
        j = None
        for k, c in iter_code(s, i):
            if c == "{":
                j = k
                break
            if c == ";":
                break
        if j is None:
            continue
        header = s[i:j]
        e = match_brace(s, j)
        res.append((header, j + 1, e - 1))
    return res


def impl_matches(header, typ, trait=None):
    if trait is not None and "<" in trait:
        raw = re.sub(r"\s+", "", re.sub(r"\bwhere\b.*", "", header, flags=re.S))
        want = re.sub(r"\s+", "", trait) + "for"
        if want not in raw:
            return False
        trait = trait.split("<")[0]
    h = strip_generics(header)
    h = re.sub(r"\bwhere\b.*", "", h, flags=re.S).strip()
    if " for " in h:
        tr, ty = h.split(" for ", 1)
    else:
        tr, ty = None, h
    ty = ty.strip().split("::")[-1].strip()
    ty = re.sub(r"^&\s*('\w+\s*)?(mut\s+)?", "", ty)
    if ty != typ:
        return False
    if trait is not None:
        return tr is not None and tr.strip().split("::")[-1].strip() == trait
    return True


def find_fn_in(s, start, end, name):
    for pos in top_level_items(s, start, end, "fn"):
        m = re.match(r"fn\s+(\w+)", s[pos:])
        if m and m.group(1) == name:
            # extend backwards over qualifiers on the same item
            b = pos
            pre = s[start:pos]
            mm = re.search(r"((?:pub(?:\([^)]*\))?\s+)?(?:const\s+)?(?:async\s+)?(?:unsafe\s+)?)$", pre)
            if mm:
                b = start + mm.start(1)
            # find body open
            bo = None
            for k, c in iter_code(s, pos, end):
                if c == "{":
                    bo = k
                    break
                if c == ";":
                    break
            if bo is None:
                continue
            e = match_brace(s, bo)
            return b, bo, e
    return None


def find_item(s, spec):
    trait = None
    if "::" in spec:
        typ, name = spec.rsplit("::", 1)
        if "@" in typ:
            trait, typ = typ.split("@", 1)
        for header, bs, be in impl_blocks(s):
            if impl_matches(header, typ, trait):
                r = find_fn_in(s, bs, be, name)
                if r:
                    return r
        return None
    return find_fn_in(s, 0, len(s), spec)


def find_struct(s, name):
    m = re.search(r"(?m)^[ \t]*(?:pub(?:\([^)]*\))?\s+)?(struct|enum)\s+" + re.escape(name) + r"\b", s)
    if not m:
        return None
    for k, c in iter_code(s, m.end()):
        if c == "{":
            return m.start(), match_brace(s, k)
        if c == "(":
            e = match_brace(s, k, "(", ")")
            semi = s.find(";", e)
            return m.start(), semi + 1
        if c == ";":
            return m.start(), k + 1
    return None


def find_const(s, name):
    m = re.search(r"(?m)^[ \t]*(?:pub(?:\([^)]*\))?\s+)?const\s+" + re.escape(name) + r"\s*:\s*([^=]+?)\s*=\s*([^;]+);", s)
    if not m:
        return None
    return m.group(1).strip(), m.group(2).strip()


def eval_const_expr(expr, env=None):
    """Evaluate simple integer constant expressions (literals, + - * / << >> | & parentheses, casts, names in env)."""
    e = re.sub(r"//.*", "", expr)
    e = re.sub(r"\bas\s+\w+", "", e)
    e = re.sub(r"(\d)_(?=\d)", r"\1", e)
    e = re.sub(r"\b(0x[0-9a-fA-F_]+|\d[\d_]*)(?:u8|u16|u32|u64|usize|i32|i64|isize)\b", r"\1", e)
    e = e.replace("_", "") if re.fullmatch(r"[0-9a-fA-Fx_ ]+", e) else e
    for k, v in (env or {}).items():
        e = re.sub(r"\b" + re.escape(k) + r"\b", str(v), e)
    if not re.fullmatch(r"[\s0-9a-fA-Fx+\-*/()<>|&]+", e):
        raise ValueError("cannot evaluate const expr: %r" % expr)
    return int(eval(e.replace("/", "//"), {"__builtins__": {}}))


def item_digest(repo, src, spec):
    p = os.path.join(repo, src)
    if not os.path.exists(p):
        return "file-not-found"
    s = open(p).read()
    best = None
    r = find_item(s, spec)
    if r:
        best = s[r[0]:r[2]]
    if best is None:
        # maybe a type name
        r = find_struct(s, spec.split("::")[-1])
        if r:
            best = s[r[0]:r[1]]
    if best is None:
        return "item-not-found"
    return hashlib.sha256(best.encode()).hexdigest()[:16]


# ------------------------------------------------------------------ body rewriting rules (R1, R2)

def split_macro_call(s, i):
    """s[i:] starts with `name!(`; return end index after the closing delimiter."""
    m = re.match(r"[\w:]+!\s*([\(\[\{])", s[i:])
    if not m:
        return None
    o = i + m.end() - 1
    close = {"(": ")", "[": "]", "{": "}"}[s[o]]
    return match_brace(s, o, s[o], close)


def apply_body_rules(body, counts, dropped):
    """R1: delete tracing/proto_err statements and span enter pairs.  R2: debug_assert -> assert.
    `counts` (dict) and `dropped` (list) record every application."""
    out = []
    i = 0
    n = len(body)
    while i < n:
        k = skip_trivia_and_literals(body, i)
        if k is not None:
            out.append(body[i:k])
            i = k
            continue
        # R1a  let span = tracing::trace_span!(..); let _e = span.enter();
        m = re.match(r"let\s+(\w+)\s*=\s*tracing::(?:trace|debug)_span!", body[i:])
        if m and (i == 0 or not (body[i - 1].isalnum() or body[i - 1] == "_")):
            j = i + body[i:].index("tracing::")
            e = split_macro_call(body, j)
            rest = re.match(r"\s*;\s*let\s+\w+\s*=\s*" + m.group(1) + r"\.enter\(\)\s*;", body[e:])
            if rest:
                dropped.append(body[i:e + rest.end()])
                counts["R1_span_pair"] = counts.get("R1_span_pair", 0) + 1
                i = e + rest.end()
                continue
        # R1c  tracing::trace_span!(..).in_scope(|| BLOCK)   =>   BLOCK
        m = re.match(r"tracing::(?:trace|debug)_span!", body[i:])
        if m and (i == 0 or not (body[i - 1].isalnum() or body[i - 1] in "_:")):
            e = split_macro_call(body, i)
            mm = re.match(r"\s*\.in_scope\(\s*\|\|\s*\{", body[e:]) if e else None
            if mm:
                bo = e + mm.end() - 1
                be = match_brace(body, bo)
                close = re.match(r"\s*\)", body[be:])
                if close:
                    dropped.append(body[i:bo] + " ... " + body[be:be + close.end()])
                    counts["R1_in_scope"] = counts.get("R1_in_scope", 0) + 1
                    inner = apply_body_rules(body[bo:be], counts, dropped)
                    out.append(inner)
                    i = be + close.end()
                    continue
        # R1b  tracing::trace!(..);  / proto_err!(..);
        m = re.match(r"(tracing::(?:trace|debug|warn|info|error)!|proto_err!)", body[i:])
        if m and (i == 0 or not (body[i - 1].isalnum() or body[i - 1] in "_:")):
            e = split_macro_call(body, i)
            semi = re.match(r"\s*;", body[e:])
            if semi:
                dropped.append(body[i:e + semi.end()])
                counts["R1_trace_stmt"] = counts.get("R1_trace_stmt", 0) + 1
                i = e + semi.end()
                continue
            else:
                # expression position (e.g. match arm): becomes unit
                dropped.append(body[i:e])
                counts["R1_trace_expr"] = counts.get("R1_trace_expr", 0) + 1
                out.append("()")
                i = e
                continue
        # R2
        m = re.match(r"debug_assert!", body[i:])
        if m and (i == 0 or not (body[i - 1].isalnum() or body[i - 1] == "_")):
            counts["R2_debug_assert"] = counts.get("R2_debug_assert", 0) + 1
            i += len("debug_")
            continue
        m = re.match(r"(?:debug_)?assert_(eq|ne)!\s*\(", body[i:])
        if m and (i == 0 or not (body[i - 1].isalnum() or body[i - 1] == "_")):
            if m.group(0).startswith("debug_"):
                counts["R2_debug_assert"] = counts.get("R2_debug_assert", 0) + 1
            e = split_macro_call(body, i)
            inner = body[i + m.end():e - 1]
            parts = split_top_commas(inner)
            op = "==" if m.group(1) == "eq" else "!="
            out.append("assert!((%s) %s (%s))" % (parts[0].strip(), op, parts[1].strip()))
            counts["R2_assert_eq"] = counts.get("R2_assert_eq", 0) + 1
            i = e
            continue
        out.append(body[i])
        i += 1
    return "".join(out)


def strip_comments(body):
    """R0: remove `//` and `/* */` comments (string/char literals respected)."""
    out = []
    i, n = 0, len(body)
    while i < n:
        c = body[i]
        if c == "/" and i + 1 < n and body[i + 1] in "/*":
            k = skip_trivia_and_literals(body, i)
            out.append(" " if body[i + 1] == "*" else "")
            i = k
            continue
        k = skip_trivia_and_literals(body, i)
        if k is not None:
            out.append(body[i:k])
            i = k
            continue
        out.append(c)
        i += 1
    return "".join(out)


def split_top_commas(s):
    parts, depth, cur = [], 0, []
    i = 0
    while i < len(s):
        k = skip_trivia_and_literals(s, i)
        if k is not None:
            cur.append(s[i:k])
            i = k
            continue
        c = s[i]
        if c in "([{":
            depth += 1
        elif c in ")]}":
            depth -= 1
        if c == "," and depth == 0:
            parts.append("".join(cur))
            cur = []
        else:
            cur.append(c)
        i += 1
    parts.append("".join(cur))
    return parts


def loop_positions(body):
    """indices (in body) of the `{` that opens each `while`/`loop`/`for` body, in source order."""
    res = []
    for i, c in iter_code(body):
        if c in "wlf" and (i == 0 or not (body[i - 1].isalnum() or body[i - 1] == "_")):
            m = re.match(r"(while|loop|for)\b", body[i:])
            if m:
                # body brace = first `{` at paren-depth 0 after the header that is not part of a struct literal:
                depth = 0
                for k, d in iter_code(body, i + len(m.group(1))):
                    if d in "([":
                        depth += 1
                    elif d in ")]":
                        depth -= 1
                    elif d == "{" and depth == 0:
                        res.append(k)
                        break
    return res
