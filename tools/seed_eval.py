#!/usr/bin/env python3
"""Run checks against seeded changes:  tools/seed_eval.py <patch.diff> <PROP|--only id,id> [tier]
Applies the patch to a private copy of /repo's working tree (so other running checks are not disturbed; the
equivalent of `git -C /repo apply` + `git checkout -- .`) and runs ./check on it."""
import os, shutil, subprocess, sys

HERE = os.path.dirname(os.path.dirname(os.path.abspath(__file__)))
patch = os.path.abspath(sys.argv[1])
what = sys.argv[2:]
copy = "/var/tmp/seed-eval-%d" % os.getpid()
subprocess.run(["rsync", "-a", "--exclude", "/target", "--exclude", "/.git", "/repo/", copy + "/"], check=True)
try:
    p = subprocess.run(["git", "apply", "--unsafe-paths", "--directory=" + copy, patch], cwd="/", capture_output=True, text=True)
    if p.returncode != 0:
        p = subprocess.run(["patch", "-p1", "-d", copy, "-i", patch], capture_output=True, text=True)
        if p.returncode != 0:
            print("patch does not apply:", p.stdout, p.stderr)
            sys.exit(3)
    env = dict(os.environ, H2V_REPO=copy, H2V_CACHE="/var/tmp/h2verif-cache-seed", H2V_SLOTS="3")
    if what[0] == "--only":
        cmd = ["./check", "X", "--only", what[1], "--no-evidence"] + what[2:]
    else:
        cmd = ["./check", what[0], "--no-evidence"] + (["--tier", what[1]] if len(what) > 1 else [])
    q = subprocess.run(cmd, cwd=HERE, env=env, capture_output=True, text=True)
    for l in q.stdout.splitlines():
        if l.startswith(("FAILED-OBLIGATION", "VIOLATION", "UNDECIDED", "KNOWN")) or " tier=" in l:
            print(l[:400])
    print("exit", q.returncode)
    sys.exit(q.returncode)
finally:
    shutil.rmtree(copy, ignore_errors=True)
