#!/usr/bin/env python3
"""Confirm a seeded change delivered by a sub-agent: tools/confirm_seed.py <agent OUT/k dir> <seeded/<name>>
In a scratch worktree of /repo's HEAD (outside /repo and /verif): the patch applies; the demonstration FAILS with
it and PASSES without it; the existing suite still passes with it (the one known always-failing unit test apart).
On success the change is stored as /verif/seeded/<name>/{patch.diff, <demo>, meta.json}."""
import json, os, shutil, subprocess, sys, time

src, name = sys.argv[1], sys.argv[2]
skip_suite = "--skip-suite" in sys.argv
meta = json.load(open(os.path.join(src, "meta.json")))
wt = "/var/tmp/wt-confirm-%d" % os.getpid()
tgt = os.environ.get("H2V_CONFIRM_TARGET", "/var/tmp/wt-confirm-target")
env = dict(os.environ, CARGO_TARGET_DIR=tgt, CARGO_NET_OFFLINE="true")
KNOWN = "clear_recv_buffer_caps_capacity_before_overflow"


def sh(cmd, cwd=wt, timeout=3600):
    p = subprocess.run(cmd, shell=True, cwd=cwd, env=env, stdout=subprocess.PIPE, stderr=subprocess.STDOUT, text=True, timeout=timeout)
    return p.returncode, p.stdout


ran = []
subprocess.run(["git", "-C", "/repo", "worktree", "add", "-q", wt, "HEAD"], check=True)
try:
    demo = meta["demo_file"]
    dest = meta.get("demo_dest", "tests/h2-tests/tests/" + demo)
    stem = os.path.splitext(os.path.basename(dest))[0]
    rc, out = sh("git apply --check %s" % os.path.join(src, "patch.diff"))
    if rc != 0:
        print("PATCH DOES NOT APPLY to /repo HEAD:\n" + out)
        sys.exit(1)
    shutil.copy(os.path.join(src, demo), os.path.join(wt, dest))
    if dest.startswith("tests/h2-tests/tests/"):
        cmd = "cargo test -p h2-tests --test %s --offline" % stem
    else:
        cmd = meta["demo_cmd"]
    # 1. demo without the change: must pass
    rc0, out0 = sh(cmd)
    ran.append("demo on unmodified tree: exit %d" % rc0)
    # 2. with the change: must fail
    sh("git apply %s" % os.path.join(src, "patch.diff"))
    rc1, out1 = sh(cmd)
    ran.append("demo with the change: exit %d" % rc1)
    ok = rc0 == 0 and rc1 != 0
    suite_ok = None
    if ok and not skip_suite:
        os.remove(os.path.join(wt, dest))
        rc2, out2 = sh("cargo test --workspace --no-fail-fast --offline 2>&1 | grep -E '^test .* FAILED|^test result'", timeout=7200)
        failed = [l for l in out2.splitlines() if l.startswith("test ") and not l.startswith("test result") and "FAILED" in l]
        unexpected = [l for l in failed if KNOWN not in l]
        suite_ok = not unexpected and "test result" in out2
        ran.append("existing suite with the change: %d failed (%s)" % (len(failed), "only the known always-failing test" if suite_ok else "; ".join(unexpected)[:300]))
        ok = ok and suite_ok
    print("\n".join(ran))
    if not ok:
        print("NOT CONFIRMED")
        print(out0[-1500:] if rc0 != 0 else out1[-1500:])
        sys.exit(1)
    dst = os.path.join(os.path.dirname(os.path.dirname(os.path.abspath(__file__))), "seeded", name)
    os.makedirs(dst, exist_ok=True)
    shutil.copy(os.path.join(src, "patch.diff"), dst)
    shutil.copy(os.path.join(src, demo), dst)
    meta["confirmed"] = ran
    meta["confirmed_against"] = subprocess.run(["git", "-C", "/repo", "rev-parse", "--short", "HEAD"], capture_output=True, text=True).stdout.strip()
    json.dump(meta, open(os.path.join(dst, "meta.json"), "w"), indent=1)
    print("CONFIRMED ->", dst)
finally:
    subprocess.run(["git", "-C", "/repo", "worktree", "remove", "--force", wt])
