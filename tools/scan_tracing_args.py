#!/usr/bin/env python3
"""The tracing stub drops macro arguments unevaluated.  Check that no argument of a tracing macro in /repo/src
contains something with a side effect (an assignment, a `.take()`, `.pop*`, `.push*`, `.insert`, `.remove`,
`.next()`, `+=`), so dropping them cannot change behaviour."""
import os
import re
import sys

HERE = os.path.dirname(os.path.dirname(os.path.abspath(__file__)))
sys.path.insert(0, os.path.join(HERE, "tools"))
import extract  # noqa

REPO = os.environ.get("H2V_REPO", "/repo")
bad = []
n = 0
for root, _, files in os.walk(os.path.join(REPO, "src")):
    for fn in files:
        if not fn.endswith(".rs"):
            continue
        s = open(os.path.join(root, fn)).read()
        for m in re.finditer(r"tracing::(trace|debug|warn|info|error|trace_span|debug_span)!\s*\(", s):
            e = extract.match_brace(s, m.end() - 1, "(", ")")
            args = s[m.end():e - 1]
            n += 1
            if re.search(r"\.(take|pop\w*|push\w*|insert|remove|next|swap_remove|advance|split_to|split_off)\s*\(|[^=!<>]=[^=]|\+=|-=", re.sub(r'"(\\.|[^"\\])*"', '""', args).replace("==", "").replace("=>", "").replace("%", "").replace("?", "")):
                # `name = expr` field syntax is allowed: strip `ident =` at top level
                stripped = re.sub(r"\b[\w\.]+\s*=\s*", "", re.sub(r'"(\\.|[^"\\])*"', '""', args))
                if re.search(r"\.(take|pop\w*|push\w*|insert|remove|next|swap_remove|advance|split_to|split_off)\s*\(|\+=|-=", stripped):
                    bad.append((fn, args.strip()[:120]))
print("tracing macro invocations scanned: %d, with possible side effects: %d" % (n, len(bad)))
for b in bad:
    print("  ", b)
sys.exit(1 if bad else 0)
