"""Engine K: run Kani harnesses (contracts on the real, compiled h2) and classify the outcome."""
import concurrent.futures
import json
import os
import re
import resource
import signal
import subprocess
import time

from scratch import VERIF, KANI_DIR, src_for_harness_file

KANI_FLAGS = ["--features", "h2_verif", "-Z", "function-contracts", "-Z", "stubbing"]
SOLVER = os.environ.get("H2V_SOLVER", "minisat")  # measured: minisat 30 s, cadical 89 s, kissat 282 s on prio_pop_pending_open
ENV = dict(os.environ, CARGO_NET_OFFLINE="true", CARGO_TERM_COLOR="never")

HARNESS_RE = re.compile(r"//\s*@harness\s+(.*)")


def scan_catalogue(kani_dir=None):
    """Every harness is announced by a line `// @harness id=.. props=C01,C02 kind=complete|bounded
    tier=quick|thorough fn=A::b,C::d [bound=..] [timeout=..]` directly above `#[kani::proof]`."""
    kani_dir = kani_dir or KANI_DIR
    cat = []
    for name in sorted(os.listdir(kani_dir)):
        if not name.endswith(".rs"):
            continue
        text = open(os.path.join(kani_dir, name)).read()
        modpath = name[:-3].replace("__", "::")
        if modpath.endswith("::mod"):
            modpath = modpath[:-5]
        if modpath == "lib":
            modpath = ""
        for m in HARNESS_RE.finditer(text):
            kv = {}
            for tok in m.group(1).split():
                if "=" in tok:
                    k, v = tok.split("=", 1)
                    kv[k] = v
            hid = kv["id"]
            # labelled obligations = assert messages inside the function body that follows
            body = fn_body_after(text, m.end(), hid)
            # one level of local helper functions (`fn case(..)` shared by several harnesses)
            for callee in set(re.findall(r"\b([a-z_][a-z0-9_]*)\s*\(", body)):
                hm = re.search(r"\n\s*fn\s+" + callee + r"\s*\([^)]*\)\s*(?:->[^{]*)?\{", text)
                if hm and callee != hid and callee.endswith("_case"):
                    body += helper_body(text, hm.end())
            labels = sorted(set(re.findall(r'"((?:[a-z0-9_]+\.)+[A-Za-z0-9_\.]+)"', body)))
            obl = [l for l in labels if not l.startswith("cover.")]
            covers = [l for l in labels if l.startswith("cover.")]
            cat.append({
                "id": hid,
                "file": name,
                "src": src_for_harness_file(name),
                "path": (modpath + "::" if modpath else "") + "verif_kani::proofs::" + hid,
                "props": kv.get("props", "").split(","),
                "kind": kv.get("kind", "complete"),
                "bound": kv.get("bound", ""),
                "tier": kv.get("tier", "quick"),
                "fns": kv.get("fn", "").split(","),
                "timeout": int(kv.get("timeout", "0")),
                "solver": kv.get("solver", ""),
                "obligations": obl,
                "covers": covers,
                "expect_fail": kv.get("expect", "") == "fail",
            })
    ids = [c["id"] for c in cat]
    dup = set(i for i in ids if ids.count(i) > 1)
    if dup:
        raise SystemExit("catalogue error: duplicate harness ids %s" % dup)
    return cat


def helper_body(text, i):
    depth, j = 1, i
    while j < len(text) and depth:
        c = text[j]
        if c == "{":
            depth += 1
        elif c == "}":
            depth -= 1
        j += 1
    return text[i:j]


def fn_body_after(text, pos, hid):
    m = re.search(r"fn\s+" + re.escape(hid) + r"\s*\(\s*\)\s*\{", text[pos:])
    if not m:
        raise SystemExit("catalogue error: no fn %s after its @harness line" % hid)
    i = pos + m.end()
    depth = 1
    j = i
    while j < len(text) and depth:
        c = text[j]
        if c == "{":
            depth += 1
        elif c == "}":
            depth -= 1
        j += 1
    return text[i:j]


def _limits(mem_gb):
    def f():
        os.setsid()
        lim = mem_gb * (1 << 30)
        resource.setrlimit(resource.RLIMIT_AS, (lim, lim))
    return f


def build(scratch, log_path):
    """Compile h2 + harnesses once.  Returns (ok, seconds, output)."""
    t0 = time.time()
    p = subprocess.run(["cargo", "kani"] + KANI_FLAGS + ["--only-codegen"], cwd=scratch, env=ENV,
                       stdout=subprocess.PIPE, stderr=subprocess.STDOUT, text=True)
    with open(log_path, "w") as f:
        f.write(p.stdout)
    return p.returncode == 0, time.time() - t0, p.stdout


CHECK_RE = re.compile(
    r"^Check (\d+): ([^\n]+)\n\s+- Status: (\S+)\n\s+- Description: \"(.*?)\"\n(?:\s+- Location: ([^\n]*)\n)?(?=\n|\Z|\s*\n)", re.M | re.S)


def parse_output(out):
    checks = []
    for m in CHECK_RE.finditer(out):
        checks.append({"n": int(m.group(1)), "name": m.group(2), "status": m.group(3),
                       "desc": " ".join(m.group(4).strip('"').split()), "loc": m.group(5) or ""})
    verdict = None
    m = re.search(r"VERIFICATION:- (\w+)", out)
    if m:
        verdict = m.group(1)
    vt = re.search(r"Verification Time: ([0-9.]+)s", out)
    return checks, verdict, float(vt.group(1)) if vt else None


def run_harness(scratch, h, timeout_s, mem_gb, logdir, extra=()):
    t0 = time.time()
    cmd = ["cargo", "kani"] + KANI_FLAGS + ["--exact", "--harness", h["path"], "--solver", h.get("solver") or SOLVER] + list(extra)
    log = os.path.join(logdir, h["id"] + ".log")
    try:
        p = subprocess.Popen(cmd, cwd=scratch, env=ENV, stdout=subprocess.PIPE, stderr=subprocess.STDOUT,
                             text=True, preexec_fn=_limits(mem_gb))
        try:
            out, _ = p.communicate(timeout=timeout_s)
            timed_out = False
        except subprocess.TimeoutExpired:
            os.killpg(p.pid, signal.SIGKILL)
            out, _ = p.communicate()
            timed_out = True
    except Exception as e:  # pragma: no cover
        out, timed_out = "driver exception: %r" % e, False
    with open(log, "w") as f:
        f.write(out)
    wall = time.time() - t0
    return classify(h, out, timed_out, wall, log)


def classify(h, out, timed_out, wall, log):
    checks, verdict, vtime = parse_output(out)
    res = {"id": h["id"], "wall_s": round(wall, 2), "solver_s": vtime, "log": log, "kind": h["kind"],
           "n_checks": len(checks), "failed": [], "status": None, "why": ""}
    failed = [c for c in checks if c["status"] == "FAILURE"]
    unwind_fail = [c for c in failed if "unwinding assertion" in c["desc"]]
    real_fail = [c for c in failed if "unwinding assertion" not in c["desc"]]
    covers = [c for c in checks if ".cover." in c["name"] or c["desc"].startswith("cover.")]
    cover_bad = [c for c in covers if c["status"] != "SATISFIED"]
    labelled_ok = sorted(set(c["desc"] for c in checks if c["status"] == "SUCCESS" and c["desc"] in h["obligations"]))
    res["labelled_ok"] = labelled_ok
    res["implicit_ok"] = len([c for c in checks if c["status"] == "SUCCESS" and c["desc"] not in h["obligations"]])
    res["covers_ok"] = len([c for c in covers if c["status"] == "SATISFIED"])
    if timed_out:
        res["status"], res["why"] = "undecided", "timeout after %ds" % wall
        return res
    if "error: internal compiler error" in out or "error[E" in out or "error: could not compile" in out:
        res["status"], res["why"] = "undecided", "does not compile (tool or lost anchor)"
        return res
    if not checks or verdict is None:
        res["status"], res["why"] = "undecided", "no verification result (tool failure / out of memory)"
        return res
    m = re.search(r"\*\* (\d+) of (\d+) failed", out)
    if m and (int(m.group(2)) != len([c for c in checks if ".cover." not in c["name"]]) or int(m.group(1)) != len(failed)):
        res["status"], res["why"] = "undecided", "parser disagreement with Kani's summary (%s of %s failed; parsed %d/%d)" % (
            m.group(1), m.group(2), len(failed), len(checks))
        return res
    if real_fail:
        res["status"] = "failed"
        res["failed"] = [{"desc": c["desc"], "loc": c["loc"], "name": c["name"]} for c in real_fail]
        return res
    if unwind_fail:
        res["status"], res["why"] = "undecided", "unwinding bound too small: " + unwind_fail[0]["loc"]
        return res
    undet = [c for c in checks if c["status"] in ("UNDETERMINED",)]
    if verdict != "SUCCESSFUL":
        res["status"], res["why"] = "undecided", "verdict %s without a failed check (%d undetermined)" % (verdict, len(undet))
        return res
    if cover_bad:
        res["status"], res["why"] = "undecided", "vacuity guard: cover not satisfied: " + cover_bad[0]["desc"]
        return res
    missing = [o for o in h["obligations"] if o not in labelled_ok]
    # an obligation that is unreachable is reported by CBMC as SUCCESS too, so `missing` means the
    # assertion text vanished from the compiled harness
    if missing:
        res["status"], res["why"] = "undecided", "obligations not found in output: %s" % missing[:3]
        return res
    if len(covers) < len(h["covers"]) or not h["covers"]:
        res["status"], res["why"] = "undecided", "vacuity guard: harness has no cover / cover lost"
        return res
    res["status"] = "discharged"
    return res


def load_hints():
    try:
        return json.load(open(os.path.join(VERIF, "contracts", "timing_hints.json")))
    except Exception:
        return {}


def plan_batches(hs, jobs, default_to):
    """Longest-processing-time-first partition into at most `jobs` batches per solver.  One `cargo kani` invocation
    per batch: cargo's build-directory lock serialises the (per harness-set) compilation of h2, so 130 single-harness
    invocations spend ~9 min queueing for it; 16 batches spend ~1.5 min."""
    hints = load_hints()
    by_solver = {}
    for h in hs:
        by_solver.setdefault(h.get("solver") or SOLVER, []).append(h)
    total = sum(hints.get(h["id"], 20.0) for h in hs) or 1.0
    batches = []
    for solver, group in by_solver.items():
        w = sum(hints.get(h["id"], 20.0) for h in group)
        k = max(1, min(len(group), int(round(jobs * w / total)) or 1))
        bins = [{"solver": solver, "hs": [], "w": 0.0} for _ in range(k)]
        for h in sorted(group, key=lambda h: -hints.get(h["id"], 20.0)):
            bn = min(bins, key=lambda x: x["w"])
            bn["hs"].append(h)
            bn["w"] += hints.get(h["id"], 20.0) + 3.0
        batches += [bn for bn in bins if bn["hs"]]
    for bn in batches:
        bn["timeout"] = max(h["timeout"] or default_to for h in bn["hs"])
    batches.sort(key=lambda bn: -bn["w"])  # the heaviest batch gets the build lock first
    return batches


SECTION_RE = re.compile(r"^Checking harness (\S+?)\.\.\.\s*$")


def run_batch(scratch, bn, mem_gb, logdir, k):
    """One cargo-kani process verifying the harnesses of the batch one after the other (regular output, so every check
    is listed).  Returns the classified result of each harness."""
    hs = bn["hs"]
    cmd = ["cargo", "kani"] + KANI_FLAGS + ["--exact", "--solver", bn["solver"], "-Z", "unstable-options",
                                            "--harness-timeout", "%ds" % bn["timeout"]]
    for h in hs:
        cmd += ["--harness", h["path"]]
    t0 = time.time()
    limit = sum((h["timeout"] or bn["timeout"]) for h in hs) + 900
    sections, order, cur, pre = {}, [], None, []
    stamps = {}
    killed = False
    try:
        p = subprocess.Popen(cmd, cwd=scratch, env=ENV, stdout=subprocess.PIPE, stderr=subprocess.STDOUT,
                             text=True, preexec_fn=_limits(mem_gb))
        import threading
        timer = threading.Timer(limit, lambda: os.killpg(p.pid, signal.SIGKILL))
        timer.start()
        for line in p.stdout:
            m = SECTION_RE.match(line)
            if m:
                if cur is not None:
                    stamps[cur][1] = time.time()
                cur = m.group(1)
                order.append(cur)
                sections[cur] = []
                stamps[cur] = [time.time(), None]
            if cur is None:
                pre.append(line)
            else:
                if line.startswith("Manual Harness Summary") or line.startswith("Complete - "):
                    stamps[cur][1] = stamps[cur][1] or time.time()
                    cur = None
                    pre.append(line)
                    continue
                sections[cur].append(line)
        p.wait()
        killed = not timer.is_alive() and p.returncode == -signal.SIGKILL
        timer.cancel()
    except Exception as e:  # pragma: no cover
        pre.append("driver exception: %r\n" % e)
    end = time.time()
    if cur is not None and stamps[cur][1] is None:
        stamps[cur][1] = end
    with open(os.path.join(logdir, "batch%02d.log" % k), "w") as f:
        f.write("".join(pre))
        f.write("\n# harnesses: " + " ".join(h["id"] for h in hs) + "\n")
    # compile diagnostics (errors only) are shared by every harness of the batch
    pre_txt = "".join(pre)
    compile_failed = "error: could not compile" in pre_txt or "error[E" in pre_txt or "internal compiler error" in pre_txt
    results = []
    for h in hs:
        sec = sections.get(h["path"])
        log = os.path.join(logdir, h["id"] + ".log")
        if sec is None:
            out = pre_txt if compile_failed else ("harness was not run by cargo kani (batch ended early%s)\n" % (
                ", killed by the driver after %ds" % limit if killed else "")) + pre_txt[-3000:]
            wall, timed_out = end - t0, killed
        else:
            out = "".join(sec)
            st = stamps[h["path"]]
            wall = (st[1] or end) - st[0]
            timed_out = "CBMC timed out" in out or (killed and h["path"] == order[-1])
        with open(log, "w") as f:
            f.write(out)
        results.append(classify(h, out, timed_out, wall, log))
    return results


def run_many(scratch, hs, tier, jobs, logdir):
    os.makedirs(logdir, exist_ok=True)
    default_to = 600 if tier == "quick" else 1800   # generous: a loaded machine must not turn a proof into "undecided"
    mem = 12 if tier == "quick" else 24
    batches = plan_batches(hs, jobs, default_to)
    results = []
    with concurrent.futures.ThreadPoolExecutor(max_workers=max(1, len(batches))) as ex:
        futs = [ex.submit(run_batch, scratch, bn, mem, logdir, k) for k, bn in enumerate(batches)]
        for f in concurrent.futures.as_completed(futs):
            results += f.result()
    results.sort(key=lambda r: r["id"])
    return results


# ---------------------------------------------------------------- replay

PLAYBACK_RE = re.compile(r"```\n(.*?)\n```", re.S)


def playback_tests(out):
    """[(test_src, test_name, check_kind, check_desc)] for the non-cover checks Kani printed a test for."""
    res = []
    for m in PLAYBACK_RE.finditer(out):
        blk = m.group(1)
        k = re.search(r"Check for `(\w+)`: \"+(.*?)\"+\s*$", blk, re.M)
        t = re.search(r"(#\[test\]\nfn (kani_concrete_playback_\w+)\(\) \{.*\n\})", blk, re.S)
        if not t:
            continue
        kind = k.group(1) if k else "?"
        if kind == "cover":
            continue
        res.append((t.group(1), t.group(2), kind, k.group(2) if k else ""))
    return res


def concrete_playback(scratch, kani_dir, h, logdir, timeout_s=600, failed_descs=None):
    """Ask CBMC for a concrete counterexample, turn it into a #[test] inside the scratch copy of the
    harness file and run it natively against the real function bodies."""
    info = {"harness": h["id"], "reproduced": False, "test_src": None, "native_output": None}
    # A harness that runs under #[kani::stub] cannot be replayed natively: the stub is only applied by kani-compiler,
    # the native test would exercise different code and any panic it produced would prove nothing.
    try:
        src = open(os.path.join(kani_dir, h["file"])).read()
        k = src.find("fn %s(" % h["id"])
        head = src[max(0, src.rfind("@harness", 0, k)):k] if k >= 0 else ""
        if "kani::stub" in head:
            info["native_output"] = "harness uses #[kani::stub]: native replay would run different code; not attempted"
            return info
    except OSError:
        pass
    cmd = ["cargo", "kani"] + KANI_FLAGS + ["--exact", "--harness", h["path"], "-Z", "concrete-playback",
                                            "--concrete-playback=print"]
    try:
        p = subprocess.run(cmd, cwd=scratch, env=ENV, stdout=subprocess.PIPE, stderr=subprocess.STDOUT, text=True,
                           timeout=timeout_s)
    except subprocess.TimeoutExpired:
        info["native_output"] = "concrete playback generation timed out"
        return info
    open(os.path.join(logdir, h["id"] + ".playback-gen.log"), "w").write(p.stdout)
    tests = playback_tests(p.stdout)
    if not tests:
        info["native_output"] = "Kani printed no concrete playback test"
        return info
    tests = tests[:4]
    test_src = "\n".join(t[0] for t in tests)
    info["test_src"] = test_src
    info["test_name"] = [t[1] for t in tests]
    info["checks"] = [t[3] for t in tests]
    # inject into the scratch copy of the harness file, inside `mod proofs`
    hp = os.path.join(kani_dir, h["file"])
    text = open(hp).read()
    marker = "mod proofs {"
    k = text.find(marker)
    if k < 0:
        info["native_output"] = "no `mod proofs {` in harness file"
        return info
    k += len(marker)
    injected = text[:k] + "\n" + test_src + "\n" + text[k:]
    open(hp, "w").write(injected)
    try:
        q = subprocess.run(["cargo", "kani", "playback", "-Z", "concrete-playback", "--features", "h2_verif", "--lib",
                            "--", "kani_concrete_playback_" + h["id"]],
                           cwd=scratch, env=dict(ENV, RUSTFLAGS="--cap-lints=warn"), stdout=subprocess.PIPE,
                           stderr=subprocess.STDOUT, text=True, timeout=timeout_s)
        out = q.stdout
    except subprocess.TimeoutExpired:
        out = "native playback timed out"
    finally:
        open(hp, "w").write(text)
    open(os.path.join(logdir, h["id"] + ".playback-run.log"), "w").write(out)
    info["native_output"] = out[-6000:]
    panicked = bool(re.search(r"test result: FAILED|panicked at", out)) and "error: could not compile" not in out
    # a labelled obligation counts as reproduced only if the native panic carries that label (otherwise the native run
    # failed for another reason); implicit checks (overflow, unwrap, index, assert! of the real body) accept any panic
    labels = [c for c in (failed_descs or []) if c in h["obligations"]]
    if labels:
        panicked = panicked and any(l in out for l in labels)
    info["reproduced"] = panicked
    return info
