#!/usr/bin/env python3
"""Evaluate every seeded change against the quick check of its property; writes seeded/RESULTS.json."""
import json, os, subprocess, sys, time
HERE = os.path.dirname(os.path.dirname(os.path.abspath(__file__)))
only = sys.argv[1:] 
res_path = os.path.join(HERE, "seeded", "RESULTS.json")
try:
    results = json.load(open(res_path))
except Exception:
    results = {}
for name in sorted(os.listdir(os.path.join(HERE, "seeded"))):
    d = os.path.join(HERE, "seeded", name)
    if not os.path.isdir(d) or (only and name not in only):
        continue
    meta = json.load(open(os.path.join(d, "meta.json")))
    prop = meta["property"]
    t0 = time.time()
    p = subprocess.run([sys.executable, os.path.join(HERE, "tools", "seed_eval.py"), os.path.join(d, "patch.diff"), prop],
                       capture_output=True, text=True)
    lines = p.stdout.strip().splitlines()
    caught_by = [l for l in lines if l.startswith("FAILED-OBLIGATION")]
    results[name] = {"property": prop, "exit": p.returncode, "caught": p.returncode == 1,
                     "failed_obligations": [l[:300] for l in caught_by], "undecided": [l for l in lines if l.startswith("UNDECIDED")][:5],
                     "wall_s": round(time.time() - t0), "verif_commit": subprocess.run(["git", "-C", HERE, "rev-parse", "--short", "HEAD"], capture_output=True, text=True).stdout.strip()}
    print(name, "exit", p.returncode, "caught" if p.returncode == 1 else "MISSED", flush=True)
    json.dump(results, open(res_path, "w"), indent=1)
