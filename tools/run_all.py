#!/usr/bin/env python3
"""Run every check's quick (or thorough) command from MANIFEST.json and print a summary line per property."""
import json, os, subprocess, sys, time
HERE = os.path.dirname(os.path.dirname(os.path.abspath(__file__)))
tier = sys.argv[1] if len(sys.argv) > 1 else "quick"
only = sys.argv[2].split(",") if len(sys.argv) > 2 else None
man = json.load(open(os.path.join(HERE, "MANIFEST.json")))
for c in man["checks"]:
    if only and c["property_id"] not in only:
        continue
    cmd = c["quick_cmd"] if tier == "quick" else c.get("thorough_cmd", c["quick_cmd"])
    t0 = time.time()
    p = subprocess.run(cmd, shell=True, cwd=HERE, stdout=subprocess.PIPE, stderr=subprocess.STDOUT, text=True)
    last = [l for l in p.stdout.splitlines() if l.startswith(c["property_id"] + " tier=")]
    print("%s exit=%d %.0fs  %s" % (c["property_id"], p.returncode, time.time() - t0, last[-1] if last else ""), flush=True)
    for l in p.stdout.splitlines():
        if l.startswith(("VIOLATION", "UNDECIDED", "KNOWN-FINDING", "FAILED-OBLIGATION")):
            print("    " + l[:300], flush=True)
