#!/usr/bin/env python3
"""Offline setup: check the tools, warm the dependency cache of one scratch slot."""
import os
import shutil
import subprocess
import sys

HERE = os.path.dirname(os.path.dirname(os.path.abspath(__file__)))
sys.path.insert(0, os.path.join(HERE, "tools"))
import scratch  # noqa
import kani_engine as K  # noqa

for tool in ("cargo-kani", "verus", "rsync", "cbmc"):
    if not shutil.which(tool):
        print("missing tool:", tool)
        sys.exit(1)
with scratch.Slot() as slot:
    prep = scratch.prepare(slot.dir)
    ok, secs, out = K.build(prep["scratch"], os.path.join(slot.dir, "setup-build.log"))
    print("kani build of h2 + harnesses: %s in %.0fs" % ("ok" if ok else "FAILED", secs))
    if not ok:
        print(out[-3000:])
        sys.exit(1)
p = subprocess.run([sys.executable, os.path.join(HERE, "tools", "scan_tracing_args.py")])
sys.exit(p.returncode)
