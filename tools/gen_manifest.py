#!/usr/bin/env python3
"""Regenerate MANIFEST.json from contracts/properties_meta.json and the harness catalogue."""
import json
import os
import sys

HERE = os.path.dirname(os.path.dirname(os.path.abspath(__file__)))
sys.path.insert(0, os.path.join(HERE, "tools"))
import kani_engine as K  # noqa
import verus_engine as V  # noqa

meta = json.load(open(os.path.join(HERE, "contracts", "properties_meta.json")))
props = [json.loads(l) for l in open(os.path.join(HERE, "properties.jsonl"))]
cat = K.scan_catalogue()
vcat = V.scan_units()
checks, na = [], []
for p in props:
    pid = p["id"]
    m = meta.get(pid, {})
    n = len([h for h in cat if pid in h["props"]]) + len([u for u in vcat if pid in u["props"]])
    if m.get("not_applicable") or n == 0:
        na.append({"property_id": pid, "reason": m.get("not_applicable") or "no contract written yet for this property"})
        continue
    checks.append({
        "property_id": pid,
        "quick_cmd": "./check %s --tier quick" % pid,
        "thorough_cmd": "./check %s --tier thorough" % pid,
        "evidence_file": "/verif/evidence/%s.json" % pid,
        "replay_cmd_template": "./check --replay {path}",
        "engine": "contracts",
        "level_claimed": {"category": m.get("level", "proof"), "text": m.get("level_text", ""), "design_ref": m.get("design_ref", "DESIGN.md section 4 " + pid)},
        "level_note": m.get("level_note", ""),
        "technique": m.get("technique", "contract-based deductive verification: pre/postconditions on the real functions, discharged by Kani/CBMC (loop-free full-domain harnesses) and Verus (extracted functions, unbounded)"),
    })
man = {
    "version": 1,
    "setup_cmd": "python3 tools/setup.py",
    "hooks": {
        "guard": "h2_verif (cargo feature; exists only in the scratch copy the checks build)",
        "enable": "tools/scratch.py copies /repo's working tree to a scratch directory on every run and appends, per verified source file, three guarded lines `#[cfg(feature = \"h2_verif\")] #[path = ...] mod verif_kani;`, adds the feature and a [patch.crates-io] for the tracing/indexmap stubs to the copy's Cargo.toml; /repo itself carries no hook commits",
        "baseline_off_cmd": "cd /repo && cargo test --workspace --no-fail-fast --offline",
        "source_commits": [],
        "add_only": True,
    },
    "engines": [
        {"name": "K", "path": "tools/kani_engine.py", "serves_properties": sorted(set(p for h in cat for p in h["props"] if p != "*")),
         "kind_free_text": "Kani 0.68 / CBMC 6.11 on the real crate; harness-side pre/postconditions, full-domain symbolic inputs, concrete playback for replay"},
        {"name": "V", "path": "tools/verus_engine.py", "serves_properties": sorted(set(p for u in vcat for p in u["props"])),
         "kind_free_text": "Verus 0.2026.09.13 on functions extracted mechanically from /repo on every run (tools/extract.py), contracts spliced from vspec/*.rs; composition lemmas"},
    ],
    "checks": checks,
    "not_applicable": na,
    "notes": "exit 2 (no VIOLATION line) = undecided: tool limit, lost anchor, vacuous harness. See DESIGN.md.",
}
json.dump(man, open(os.path.join(HERE, "MANIFEST.json"), "w"), indent=1)
print("checks:", [c["property_id"] for c in checks], "n/a:", [x["property_id"] for x in na])
