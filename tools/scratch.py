#!/usr/bin/env python3
"""Build the scratch copy of /repo that Kani compiles.

The copy is /repo's *current working tree* (rsync, no target/ and no .git/) plus, mechanically:
  A1  Cargo.toml: feature `h2_verif = []`, `[patch.crates-io]` pointing tracing/indexmap at the
      stub crates, workspace members removed (only the h2 library is built), check-cfg for `kani`;
  A2  for every /verif/kani/<a>__<b>__<c>.rs: the three lines
          #[cfg(feature = "h2_verif")]
          #[path = "<copy of /verif/kani>/<a>__<b>__<c>.rs"]
          mod verif_kani;
      appended to src/<a>/<b>/<c>.rs (child modules see the private items of their parent);
  A3  `#![cfg_attr(feature="h2_verif", allow(..))]`-free: nothing else is touched.
Nothing is deleted or rewritten in any .rs file of h2; every function body Kani sees is the text in
/repo.  The additions are listed in the returned dict and end up in the evidence.
"""
import fcntl
import hashlib
import os
import re
import shutil
import subprocess
import sys

VERIF = os.path.dirname(os.path.dirname(os.path.abspath(__file__)))
REPO = os.environ.get("H2V_REPO", "/repo")
CACHE = os.environ.get("H2V_CACHE", "/var/tmp/h2verif-cache")
NSLOTS = int(os.environ.get("H2V_SLOTS", "4"))
KANI_DIR = os.environ.get("H2V_KANI_DIR", os.path.join(VERIF, "kani"))
VSPEC_DIR = os.environ.get("H2V_VSPEC_DIR", os.path.join(VERIF, "vspec"))


def sh(cmd, **kw):
    return subprocess.run(cmd, shell=isinstance(cmd, str), check=True, **kw)


class Slot:
    """An exclusive scratch directory (source copy + cargo target dir) reused between runs so
    that the dependencies of h2 are compiled once.  It is a cache: deleting it costs time only."""

    def __init__(self):
        os.makedirs(CACHE, exist_ok=True)
        self.lockf = None
        self.dir = None

    def __enter__(self):
        while True:
            for i in range(NSLOTS):
                d = os.path.join(CACHE, "slot%d" % i)
                os.makedirs(d, exist_ok=True)
                f = open(os.path.join(d, ".lock"), "w")
                try:
                    fcntl.flock(f, fcntl.LOCK_EX | fcntl.LOCK_NB)
                except OSError:
                    f.close()
                    continue
                self.lockf = f
                self.dir = d
                return self
            # all busy: block on slot 0
            d = os.path.join(CACHE, "slot0")
            f = open(os.path.join(d, ".lock"), "w")
            fcntl.flock(f, fcntl.LOCK_EX)
            self.lockf = f
            self.dir = d
            return self

    def __exit__(self, *a):
        if self.lockf:
            fcntl.flock(self.lockf, fcntl.LOCK_UN)
            self.lockf.close()


def src_for_harness_file(name):
    """proto__streams__flow_control.rs -> src/proto/streams/flow_control.rs"""
    base = name[:-3]
    return "src/" + base.replace("__", "/") + ".rs"


def prepare(slot_dir, repo=None):
    """rsync the working tree into <slot>/repo and apply A1..A2.  Returns a description."""
    repo = repo or REPO
    dst = os.path.join(slot_dir, "repo")
    kdst = os.path.join(slot_dir, "verif_kani")
    os.makedirs(dst, exist_ok=True)
    # hooked files are written by us (source text + 3 hook lines) and only when their content changes, so
    # that cargo's mtime-based fingerprints see exactly the real changes
    hooked = {}
    for name in sorted(os.listdir(KANI_DIR)):
        if name.endswith(".rs"):
            hooked[src_for_harness_file(name)] = name
    excl = []
    for rel in hooked:
        excl += ["--exclude", "/" + rel]
    sh(["rsync", "-a", "--checksum", "--delete", "--exclude", "/target", "--exclude", "/.git",
        "--exclude", "/tests", "--exclude", "/util", "--exclude", "/fuzz", "--exclude", "/benches",
        "--exclude", "/examples", "--exclude", "/fixtures", "--exclude", "/Cargo.toml", "--exclude", "/.cargo"]
       + excl + [repo + "/", dst + "/"])
    sh(["rsync", "-a", "--checksum", "--delete", "--exclude", "*.md", KANI_DIR + "/", kdst + "/"])

    added = []
    # --- A1 Cargo.toml
    ct_path = os.path.join(dst, "Cargo.toml")
    ct = open(os.path.join(repo, "Cargo.toml")).read()
    if "[features]" not in ct:
        raise SystemExit("EXTRACT-ERROR: no [features] section in Cargo.toml")
    ct = ct.replace("[features]", "[features]\nh2_verif = []", 1)
    ct = re.sub(r"\[workspace\]\s*members\s*=\s*\[[^\]]*\]", "[workspace]", ct, count=1, flags=re.S)
    ct = re.sub(r'check-cfg = \["cfg\(fuzzing\)"\]', 'check-cfg = ["cfg(fuzzing)", "cfg(kani)"]', ct)
    # benches/examples are not copied
    ct = re.sub(r"\[\[bench\]\][^\[]*", "", ct, flags=re.S)
    ct += ("\n[patch.crates-io]\n"
           'tracing = { path = "%s/stubs/tracing" }\n'
           'indexmap = { path = "%s/stubs/indexmap" }\n' % (VERIF, VERIF))
    ct = ct.replace("[package]", "[package]\nautoexamples = false\nautobenches = false\nautotests = false", 1)
    write_if_changed(ct_path, ct)
    added.append("Cargo.toml: feature h2_verif, [patch.crates-io] tracing+indexmap stubs, workspace members dropped")

    # --- A2 module hooks
    hooks = []
    for rel, name in sorted(hooked.items()):
        srcp = os.path.join(repo, rel)
        if not os.path.exists(srcp):
            raise SystemExit("EXTRACT-ERROR: lost anchor: %s (for harness file %s)" % (rel, name))
        text = open(srcp).read()
        hook = ('\n#[cfg(feature = "h2_verif")]\n#[path = "%s/%s"]\npub(crate) mod verif_kani;\n' % (kdst, name))
        os.makedirs(os.path.dirname(os.path.join(dst, rel)), exist_ok=True)
        write_if_changed(os.path.join(dst, rel), text + hook)
        hooks.append(rel)
    # a file that was hooked in an earlier run but is not any more: restore the plain source
    stale = os.path.join(slot_dir, "hooked.list")
    try:
        for rel in open(stale).read().split():
            if rel not in hooked and os.path.exists(os.path.join(repo, rel)):
                write_if_changed(os.path.join(dst, rel), open(os.path.join(repo, rel)).read())
    except FileNotFoundError:
        pass
    open(stale, "w").write("\n".join(sorted(hooked)))
    added.append("appended `mod verif_kani;` (3 guarded lines) to: " + ", ".join(hooks))
    # offline config
    os.makedirs(os.path.join(dst, ".cargo"), exist_ok=True)
    write_if_changed(os.path.join(dst, ".cargo", "config.toml"), "[net]\noffline = true\n")
    # every distinct harness set leaves one build directory (~20 MB) behind; bound the cache
    bdir = os.path.join(dst, "target", "kani", "x86_64-unknown-linux-gnu", "debug", "build", "h2")
    try:
        ents = sorted((os.path.getmtime(os.path.join(bdir, e)), e) for e in os.listdir(bdir))
        if len(ents) > 500:
            for _, e in ents[:len(ents) - 250]:
                shutil.rmtree(os.path.join(bdir, e), ignore_errors=True)
    except OSError:
        pass
    return {"scratch": dst, "kani_dir": kdst, "additions": added, "hooked_files": hooks}


def write_if_changed(path, text):
    try:
        if open(path).read() == text:
            return
    except FileNotFoundError:
        pass
    with open(path, "w") as f:
        f.write(text)


def tree_digest(repo=None):
    """sha256 over the sources of the working tree (what the run verified)."""
    repo = repo or REPO
    h = hashlib.sha256()
    for root, dirs, files in os.walk(os.path.join(repo, "src")):
        dirs.sort()
        for fn in sorted(files):
            p = os.path.join(root, fn)
            h.update(p.encode())
            h.update(open(p, "rb").read())
    return h.hexdigest()


if __name__ == "__main__":
    with Slot() as s:
        print(prepare(s.dir))
