"""Engine V: Verus on functions extracted mechanically from /repo on every run.

A unit is /verif/vspec/<id>.rs: a Verus file whose hand-written part is *specification only* (spec fns, proof
fns, opaque external types with assume_specification) and whose executable functions are pulled from /repo by

    //@extract <src path> <Type::fn | fn>
    //@ret <name>                     name the return value:  -> T   becomes   -> (name: T)
    //@spec <verus clause text>       requires/ensures/decreases lines, emitted between signature and body
    //@attr <attribute>               a Verus attribute line placed above the signature (e.g. opting out of termination)
    //@none_args <Type>               R8: every `&mut None` argument becomes a fresh `Option<Type>` local
    //@loop <k> <clause text>         invariant/decreases lines for the k-th loop (source order, from 0)
    //@loop_opt <k> <clause text>     the same, but if the function no longer has a k-th loop the clauses are dropped
    //@subst <old>=><new>             literal replacement in signature+body (each counted, each listed in evidence)
    //@subst_re <regex>=><new>        same with a (DOTALL) regular expression, for multi-line `assert!(.., "fmt", ..)`
    //@subst_opt_re <regex>=><new>    a PURE DIALECT TRANSLATION of a statement whose removal is a plausible breaking change: applied
                                      where it matches; when nothing matches the function goes to the verifier without it (the
                                      postcondition decides) instead of being reported as a lost anchor
    //@subst_alt <group> <regex>=><new>  alternatives for ONE site that may legitimately have more than one shape (e.g. before
                                      and after a repair): the first alternative of the group whose regex matches is applied; if
                                      none matches the anchor is lost (exit 2).  Lets a shape that VIOLATES the contract still be
                                      put in front of the verifier instead of being reported as a lost anchor.
    //@before <anchor>=><text>        ghost text (proof blocks only) inserted before the first occurrence of anchor
    //@after <anchor>=><text>         ... or right after it
    //@at_end <text>                  ghost text (proof blocks only) inserted before the closing brace of the body (bodies of
                                      unit type only); may be given several times, the texts are concatenated
    //@before_tail <text>             ghost text inserted in front of the tail expression of the body (a single identifier)
    //@end

    //@const <src path> <NAME>        emits `pub const NAME: <ty> = <literal>;` with the initialiser of /repo
                                      evaluated by the extractor (R3: Verus cannot evaluate shift expressions)
    //@struct <src path> <Name> [pub] emits the struct/enum definition with its attributes dropped (R5); `pub`: the item and its
                                      fields are made public (privacy is meaningless in the single-file unit)

Body rules R1 (tracing/proto_err statements dropped) and R2 (debug_assert -> assert) come from extract.py.
"""
import json
import os
import re
import subprocess
import time

import extract
from scratch import VERIF, VSPEC_DIR

UNIT_RE = re.compile(r"//\s*@unit\s+(.*)")


def scan_units(vdir=None):
    vdir = vdir or VSPEC_DIR
    units = []
    if not os.path.isdir(vdir):
        return units
    for name in sorted(os.listdir(vdir)):
        if not name.endswith(".rs"):
            continue
        text = open(os.path.join(vdir, name)).read()
        m = UNIT_RE.search(text)
        if not m:
            continue
        try:
            text = "\n".join(expand_includes(os.path.join(vdir, name)))
        except (ValueError, FileNotFoundError):
            pass
        kv = dict(tok.split("=", 1) for tok in m.group(1).split() if "=" in tok)
        fns = re.findall(r"//@extract\s+(\S+)\s+(\S+)", text)
        lemmas = re.findall(r"proof fn (lemma_\w+)", text)
        units.append({"id": kv["id"], "file": os.path.join(vdir, name), "props": kv.get("props", "").split(","),
                      "tier": kv.get("tier", "quick"), "fns": [f for _, f in fns] + lemmas,
                      "src": fns[0][0] if fns else "", "srcs": {f: s for s, f in fns},
                      "rlimit": kv.get("rlimit", "")})
    return units


def split_arrow(t):
    """old=>new, or old ==>> new when the old text itself contains `=>`."""
    if " ==>> " in t:
        a, b = t.split(" ==>> ", 1)
        return a, b
    a, b = t.split("=>", 1)
    return a, b


def expand_includes(path, depth=0):
    """`//@include name` pulls in vspec/inc/name (shared preludes; may contain directives and further includes)."""
    out = []
    for ln in open(path).read().split("\n"):
        if ln.strip().startswith("//@include "):
            if depth > 5:
                raise ValueError("include depth")
            inc = os.path.join(os.path.dirname(path) if os.path.basename(os.path.dirname(path)) == "inc" else os.path.join(os.path.dirname(path), "inc"), ln.strip().split()[1])
            out.append("// ---- begin include %s" % os.path.basename(inc))
            out.extend(expand_includes(inc, depth + 1))
            out.append("// ---- end include %s" % os.path.basename(inc))
        else:
            out.append(ln)
    return out


def generate(unit, repo):
    """Returns (generated_text, info) or raises SystemExit-like ValueError on a lost anchor."""
    lines = expand_includes(unit["file"])
    out = []
    info = {"rules": {}, "dropped": [], "substs": [], "extracted": [], "consts": [], "line_map": []}
    i = 0
    while i < len(lines):
        ln = lines[i]
        s = ln.strip()
        if s.startswith("//@const "):
            _, src, name = s.split()
            text = open(os.path.join(repo, src)).read()
            r = extract.find_const(text, name)
            if not r:
                raise ValueError("lost anchor: const %s in %s" % (name, src))
            ty, expr = r
            env = {c["name"]: c["value"] for c in info["consts"]}
            val = extract.eval_const_expr(expr, env)
            info["consts"].append({"name": name, "value": val, "expr": expr, "src": src})
            info["rules"]["R3_const_folded"] = info["rules"].get("R3_const_folded", 0) + 1
            out.append("pub const %s: %s = %d;" % (name, ty, val))
            i += 1
            continue
        if s.startswith("//@struct "):
            parts = s.split()
            src, name = parts[1], parts[2]
            text = open(os.path.join(repo, src)).read()
            r = extract.find_struct(text, name)
            if not r:
                raise ValueError("lost anchor: struct %s in %s" % (name, src))
            body = text[r[0]:r[1]]
            body = re.sub(r"(?m)^\s*///.*\n", "", body)
            body = re.sub(r"(?m)^\s*//.*\n", "", body)
            if len(parts) > 3 and parts[3] == "pub":
                # R5: field privacy is meaningless in the single-file unit (spec functions must be able to name the fields)
                body = re.sub(r"(?m)^(\s+)(?!pub\b)([a-z_][a-z0-9_]*\s*:)", r"\1pub \2", body)
                body = re.sub(r"^(struct|enum)\b", r"pub \1", body)
                mt = re.match(r"(pub struct \w+)\(([^)]*)\);\s*$", body)
                if mt:      # tuple struct
                    body = "%s(%s);" % (mt.group(1), ", ".join(f if f.strip().startswith("pub") else "pub " + f.strip() for f in mt.group(2).split(",") if f.strip()))
            info["rules"]["R5_struct"] = info["rules"].get("R5_struct", 0) + 1
            out.append(body)
            i += 1
            continue
        if s.startswith("//@extract "):
            _, src, spec = s.split()
            ret, specs, loops, substs, befores, attrs, at_end = None, [], {}, [], [], [], []
            before_tail = []
            opt_loops = set()
            none_ty = None
            i += 1
            while not lines[i].strip().startswith("//@end"):
                d = lines[i].strip()
                if d.startswith("//@ret "):
                    ret = d.split(None, 1)[1].strip()
                elif d.startswith("//@spec"):
                    specs.append(d[len("//@spec"):].rstrip())
                elif d.startswith("//@attr "):
                    attrs.append(d[len("//@attr "):].strip())
                elif d.startswith("//@none_args "):
                    none_ty = d[len("//@none_args "):].strip()
                elif d.startswith("//@loop "):
                    _, k, rest = d.split(None, 2)
                    loops.setdefault(int(k), []).append(rest)
                elif d.startswith("//@loop_opt "):
                    # clauses for a loop that a change may legitimately (or illegitimately) remove: if the loop is gone the
                    # clauses are dropped and the function is verified without them (its postcondition decides)
                    _, k, rest = d.split(None, 2)
                    loops.setdefault(int(k), []).append(rest)
                    opt_loops.add(int(k))
                elif d.startswith("//@subst_opt_re "):
                    a, b = split_arrow(d[len("//@subst_opt_re "):])
                    substs.append(("ore:" + a, b))
                elif d.startswith("//@subst_re "):
                    a, b = split_arrow(d[len("//@subst_re "):])
                    substs.append(("re:" + a, b))
                elif d.startswith("//@subst_alt "):
                    g, rest = d[len("//@subst_alt "):].split(None, 1)
                    a, b = split_arrow(rest)
                    substs.append(("alt:" + g + ":" + a, b))
                elif d.startswith("//@subst "):
                    a, b = split_arrow(d[len("//@subst "):])
                    substs.append((a, b))
                elif d.startswith("//@before "):
                    a, b = d[len("//@before "):].split("=>", 1)
                    befores.append((a, b, False))
                elif d.startswith("//@after "):
                    a, b = d[len("//@after "):].split("=>", 1)
                    befores.append((a, b, True))
                elif d.startswith("//@at_end "):
                    at_end.append(d[len("//@at_end "):])
                elif d.startswith("//@before_tail "):
                    before_tail.append(d[len("//@before_tail "):])
                elif d.startswith("//@"):
                    raise ValueError("unknown directive: " + d)
                i += 1
            i += 1
            text = open(os.path.join(repo, src)).read()
            r = extract.find_item(text, spec)
            if not r:
                raise ValueError("lost anchor: fn %s in %s" % (spec, src))
            st, bo, en = r
            sig = text[st:bo].rstrip()
            body = text[bo:en]
            counts = {}
            # R5: restricted visibility (`pub(super)`, `pub(crate)`) is meaningless in the single-file unit
            sig, nvis = re.subn(r"\bpub\((?:super|crate|self|in [^)]*)\)", "pub", sig)
            if nvis:
                counts["R5_visibility"] = nvis
            body = extract.apply_body_rules(body, counts, info["dropped"])
            body = extract.strip_comments(body)  # R0
            alt_done, alt_seen = set(), {}
            for a, b in substs:
                if a.startswith("alt:"):
                    _, g, rxs = a.split(":", 2)
                    alt_seen.setdefault(g, False)
                    if g in alt_done:
                        continue
                    rx = re.compile(rxs, re.S)
                    found = rx.findall(body)
                    if not found:
                        continue
                    rep = (lambda _m: _m.expand(b)) if re.search(r"\\[1-9]", b) else (lambda _m: b)
                    body = rx.sub(rep, body)
                    alt_done.add(g)
                    alt_seen[g] = True
                    info["substs"].append({"fn": spec, "alt_group": g, "old_regex": rxs, "new": b, "count": len(found)})
                    continue
                if a.startswith("ore:"):
                    a = a[1:]
                    if not (re.compile(a[3:], re.S).search(body) or re.compile(a[3:], re.S).search(sig)):
                        info["substs"].append({"fn": spec, "old_regex": a[3:], "new": b, "count": 0, "optional": True})
                        continue
                if a.startswith("re:"):
                    rx = re.compile(a[3:], re.S)
                    found = rx.findall(body) + rx.findall(sig)
                    if not found:
                        raise ValueError("lost anchor: subst_re %r in %s" % (a[3:], spec))
                    rep = (lambda _m: _m.expand(b)) if re.search(r"\\[1-9]", b) else (lambda _m: b)
                    body = rx.sub(rep, body)
                    sig = rx.sub(rep, sig)
                    info["substs"].append({"fn": spec, "old_regex": a[3:], "new": b, "count": len(found)})
                    continue
                n = sig.count(a) + body.count(a)
                if n == 0:
                    raise ValueError("lost anchor: subst %r in %s" % (a, spec))
                sig = sig.replace(a, b)
                body = body.replace(a, b)
                info["substs"].append({"fn": spec, "old": a, "new": b, "count": n})
            for g, okk in alt_seen.items():
                if not okk:
                    raise ValueError("lost anchor: no alternative of subst_alt group %r matches in %s" % (g, spec))
            if none_ty:
                # R8: every `&mut None` argument becomes `&mut <fresh local>`, declared at the top of the body
                # (Verus cannot take `&mut` of a temporary)
                k = 0
                while "&mut None" in body:
                    body = body.replace("&mut None", "&mut none_arg_%d" % k, 1)
                    k += 1
                if k:
                    j = body.index("{") + 1
                    decl = " ".join("let mut none_arg_%d: Option<%s> = None;" % (n, none_ty) for n in range(k))
                    body = body[:j] + " " + decl + body[j:]
                    info["rules"]["R8_mut_none_arg"] = info["rules"].get("R8_mut_none_arg", 0) + k
            for a, b, after in befores:
                k = body.find(a)
                if k < 0:
                    raise ValueError("lost anchor: before/after %r in %s" % (a, spec))
                if after:
                    k += len(a)
                body = body[:k] + " " + b + " " + body[k:]
            if at_end:
                k = body.rstrip().rfind("}")
                body = body[:k] + " " + " ".join(at_end) + "\n" + body[k:]
            if before_tail:
                # the body ends `<newline> <identifier> <newline> }`: ghost text goes in front of that tail expression
                m = re.search(r"\n[ \t]*[A-Za-z_][A-Za-z0-9_]*[ \t]*\n[ \t]*\}\s*$", body)
                if not m:
                    raise ValueError("lost anchor: before_tail needs a body ending in a single identifier in %s" % spec)
                body = body[:m.start()] + "\n " + " ".join(before_tail) + body[m.start():]
            if loops:
                pos = extract.loop_positions(body)
                for k in sorted(loops, reverse=True):
                    if k >= len(pos):
                        if k in opt_loops:
                            info["dropped"].append("loop clauses of loop %d in %s (loop not present)" % (k, spec))
                            continue
                        raise ValueError("lost anchor: loop %d in %s" % (k, spec))
                    p = pos[k]
                    body = body[:p] + "\n" + "\n".join(loops[k]) + "\n" + body[p:]
            if ret:
                m = re.search(r"->\s*(.+)$", sig, flags=re.S)
                if not m:
                    raise ValueError("no return type to name in %s" % spec)
                rty, where = m.group(1).strip(), ""
                mw = re.search(r"\n\s*where\b", rty)
                if mw:      # `-> T where F: ..` : the where clause stays behind the named return value
                    rty, where = rty[:mw.start()].strip(), "\n" + rty[mw.start():].strip()
                sig = sig[:m.start()] + "-> (%s: %s)%s" % (ret, rty, where)
            for k, v in counts.items():
                info["rules"][k] = info["rules"].get(k, 0) + v
            first = len(out) + 1
            out.extend(attrs)
            out.append(sig)
            out.extend(specs)
            out.extend(body.split("\n"))
            info["line_map"].append((first, len(out), spec))
            info["extracted"].append({"fn": spec, "src": src, "sha256": extract.item_digest(repo, src, spec)})
            continue
        out.append(ln)
        i += 1
    return "\n".join(out), info


ASSUME_SCAN = re.compile(r"(external_body|assume_specification|admit\(\)|assume\(|external_type_specification|"
                         r"#\[verifier::external\]|axiom)")


def run_unit(unit, repo, workdir, logdir, timeout_s=600):
    t0 = time.time()
    res = {"id": unit["id"], "engine": "verus", "status": None, "why": "", "failed": [], "wall_s": 0.0, "log": None}
    os.makedirs(workdir, exist_ok=True)
    try:
        text, info = generate(unit, repo)
    except (ValueError, FileNotFoundError) as e:
        res["status"], res["why"] = "undecided", "extraction: %s" % e
        res["wall_s"] = round(time.time() - t0, 2)
        return res
    gen = os.path.join(workdir, unit["id"] + ".rs")
    open(gen, "w").write(text)
    keep = os.path.join(logdir, unit["id"] + ".generated.rs")
    open(keep, "w").write(text)
    cmd = ["verus", gen, "--output-json", "--time", "--crate-type", "lib"]
    if unit.get("rlimit"):
        cmd += ["--rlimit", unit["rlimit"]]
    try:
        p = subprocess.run(cmd, stdout=subprocess.PIPE, stderr=subprocess.PIPE, text=True, timeout=timeout_s, cwd=workdir)
        out, err = p.stdout, p.stderr
    except subprocess.TimeoutExpired:
        res["status"], res["why"] = "undecided", "verus timeout"
        res["wall_s"] = round(time.time() - t0, 2)
        return res
    log = os.path.join(logdir, unit["id"] + ".verus.log")
    open(log, "w").write(out + "\n=====stderr=====\n" + err)
    res["log"] = log
    res["wall_s"] = round(time.time() - t0, 2)
    res["extraction"] = {"rules_applied": info["rules"], "substitutions": info["substs"], "consts": info["consts"],
                         "dropped_statements": len(info["dropped"]), "functions": info["extracted"]}
    res["assumption_scan"] = sorted(set(m.group(0) + " @ line %d: %s" % (n + 1, l.strip()[:100])
                                        for n, l in enumerate(text.split("\n")) for m in [ASSUME_SCAN.search(l)] if m
                                        and not l.strip().startswith("//")))
    try:
        j = json.loads(out)
    except Exception:
        res["status"], res["why"] = "undecided", "verus produced no JSON (front-end error): " + err[-400:]
        return res
    vr = j.get("verification-results", {})
    if "Internal Verus Error" in err or "thread 'rustc'" in err and "panicked at" in err:
        res["status"], res["why"] = "undecided", "verus crashed (internal error): " + first_error(err[err.find("panicked at"):])[:200]
        return res
    if vr.get("encountered-vir-error") or ("verified" not in vr):
        res["status"], res["why"] = "undecided", "verus front-end / dialect error: " + first_error(err)
        return res
    fb = []
    for mt in j.get("times-ms", {}).get("smt", {}).get("smt-run-module-times", []):
        fb.extend(mt.get("function-breakdown", []))
    failed_fns = sorted(set(f["function"].split("::", 1)[-1] for f in fb if not f.get("success")))
    res["solver_s"] = round(j.get("times-ms", {}).get("smt", {}).get("smt-run", 0) / 1000.0, 3)
    probes = [f for f in failed_fns if f.split("::")[-1].startswith("vacuity_probe")]
    real = [f for f in failed_fns if f not in probes]
    n_probe_decl = len(re.findall(r"proof fn vacuity_probe", text))
    res["verified"] = vr.get("verified", 0)
    res["errors"] = max(vr.get("errors", 0) - len(probes), 0)
    if "error[E" in err or ("error:" in err and vr.get("errors", 0) == 0 and not vr.get("success")):
        res["status"], res["why"] = "undecided", "rustc/verus error: " + first_error(err)
        return res
    if real or res["errors"] > 0:
        msgs = [m for m in error_blocks(err, info["line_map"], text) if not m["fn"].startswith("vacuity_probe")]
        if msgs and all("rlimit" in m["desc"] or "timed out" in m["desc"] for m in msgs):
            res["status"], res["why"] = "undecided", "solver resource limit: " + "; ".join(m["desc"][:160] for m in msgs[:2])
            return res
        if any("rlimit" in m["desc"] or "timed out" in m["desc"] for m in msgs) and not any(
                "not satisfied" in m["desc"] or "failed" in m["desc"] or "overflow" in m["desc"] for m in msgs):
            res["status"], res["why"] = "undecided", "solver resource limit: " + "; ".join(m["desc"] for m in msgs[:2])
            return res
        res["status"] = "failed"
        res["failed"] = [m for m in msgs if not m["fn"].startswith("vacuity_probe")] or \
                        [{"desc": "verus: " + f, "loc": gen, "fn": f} for f in real]
        return res
    if len(probes) != n_probe_decl or n_probe_decl == 0:
        res["status"], res["why"] = "undecided", "vacuity guard: probe(s) that must fail did not (%d of %d)" % (len(probes), n_probe_decl)
        return res
    if res["verified"] < 1:
        res["status"], res["why"] = "undecided", "zero obligations"
        return res
    res["status"] = "discharged"
    return res


def first_error(err):
    m = re.search(r"error[^\n]*\n[^\n]*", err)
    return m.group(0)[:300] if m else err[-300:]


def error_blocks(err, line_map, text=""):
    """One entry per Verus error: the function is the nearest preceding `fn` of the generated text (qualified by its
    `impl`), the code is the generated line the error points at, plus the clause Verus marks as failed."""
    res = []
    tlines = text.split("\n")
    blocks = re.split(r"(?m)^(?=error|warning)", err)
    for b in blocks:
        m = re.match(r"error: ([^\n]+)\n\s*--> ([^\n:]+):(\d+):(\d+)\n", b)
        if not m:
            continue
        msg, line = m.group(1), int(m.group(3))
        fn, k = "?", min(line, len(tlines)) - 1
        while k >= 0:
            mm = re.search(r"\bfn (\w+)", tlines[k])
            if mm and not tlines[k].lstrip().startswith("//"):
                fn = mm.group(1)
                break
            k -= 1
        while k >= 0 and fn != "?":
            mm = re.match(r"impl(?:<[^>]*>)?\s+(?:[\w:<>, ]+\s+for\s+)?(\w+)", tlines[k])
            if mm:
                fn = mm.group(1) + "::" + fn
                break
            if re.match(r"\}\s*$", tlines[k]) and k < line - 1 and not tlines[k].startswith(" "):
                break  # a top-level item ended between: free function
            k -= 1
        code = tlines[line - 1].strip() if 0 < line <= len(tlines) else ""
        clause = ""
        mm = re.search(r"\n\s*(\d+) \|\s*([^\n]*)\n\s*\|\s*-+ failed (?:precondition|this postcondition)?", b)
        if mm:
            clause = mm.group(2).strip()
        mm2 = re.search(r"\n\s*\|\s*\^+ failed this postcondition", b)
        if mm2 and not clause:
            clause = code
        desc = "verus.%s: %s: `%s`" % (fn, msg, code[:160])
        if clause and clause != code:
            desc += " clause `%s`" % clause[:160]
        res.append({"desc": desc, "loc": "generated line %d" % line, "fn": fn})
    return res
