//! Contracts for src/proto/streams/send.rs: what the application is allowed to put on the wire (C04),
//! identifier allocation (C04), resets (C17), the capacity API (C16), GOAWAY cut-off (C15).
#![allow(dead_code, unused_imports)]
use super::*;
use crate::proto::streams::state::State;
use crate::proto::streams::store::Resolve;
use crate::proto::streams::{peer, stream};
use crate::proto::MAX_WINDOW_SIZE;
use crate::verif_kani::{any_waker_slot, mk_headers, noop_waker, SymBuf};

pub(crate) fn mk_send(prioritize: Prioritize, next: Result<StreamId, StreamIdOverflow>, max_stream_id: StreamId, init_window_sz: WindowSize) -> Send {
    Send {
        next_stream_id: next,
        max_stream_id,
        init_window_sz,
        prioritize,
        is_push_enabled: true,
        is_extended_connect_protocol_enabled: false,
    }
}
pub(crate) fn send_ids(s: &Send) -> (Option<u32>, u32) {
    (s.next_stream_id.ok().map(|i| i.into()), s.max_stream_id.into())
}
pub(crate) fn send_prioritize(s: &Send) -> &Prioritize {
    &s.prioritize
}
pub(crate) fn send_prioritize_mut(s: &mut Send) -> &mut Prioritize {
    &mut s.prioritize
}
pub(crate) fn send_push_enabled(s: &Send) -> bool {
    s.is_push_enabled
}
pub(crate) fn send_set_push_enabled(s: &mut Send, v: bool) {
    s.is_push_enabled = v;
}

#[cfg(kani)]
pub(crate) fn any_send() -> Send {
    let next: u32 = kani::any();
    kani::assume(next >= 1 && next <= u32::MAX >> 1);
    let mx: u32 = kani::any();
    kani::assume(mx <= u32::MAX >> 1);
    let iw: u32 = kani::any();
    kani::assume(iw <= MAX_WINDOW_SIZE);
    mk_send(
        crate::proto::streams::prioritize::verif_kani::any_prioritize(),
        if kani::any() { Ok(StreamId::from(next)) } else { Err(StreamIdOverflow) },
        StreamId::from(mx),
        iw,
    )
}

/// Stand-in for `Send::check_headers` on the EMPTY field section the state-machine harnesses use (the real
/// body hashes five header names; `send_check_headers` verifies it separately): always `Ok`.
#[cfg(kani)]
fn stub_check_headers_empty(_fields: &http::HeaderMap) -> Result<(), UserError> {
    Ok(())
}

#[cfg(kani)]
mod proofs {
    use super::*;
    use crate::proto::streams::counts::verif_kani::{any_counts, any_peer, forget_counts, raw_counts};
    use crate::proto::streams::flow_control::verif_kani::{mk_flow, raw};
    use crate::proto::streams::prioritize::verif_kani::{data_frame, pending_open_is_empty, pending_send_is_empty, prio_flow, prio_max_buffer, wf_send, PFrame};
    use crate::proto::streams::state::verif_kani::{abs, any_state, any_state_light, cause_sig, mk_state, rfc_closed, rfc_send_closed, rfc_send_end_stream, rfc_send_headers, Abs};
    use crate::proto::streams::store::verif_kani::{peek, peek_mut, put};
    use crate::proto::streams::stream::verif_kani::{any_stream_with_state, has_send_task, set_send_task, spec_capacity};
    use crate::verif_kani::{any_initiator, any_stream_id, ini};

    fn world(state: State, idv: u32) -> (Store, store::Key, Send) {
        let mut st = any_stream_with_state(StreamId::from(idv), state);
        st.is_pending_send = false;
        st.is_pending_send_capacity = false;
        st.is_pending_open = false;
        st.is_pending_accept = false;
        st.is_pending_window_update = false;
        let mut store = Store::new();
        let key = put(&mut store, st);
        (store, key, any_send())
    }

    // ------------------------------------------------------------------ identifiers (C04, C15, C09)

    // open / reserve_local: ids strictly increase by two, keep parity, and once the space is exhausted
    // every further request is refused (never wraps).
    // @harness id=send_open_ids props=C04,C08 kind=complete tier=quick fn=Send::open,Send::reserve_local,Send::ensure_next_stream_id
    #[kani::proof]
    fn send_open_ids() {
        let mut s = any_send();
        let (next0, mx0) = send_ids(&s);
        let r = if kani::any() { s.open() } else { s.reserve_local() };
        let (next1, mx1) = send_ids(&s);
        assert!(mx1 == mx0, "send.open.cutoff_untouched");
        match next0 {
            Some(n) => {
                assert!(matches!(r, Ok(id) if id == StreamId::from(n)), "send.open.returns_next_id");
                let want = if n as u64 + 2 > (u32::MAX >> 1) as u64 { None } else { Some(n + 2) };
                assert!(next1 == want, "send.open.next_is_plus_two_or_exhausted");
            }
            None => {
                assert!(matches!(r, Err(UserError::OverflowedStreamId)), "send.open.exhausted_is_refused");
                assert!(next1.is_none(), "send.open.exhaustion_is_sticky");
            }
        }
        // a second allocation is strictly larger and of the same parity
        let r2 = s.open();
        if let (Ok(a), Ok(b)) = (&r, &r2) {
            let (a, b): (u32, u32) = ((*a).into(), (*b).into());
            assert!(b == a + 2, "send.open.strictly_increasing_same_parity");
        }
        kani::cover!(next0.is_some() && next1.is_none(), "cover.last_id");
        kani::cover!(r.is_err(), "cover.exhausted");
        std::mem::forget(s);
    }

    // @harness id=send_id_checks props=C09,C15,C04,C08 kind=complete tier=quick fn=Send::ensure_not_idle,Send::may_have_created_stream,Send::maybe_reset_next_stream_id,Send::recv_go_away,Send::init_window_sz,Send::is_extended_connect_protocol_enabled
    #[kani::proof]
    fn send_id_checks() {
        let mut s = any_send();
        let (next0, mx0) = send_ids(&s);
        let id = any_stream_id();
        let idv: u32 = id.into();
        let e = s.ensure_not_idle(id);
        match next0 {
            Some(n) => assert!(e.is_ok() == (idv < n) && (e.is_ok() || e == Err(Reason::PROTOCOL_ERROR)), "send.ensure_not_idle.idle_iff_ge_next"),
            None => assert!(e.is_ok(), "send.ensure_not_idle.nothing_idle_after_exhaustion"),
        }
        if let Some(n) = next0 {
            kani::assume(idv != 0 && n % 2 == idv % 2); // requires (debug_assert): callers checked Peer::is_local_init
            assert!(s.may_have_created_stream(id) == (idv < n), "send.may_have_created_stream.iff_below_next");
            s.maybe_reset_next_stream_id(id);
            let (next1, _) = send_ids(&s);
            let want = if idv >= n { if idv as u64 + 2 > (u32::MAX >> 1) as u64 { None } else { Some(idv + 2) } } else { Some(n) };
            assert!(next1 == want, "send.maybe_reset_next_stream_id.only_grows");
        }
        // GOAWAY from the peer: the cut-off never increases; an increase is a connection error
        let last = any_stream_id();
        let lastv: u32 = last.into();
        let r = s.recv_go_away(last);
        let (_, mx1) = send_ids(&s);
        if lastv > mx0 {
            assert!(matches!(r, Err(ref e) if crate::verif_kani::sig(e) == (1, 0, 1, 1, 0)), "send.recv_go_away.increase_is_conn_protocol_error");
            assert!(mx1 == mx0, "send.recv_go_away.increase_changes_nothing");
        } else {
            assert!(r.is_ok() && mx1 == lastv, "send.recv_go_away.cutoff_recorded");
        }
        kani::cover!(r.is_err(), "cover.increase");
        kani::cover!(r.is_ok() && lastv < mx0, "cover.lowered");
        std::mem::forget(r);
        std::mem::forget(s);
    }

    // ------------------------------------------------------------------ HEADERS / trailers (C04, C05, C06)

    // send_headers with an empty field section: illegal state => Err(UnexpectedFrameType), nothing
    // queued, state untouched; legal => RFC successor state, exactly one HEADERS frame at the back; a
    // locally initiated stream (not a pushed one) is parked on pending_open (NOT pending_send) until a
    // concurrency slot is free, and the connection task is woken.
    // @harness id=send_send_headers props=C04,C05,C06,C13,C08 kind=complete tier=quick fn=Send::send_headers timeout=600
    #[kani::proof]
    #[kani::unwind(3)]
    #[kani::stub(crate::proto::streams::send::Send::check_headers, stub_check_headers_empty)]
    fn send_send_headers() {
        let peer = any_peer();
        let local: bool = kani::any();
        // stream id with the initiator parity chosen by `local`
        let idv: u32 = if (peer == peer::Dyn::Server) == local { 2 } else { 1 };
        let (mut store, key, mut s) = world(any_state_light(), idv);
        let mut counts = any_counts(peer);
        let c0 = raw_counts(&counts);
        let mut buffer: Buffer<PFrame> = Buffer::new();
        let eos: bool = kani::any();
        let (a0, pushed) = {
            let st = peek(&store, key).unwrap();
            (abs(&st.state), st.is_pending_push)
        };
        let mut task = any_waker_slot();
        let had_task = task.is_some();
        let f = mk_headers(StreamId::from(idv), eos, false);
        let mut ptr = store.resolve(key);
        let r = s.send_headers(f, &mut buffer, &mut ptr, &mut counts, &mut task);
        let s1 = peek_mut(&mut store, key).unwrap();
        assert!(raw_counts(&counts) == c0, "send.send_headers.counters_untouched_until_admission");
        match rfc_send_headers(a0, eos) {
            None => {
                assert!(matches!(r, Err(UserError::UnexpectedFrameType)), "send.send_headers.illegal_state_refused");
                assert!(abs(&s1.state) == a0 && s1.pending_send.is_empty() && buffer.is_empty(), "send.send_headers.refusal_queues_nothing");
                assert!(!s1.is_pending_open && !s1.is_pending_send && task.is_some() == had_task, "send.send_headers.refusal_schedules_nothing");
            }
            Some(next) => {
                assert!(r.is_ok() && abs(&s1.state) == next, "send.send_headers.legal_goes_to_rfc_successor");
                let park = local && !pushed;
                assert!(s1.is_pending_open == park, "send.send_headers.local_stream_waits_for_a_concurrency_slot");
                assert!(s1.is_pending_send == (!park && !pushed), "send.send_headers.scheduled_only_when_it_may_send");
                if park || !pushed {
                    assert!(task.is_none(), "send.send_headers.connection_task_woken");
                }
                let popped = s1.pending_send.pop_front(&mut buffer);
                assert!(matches!(popped, Some(Frame::Headers(ref h)) if h.is_end_stream() == eos && h.stream_id() == StreamId::from(idv)), "send.send_headers.exactly_this_headers_frame_queued");
                std::mem::forget(popped);
                assert!(s1.pending_send.is_empty() && buffer.is_empty(), "send.send_headers.exactly_one_frame");
            }
        }
        kani::cover!(r.is_ok() && local && !pushed, "cover.parked");
        kani::cover!(r.is_ok() && !local, "cover.response");
        kani::cover!(r.is_err(), "cover.refused");
        forget_counts(counts);
        std::mem::forget(store);
        std::mem::forget(buffer);
        std::mem::forget(s);
    }

    // send_trailers: only while the send half is streaming; closes it (END_STREAM travels with the
    // trailers); exactly one frame; unused capacity is returned.
    // @harness id=send_send_trailers props=C04,C16,C01,C08 kind=complete tier=quick fn=Send::send_trailers timeout=600
    #[kani::proof]
    #[kani::unwind(3)]
    #[kani::stub(crate::proto::streams::send::Send::check_headers, stub_check_headers_empty)]
    fn send_send_trailers() {
        let (mut store, key, mut s) = world(any_state_light(), 1);
        let mut counts = any_counts(any_peer());
        let mut buffer: Buffer<PFrame> = Buffer::new();
        {
            let st = peek_mut(&mut store, key).unwrap();
            kani::assume(wf_send(st));
            st.is_pending_push = false;
            kani::assume(st.buffered_send_data <= (u32::MAX as usize) / 2);
        }
        let (a0, av0, buffered) = {
            let st = peek(&store, key).unwrap();
            (abs(&st.state), raw(&st.send_flow).1, st.buffered_send_data)
        };
        let (_, ca0) = prio_flow(send_prioritize(&s));
        kani::assume(ca0 as i64 + av0 as i64 <= MAX_WINDOW_SIZE as i64);
        let mut task = any_waker_slot();
        let mut f = mk_headers(StreamId::from(1), true, false);
        let mut ptr = store.resolve(key);
        let r = s.send_trailers(f, &mut buffer, &mut ptr, &mut counts, &mut task);
        let s1 = peek_mut(&mut store, key).unwrap();
        let streaming = matches!(a0, Abs::Open { local: true, .. } | Abs::HalfClosedRemote(true));
        if !streaming {
            assert!(matches!(r, Err(UserError::UnexpectedFrameType)), "send.send_trailers.refused_unless_streaming");
            assert!(abs(&s1.state) == a0 && s1.pending_send.is_empty() && buffer.is_empty(), "send.send_trailers.refusal_changes_nothing");
        } else {
            assert!(r.is_ok() && Some(abs(&s1.state)) == rfc_send_end_stream(a0), "send.send_trailers.closes_send_half");
            let (_, av1) = raw(&s1.send_flow);
            let (_, ca1) = prio_flow(send_prioritize(&s));
            assert!(ca1 as i64 + av1 as i64 == ca0 as i64 + av0 as i64, "send.send_trailers.capacity_conserved");
            assert!((av1 as u64) <= buffered as u64 || av1 <= 0 || av1 == av0 && (av0 as u64) <= buffered as u64, "send.send_trailers.unused_capacity_returned");
            let popped = s1.pending_send.pop_front(&mut buffer);
            assert!(matches!(popped, Some(Frame::Headers(ref h)) if h.is_end_stream()), "send.send_trailers.one_headers_frame_with_end_stream");
            std::mem::forget(popped);
            assert!(s1.pending_send.is_empty(), "send.send_trailers.exactly_one_frame");
        }
        kani::cover!(r.is_ok(), "cover.ok");
        kani::cover!(r.is_err(), "cover.refused");
        forget_counts(counts);
        std::mem::forget(store);
        std::mem::forget(buffer);
        std::mem::forget(s);
    }

    // ------------------------------------------------------------------ resets (C17, C04, C16)

    // send_reset on a stream with NOTHING queued:
    //  * already reset => nothing at all happens (no second RST_STREAM);
    //  * closed cleanly and flushed => state records the reset, but no frame (RST after END_STREAM both
    //    ways is pointless and the property says "none if it had already closed cleanly");
    //  * otherwise exactly one RST_STREAM(id, code) queued, state = Reset(id, code, initiator), all
    //    capacity back in the pool, all waiters woken.
    // @harness id=send_send_reset_empty_queue props=C17,C04,C16,C06,C07,C08 kind=complete tier=quick fn=Send::send_reset timeout=600
    #[kani::proof]
    #[kani::unwind(3)]
    fn send_send_reset_empty_queue() {
        let (mut store, key, mut s) = world(any_state_light(), 1);
        let mut counts = any_counts(any_peer());
        let mut buffer: Buffer<PFrame> = Buffer::new();
        let pending_open: bool = kani::any();
        {
            let st = peek_mut(&mut store, key).unwrap();
            kani::assume(wf_send(st));
            st.is_pending_push = false;
        }
        // a stream waiting for a slot has its HEADERS queued; that case is send_send_reset_pending_open
        let (a0, c0, av0) = {
            let st = peek(&store, key).unwrap();
            (abs(&st.state), cause_sig(&st.state), raw(&st.send_flow).1)
        };
        let (cw0, ca0) = prio_flow(send_prioritize(&s));
        kani::assume(ca0 as i64 + av0 as i64 <= MAX_WINDOW_SIZE as i64);
        let code: u32 = kani::any();
        let who = any_initiator();
        let mut task = any_waker_slot();
        let mut ptr = store.resolve(key);
        s.send_reset(Reason::from(code), who, &mut buffer, &mut ptr, &mut counts, &mut task);
        let s1 = peek_mut(&mut store, key).unwrap();
        let was_reset = rfc_closed(a0) && a0 != Abs::ClosedEnd;
        if was_reset {
            assert!(abs(&s1.state) == a0 && cause_sig(&s1.state) == c0, "send.send_reset.already_reset_state_untouched");
            assert!(s1.pending_send.is_empty() && buffer.is_empty() && !s1.is_pending_send, "send.send_reset.never_a_second_rst_stream");
        } else {
            assert!(cause_sig(&s1.state) == Some((0, 1, code, ini(who), 0)), "send.send_reset.state_records_code_and_initiator");
            assert!(s1.recv_task.is_none() && s1.push_task.is_none() && !has_send_task(s1), "send.send_reset.all_waiters_woken");
            if a0 == Abs::ClosedEnd {
                assert!(s1.pending_send.is_empty() && buffer.is_empty(), "send.send_reset.no_frame_after_clean_close");
            } else {
                let popped = s1.pending_send.pop_front(&mut buffer);
                assert!(matches!(popped, Some(Frame::Reset(ref r)) if r.stream_id() == StreamId::from(1) && r.reason() == Reason::from(code)), "send.send_reset.exactly_this_rst_stream_queued");
                std::mem::forget(popped);
                assert!(s1.pending_send.is_empty() && buffer.is_empty(), "send.send_reset.exactly_one_frame");
                assert!(s1.is_pending_send && task.is_none(), "send.send_reset.scheduled_and_connection_woken");
                let (_, av1) = raw(&s1.send_flow);
                let (cw1, ca1) = prio_flow(send_prioritize(&s));
                assert!(av1 == 0 && ca1 as i64 == ca0 as i64 + av0 as i64 && cw1 == cw0, "send.send_reset.capacity_returned_to_the_pool");
                assert!(s1.buffered_send_data == 0 && s1.requested_send_capacity == 0, "send.send_reset.unsent_data_forgotten");
            }
        }
        kani::cover!(was_reset, "cover.double_reset");
        kani::cover!(a0 == Abs::ClosedEnd, "cover.after_clean_close");
        kani::cover!(!rfc_closed(a0) && code > 13, "cover.live_unknown_code");
        forget_counts(counts);
        std::mem::forget(store);
        std::mem::forget(buffer);
        std::mem::forget(s);
    }

    // send_reset on a stream whose opening HEADERS are still queued (waiting for a concurrency slot):
    // the HEADERS stay in front, the RST_STREAM is queued right behind them (never RST on an idle stream).
    // @harness id=send_send_reset_pending_open props=C17,C04,C08 kind=complete tier=attempt fn=Send::send_reset timeout=3000
    #[kani::proof]
    #[kani::unwind(3)]
    fn send_send_reset_pending_open() {
        let (mut store, key, mut s) = world(mk_state(Abs::Open { local: true, remote: false }), 1);
        let mut counts = any_counts(any_peer());
        let mut buffer: Buffer<PFrame> = Buffer::new();
        {
            let st = peek_mut(&mut store, key).unwrap();
            kani::assume(wf_send(st));
            st.is_pending_push = false;
            // the queued opening frame: send_reset never looks at frame kinds, so a DATA frame with a marker
            // length stands in for the HEADERS frame (a real `Headers` value costs CBMC gigabytes)
            st.pending_send.push_back(&mut buffer, data_frame(StreamId::from(1), 4242, false).into());
        }
        {
            let mut ptr = store.resolve(key);
            crate::proto::streams::prioritize::verif_kani::prio_push_pending_open(send_prioritize_mut(&mut s), &mut ptr);
        }
        let av0 = raw(&peek(&store, key).unwrap().send_flow).1;
        let (_, ca0) = prio_flow(send_prioritize(&s));
        kani::assume(ca0 as i64 + av0 as i64 <= MAX_WINDOW_SIZE as i64);
        let code: u32 = kani::any();
        let mut task = any_waker_slot();
        let mut ptr = store.resolve(key);
        s.send_reset(Reason::from(code), Initiator::User, &mut buffer, &mut ptr, &mut counts, &mut task);
        let s1 = peek_mut(&mut store, key).unwrap();
        assert!(cause_sig(&s1.state) == Some((0, 1, code, 0, 0)), "send.send_reset_pending_open.state_records_reset");
        assert!(s1.is_pending_open && !s1.is_pending_send, "send.send_reset_pending_open.still_waits_for_its_slot");
        let first = s1.pending_send.pop_front(&mut buffer);
        assert!(matches!(first, Some(Frame::Data(ref d)) if d.payload().rem == 4242), "send.send_reset_pending_open.headers_stay_first");
        std::mem::forget(first);
        let second = s1.pending_send.pop_front(&mut buffer);
        assert!(matches!(second, Some(Frame::Reset(ref r)) if r.reason() == Reason::from(code)), "send.send_reset_pending_open.rst_stream_right_behind_headers");
        std::mem::forget(second);
        assert!(s1.pending_send.is_empty() && buffer.is_empty(), "send.send_reset_pending_open.exactly_two_frames");
        kani::cover!(code == 8, "cover.cancel");
        forget_counts(counts);
        std::mem::forget(store);
        std::mem::forget(buffer);
        std::mem::forget(s);
    }

    // schedule_implicit_reset (handle dropped / library decision): closed => nothing; else the reset is
    // scheduled with the given code, reserved-but-unused capacity returns to the pool, the stream is
    // put on pending_send so that pop_frame emits the RST_STREAM after the queued frames.
    // @harness id=send_schedule_implicit_reset props=C17,C16,C06,C08 kind=complete tier=quick fn=Send::schedule_implicit_reset timeout=600
    #[kani::proof]
    #[kani::unwind(3)]
    fn send_schedule_implicit_reset() {
        let (mut store, key, mut s) = world(any_state_light(), 1);
        let mut counts = any_counts(any_peer());
        {
            let st = peek_mut(&mut store, key).unwrap();
            kani::assume(wf_send(st));
            st.is_pending_push = false;
        }
        let (a0, c0, av0, buffered, ready) = {
            let st = peek(&store, key).unwrap();
            (abs(&st.state), cause_sig(&st.state), raw(&st.send_flow).1, st.buffered_send_data, st.is_send_ready())
        };
        let (_, ca0) = prio_flow(send_prioritize(&s));
        kani::assume(ca0 as i64 + av0 as i64 <= MAX_WINDOW_SIZE as i64);
        let code: u32 = kani::any();
        let mut task = any_waker_slot();
        let mut ptr = store.resolve(key);
        s.schedule_implicit_reset(&mut ptr, Reason::from(code), &mut counts, &mut task);
        let s1 = peek(&store, key).unwrap();
        let (_, av1) = raw(&s1.send_flow);
        let (_, ca1) = prio_flow(send_prioritize(&s));
        if rfc_closed(a0) {
            assert!(abs(&s1.state) == a0 && cause_sig(&s1.state) == c0 && av1 == av0 && ca1 == ca0 && !s1.is_pending_send, "send.schedule_implicit_reset.closed_is_noop");
        } else {
            assert!(s1.state.get_scheduled_reset() == Some(Reason::from(code)), "send.schedule_implicit_reset.code_recorded");
            assert!(ca1 as i64 + av1 as i64 == ca0 as i64 + av0 as i64, "send.schedule_implicit_reset.capacity_conserved");
            assert!(av1 as u64 == core::cmp::min(av0 as u64, buffered as u64) || buffered > 0, "send.schedule_implicit_reset.unused_reservation_returned");
            assert!(s1.is_pending_send == ready, "send.schedule_implicit_reset.scheduled_when_it_may_send");
            if ready {
                assert!(task.is_none(), "send.schedule_implicit_reset.connection_task_woken");
            }
        }
        kani::cover!(!rfc_closed(a0) && ready, "cover.scheduled");
        kani::cover!(rfc_closed(a0), "cover.closed");
        forget_counts(counts);
        std::mem::forget(store);
        std::mem::forget(s);
    }

    // WINDOW_UPDATE overflow on a stream => that stream is reset with FLOW_CONTROL_ERROR (stream error,
    // other streams unaffected), the error is returned.
    // @harness id=send_recv_stream_window_update_overflow props=C09,C02,C17,C08 kind=complete tier=attempt fn=Send::recv_stream_window_update timeout=3000
    #[kani::proof]
    #[kani::unwind(3)]
    fn send_recv_stream_window_update_overflow() {
        // a stream that can still send (the only kind whose window is updated): concrete shape, symbolic sub-state
        let (mut store, key, mut s) = world(mk_state(if kani::any() { Abs::Open { local: true, remote: kani::any() } } else { Abs::HalfClosedRemote(true) }), 1);
        let mut counts = any_counts(any_peer());
        let mut buffer: Buffer<PFrame> = Buffer::new();
        {
            let st = peek_mut(&mut store, key).unwrap();
            kani::assume(wf_send(st));
            st.is_pending_push = false;
        }
        let (a0, w0, av0, dead) = {
            let st = peek(&store, key).unwrap();
            (abs(&st.state), raw(&st.send_flow).0, raw(&st.send_flow).1, st.state.is_send_closed() && st.buffered_send_data == 0)
        };
        let (_, ca0) = prio_flow(send_prioritize(&s));
        kani::assume(ca0 as i64 + av0 as i64 <= MAX_WINDOW_SIZE as i64);
        let inc: u32 = kani::any();
        kani::assume(inc >= 1 && inc <= MAX_WINDOW_SIZE);
        let mut task = any_waker_slot();
        let mut ptr = store.resolve(key);
        let r = s.recv_stream_window_update(inc, &mut buffer, &mut ptr, &mut counts, &mut task);
        let s1 = peek_mut(&mut store, key).unwrap();
        let overflow = !dead && w0 as i64 + inc as i64 > MAX_WINDOW_SIZE as i64;
        assert!(r.is_err() == overflow, "send.recv_stream_window_update.err_iff_overflow");
        if overflow {
            assert!(r == Err(Reason::FLOW_CONTROL_ERROR), "send.recv_stream_window_update.flow_control_error");
            // not dead => not reset before (a reset stream is send-closed with nothing buffered after clear_queue)...
            if !(rfc_closed(a0) && a0 != Abs::ClosedEnd) {
                let fce: u32 = Reason::FLOW_CONTROL_ERROR.into();
                assert!(cause_sig(&s1.state) == Some((0, 1, fce, 1, 0)), "send.recv_stream_window_update.stream_reset_by_library");
            }
        }
        kani::cover!(overflow, "cover.overflow");
        kani::cover!(r.is_ok() && !dead, "cover.ok");
        forget_counts(counts);
        std::mem::forget(store);
        std::mem::forget(buffer);
        std::mem::forget(s);
    }

    // ------------------------------------------------------------------ capacity API (C16, C06, C07)

    // poll_capacity: never Ready(Some(Ok(0))); not streaming => Ready(None) (never hangs); Pending =>
    // the waker is stored; Ready(n) => n == capacity() and the notification flag is consumed.
    // @harness id=send_poll_capacity props=C16,C06,C07,C08 kind=complete tier=quick fn=Send::poll_capacity,Send::capacity
    #[kani::proof]
    #[kani::unwind(3)]
    fn send_poll_capacity() {
        let (mut store, key, mut s) = world(any_state_light(), 1);
        {
            let st = peek_mut(&mut store, key).unwrap();
            set_send_task(st, None);
        }
        let (a0, av0, buffered, inc0) = {
            let st = peek(&store, key).unwrap();
            (abs(&st.state), raw(&st.send_flow).1, st.buffered_send_data, st.send_capacity_inc)
        };
        let cap = spec_capacity(av0, buffered, prio_max_buffer(send_prioritize(&s)));
        let w = noop_waker();
        let cx = Context::from_waker(&w);
        let mut ptr = store.resolve(key);
        assert!(s.capacity(&mut ptr) as u64 == cap, "send.capacity.is_stream_capacity");
        let p = s.poll_capacity(&cx, &mut ptr);
        let s1 = peek(&store, key).unwrap();
        let streaming = matches!(a0, Abs::Open { local: true, .. } | Abs::HalfClosedRemote(true));
        assert!(!matches!(p, Poll::Ready(Some(Ok(0)))), "send.poll_capacity.never_reports_zero");
        if !streaming {
            assert!(matches!(p, Poll::Ready(None)), "send.poll_capacity.ends_when_stream_can_no_longer_send");
        } else if inc0 && cap > 0 {
            assert!(matches!(p, Poll::Ready(Some(Ok(n))) if n as u64 == cap), "send.poll_capacity.reports_exactly_the_capacity");
            assert!(!s1.send_capacity_inc, "send.poll_capacity.notification_consumed");
        } else {
            assert!(p.is_pending() && has_send_task(s1), "send.poll_capacity.pending_stores_waker");
        }
        kani::cover!(matches!(p, Poll::Ready(Some(Ok(_)))), "cover.ready");
        kani::cover!(p.is_pending() && inc0, "cover.zero_capacity_race");
        kani::cover!(!streaming, "cover.ended");
        std::mem::forget(store);
        std::mem::forget(s);
    }

    // poll_reset: Ready with the exact code once the stream is reset; Pending stores the waker.
    // @harness id=send_poll_reset props=C17,C07,C06,C08 kind=complete tier=quick fn=Send::poll_reset
    #[kani::proof]
    fn send_poll_reset() {
        let s = any_send();
        let mut st = any_stream_with_state(StreamId::from(1), any_state_light());
        set_send_task(&mut st, None);
        let a0 = abs(&st.state);
        let c0 = cause_sig(&st.state);
        let w = noop_waker();
        let cx = Context::from_waker(&w);
        let p = s.poll_reset(&cx, &mut st, PollReset::Streaming);
        match c0 {
            Some((_, _, code, _, _)) => assert!(matches!(p, Poll::Ready(Ok(r)) if r == Reason::from(code)), "send.poll_reset.ready_with_exact_code"),
            None => assert!(p.is_pending() && has_send_task(&st), "send.poll_reset.pending_stores_waker"),
        }
        kani::cover!(matches!(c0, Some((0, _, code, 2, _)) if code > 13), "cover.remote_unknown_code");
        kani::cover!(p.is_pending(), "cover.pending");
        std::mem::forget(p);
        std::mem::forget(st);
        std::mem::forget(s);
    }

    // ------------------------------------------------------------------ SETTINGS from the peer (C02, C14, C16)

    // apply_remote_settings with ONE stream in the store (bounded: the body loops over all streams).
    // RFC 9113 6.9.2: when INITIAL_WINDOW_SIZE changes by delta, every stream window the sender maintains
    // moves by exactly delta (possibly below zero).  A stream that can never emit DATA again (send half
    // closed AND nothing buffered) may be skipped; every other stream must be adjusted.  Capacity that
    // now exceeds the stream window goes back to the pool (conservation), so that assigned <= window+.
    // @harness id=send_apply_remote_settings props=C02,C14,C16,C08 kind=bounded bound=streams=1 tier=attempt fn=Send::apply_remote_settings timeout=5400
    #[kani::proof]
    #[kani::unwind(3)]
    fn send_apply_remote_settings() {
        let (mut store, key, mut s) = world(any_state_light(), 1);
        let mut counts = any_counts(any_peer());
        let mut buffer: Buffer<PFrame> = Buffer::new();
        {
            let st = peek_mut(&mut store, key).unwrap();
            kani::assume(wf_send(st));
            st.is_pending_push = false;
            kani::assume(st.ref_count > 0);
        }
        let (w0, av0, can_still_send, a0) = {
            let st = peek(&store, key).unwrap();
            (raw(&st.send_flow).0, raw(&st.send_flow).1, !(st.state.is_send_closed() && st.buffered_send_data == 0), abs(&st.state))
        };
        let (cw0, ca0) = prio_flow(send_prioritize(&s));
        kani::assume(ca0 as i64 + av0 as i64 <= cw0 as i64); // I-send-pool
        let old = s.init_window_sz();
        let val: u32 = kani::any();
        kani::assume(val <= MAX_WINDOW_SIZE); // Settings::load rejects larger values
        let lower: bool = kani::any();
        kani::assume(if lower { val < old } else { val == old });
        let mut f = frame::Settings::default();
        f.set_initial_window_size(Some(val));
        let mut task = any_waker_slot();
        let r = s.apply_remote_settings(&f, &mut buffer, &mut store, &mut counts, &mut task);
        let delta = val as i64 - old as i64;
        assert!(s.init_window_sz() == val, "send.apply_remote_settings.new_streams_get_the_new_window");
        if let Some(s1) = peek(&store, key) {
            let (w1, av1) = raw(&s1.send_flow);
            let (cw1, ca1) = prio_flow(send_prioritize(&s));
            assert!(cw1 == cw0, "send.apply_remote_settings.connection_window_untouched");
            if r.is_ok() {
                if can_still_send {
                    assert!(w1 as i64 == w0 as i64 + delta, "send.apply_remote_settings.stream_window_moves_by_delta");
                } else {
                    assert!(w1 as i64 == w0 as i64 + delta || w1 == w0, "send.apply_remote_settings.dead_stream_moved_or_skipped");
                }
                assert!(ca1 as i64 + av1 as i64 == ca0 as i64 + av0 as i64, "send.apply_remote_settings.pool_plus_stream_conserved");
                assert!(av1 >= 0 && av1 as i64 <= (if w1 < 0 { 0 } else { w1 as i64 }) || !can_still_send, "send.apply_remote_settings.assigned_capacity_within_new_window");
            }
        }
        kani::cover!(r.is_ok() && lower && can_still_send && w0 as i64 + delta < 0, "cover.window_goes_negative");
        kani::cover!(r.is_ok() && lower && !can_still_send, "cover.dead_stream");
        std::mem::forget(r);
        forget_counts(counts);
        std::mem::forget(store);
        std::mem::forget(buffer);
        std::mem::forget(s);
    }
}
