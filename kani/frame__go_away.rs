//! Contracts for src/frame/go_away.rs (GOAWAY, RFC 9113 §6.8).
//!
//!   |R| Last-Stream-ID (31) | Error Code (32) | Additional Debug Data (*) |
//!
//! C12/C17: load(encode(g)) == g for every last_stream_id, ALL 2^32 error codes and the debug data
//!      (content compared for <= 8 octets: bounded; length/offsets for every length: complete); the frame
//!      is 9 + 8 + |debug| octets: length field = 8 + |debug|, type 7, no flags, stream 0.
//! C09: `load` fails IF AND ONLY IF the payload is shorter than 8 octets (FRAME_SIZE_ERROR); the reserved
//!      bit of Last-Stream-ID is ignored.
//!      NOT covered here: "GOAWAY with a stream identifier other than 0 is a connection error
//!      PROTOCOL_ERROR" — `GoAway::load` does not receive the head, see kani/codec__framed_read.rs.
//! C08: no payload panics.
#![allow(dead_code, unused_imports)]
use super::*;

pub(crate) fn mk_go_away(last_stream_id: StreamId, code: u32, debug_data: Bytes) -> GoAway {
    GoAway {
        last_stream_id,
        error_code: Reason::from(code),
        debug_data,
    }
}

#[cfg(kani)]
mod proofs {
    use super::*;
    use crate::frame::verif_kani::{
        any_payload, be32, err_class, spec_head_fields, E_SIZE, MIN_MAX_FRAME_SIZE, T_GOAWAY, WIRE_MAX,
    };
    use crate::verif_kani::any_stream_id;
    use bytes::BytesMut;

    const DEBUG_MAX: usize = 8;

    // @harness id=go_away_roundtrip props=C12,C17,C08 kind=bounded bound=debug<=8B tier=quick fn=GoAway::encode,GoAway::load,GoAway::new,GoAway::with_debug_data,GoAway::last_stream_id,GoAway::reason,GoAway::debug_data
    #[kani::proof]
    #[kani::unwind(3)]
    #[kani::stub(bytes::BytesMut::reserve_inner, crate::frame::verif_kani::sink_must_not_grow)]
    fn go_away_roundtrip() {
        // unwind 3: the only loop is `BufMut::put`'s `while src.has_remaining()` (one chunk).  Contents
        // are compared "for all offsets i" with a symbolic i instead of a memcmp loop.
        let i: usize = kani::any();
        let last = any_stream_id();
        let code: u32 = kani::any();
        // debug data: a `Bytes` over leaked memory (static vtable: clone/drop are no-ops) — what a `Bytes`
        // is backed by is the bytes crate's business, the contract is about its content
        let dbg: &'static [u8; DEBUG_MAX] = Box::leak(Box::new(kani::any()));
        let dlen: usize = kani::any();
        kani::assume(dlen <= DEBUG_MAX);
        // the two constructors
        let g = if dlen == 0 && kani::any() {
            GoAway::new(last, Reason::from(code))
        } else {
            GoAway::with_debug_data(last, Reason::from(code), Bytes::from_static(&dbg[..dlen]))
        };
        assert!(
            g.last_stream_id() == last && u32::from(g.reason()) == code && g.debug_data().len() == dlen,
            "go_away.new.fields"
        );

        // sink: the BytesMut FramedWrite uses, with room for the frame (stub: see sink_must_not_grow)
        let mut dst = BytesMut::with_capacity(64);
        g.encode(&mut dst);

        assert!(dst.len() == 9 + 8 + dlen, "go_away.encode.writes_exactly_17_plus_debug_octets");
        let (len, ty, fl, r, wid) = spec_head_fields(&dst[..9]);
        assert!(len == 8 + dlen && len == dst.len() - 9, "go_away.encode.length_field_is_payload_len");
        assert!(len <= MIN_MAX_FRAME_SIZE, "go_away.encode.within_every_peers_max_frame_size");
        assert!(ty == T_GOAWAY, "go_away.encode.type_is_7");
        assert!(fl == 0, "go_away.encode.no_flags");
        assert!(!r && wid == 0, "go_away.encode.stream_zero");
        assert!(be32(&dst[..], 9) == u32::from(last), "go_away.encode.last_stream_id_reserved_bit_zero");
        assert!(be32(&dst[..], 13) == code, "go_away.encode.error_code_big_endian_verbatim");
        if i < dlen {
            assert!(dst[17 + i] == dbg[i], "go_away.encode.debug_data_verbatim");
        }

        let head = Head::parse(&dst[..9]);
        assert!(head.kind() == Kind::GoAway && head.stream_id().is_zero(), "go_away.roundtrip.dispatched_as_goaway_on_stream_0");
        let back = GoAway::load(&dst[9..]);
        assert!(back.is_ok(), "go_away.roundtrip.own_frames_always_load");
        match &back {
            Ok(b) => {
                // == on GoAway is field-wise (derived); stated field by field
                assert!(b.last_stream_id() == g.last_stream_id() && b.last_stream_id() == last, "go_away.roundtrip.last_stream_id");
                assert!(b.reason() == g.reason() && u32::from(b.reason()) == code, "go_away.roundtrip.error_code");
                assert!(b.debug_data().len() == g.debug_data().len() && b.debug_data().len() == dlen, "go_away.roundtrip.debug_data_len");
                if i < dlen {
                    assert!(b.debug_data()[i] == g.debug_data()[i] && b.debug_data()[i] == dbg[i], "go_away.roundtrip.debug_data_content");
                }
            }
            Err(_) => {}
        }
        kani::cover!(dlen == DEBUG_MAX && code == 0xffff_ffff, "cover.full_debug_unknown_code");
        kani::cover!(dlen == 0 && u32::from(last) == 0x7fff_ffff, "cover.no_debug_max_id");
        kani::cover!(dlen == 3 && i == 2 && dbg[2] == 0x42, "cover.some_debug");
        // not dropped: releasing a heap-backed `Bytes` (pointer tagging in the bytes crate) is not under
        // contract here and is very expensive for CBMC
        std::mem::forget(back);
        std::mem::forget(dst);
    }

    // @harness id=go_away_load_validation props=C09,C08,C12,C17 kind=complete tier=quick fn=GoAway::load
    #[kani::proof]
    fn go_away_load_validation() {
        // every payload length, every content
        let buf = any_payload(WIRE_MAX);
        let n = buf.len();

        let r = GoAway::load(&buf[..]);

        assert!(r.is_err() == (n < 8), "go_away.load.err_iff_shorter_than_8");
        match &r {
            Ok(g) => {
                assert!(u32::from(g.last_stream_id()) == be32(&buf[..], 0) & 0x7fff_ffff, "go_away.load.last_stream_id_low_31_bits_reserved_ignored");
                assert!(u32::from(g.reason()) == be32(&buf[..], 4), "go_away.load.error_code_all_32_bits_verbatim");
                assert!(g.debug_data().len() == n - 8, "go_away.load.debug_data_is_the_rest_len");
                // for ALL offsets i (i symbolic): debug_data[i] == payload[8 + i]  — content equality
                // without a loop
                let i: usize = kani::any();
                if i < n - 8 {
                    assert!(g.debug_data()[i] == buf[8 + i], "go_away.load.debug_data_is_the_rest_content");
                }
                kani::cover!(i == 100_000 && i < n - 8 && buf[8 + i] == 7, "cover.debug_far_offset");
            }
            Err(e) => {
                assert!(err_class(e) == E_SIZE, "go_away.load.short_is_size_error");
                assert!(*e == Error::BadFrameSize, "go_away.load.short_is_bad_frame_size");
            }
        }
        kani::cover!(r.is_ok() && n == 8 && buf[0] & 0x80 != 0, "cover.ok_no_debug_reserved_bit_set");
        kani::cover!(r.is_ok() && n == WIRE_MAX, "cover.ok_longest");
        kani::cover!(r.is_err() && n == 7, "cover.short");
        // see go_away_roundtrip
        std::mem::forget(r);
        std::mem::forget(buf);
    }
}
