//! Contracts for src/frame/mod.rs (the `unpack_octets_4!` macro every fixed-size loader uses) and
//! helpers shared by the harness files of the frame codecs (`crate::frame::verif_kani::*`).
#![allow(dead_code, unused_imports)]
use super::*;

/// Largest payload a peer can announce: the length field has 24 bits (RFC 9113 §4.1).  The loop-free
/// loaders are checked for EVERY payload length 0..=WIRE_MAX with fully symbolic content.
pub(crate) const WIRE_MAX: usize = (1 << 24) - 1;

/// SETTINGS_MAX_FRAME_SIZE initial value = the largest payload every peer must accept (§4.2).
pub(crate) const MIN_MAX_FRAME_SIZE: usize = 16_384;

pub(crate) fn be32(b: &[u8], off: usize) -> u32 {
    u32::from_be_bytes([b[off], b[off + 1], b[off + 2], b[off + 3]])
}

/// Classification of `frame::Error` used by the validation-table contracts: the RFC distinguishes
/// *why* a frame is rejected (size / stream id / value), h2 has several variants per class.
/// 0 size, 1 stream id, 2 setting value, 3 window-update value, 4 dependency, 5 padding, 9 other
pub(crate) fn err_class(e: &Error) -> u8 {
    match e {
        Error::BadFrameSize | Error::InvalidPayloadLength | Error::InvalidPayloadAckSettings => 0,
        Error::InvalidStreamId => 1,
        Error::InvalidSettingValue => 2,
        Error::InvalidWindowUpdateValue => 3,
        Error::InvalidDependencyId => 4,
        Error::TooMuchPadding => 5,
        _ => 9,
    }
}

pub(crate) const E_SIZE: u8 = 0;
pub(crate) const E_STREAM_ID: u8 = 1;
pub(crate) const E_SETTING_VALUE: u8 = 2;
pub(crate) const E_WINDOW_UPDATE_VALUE: u8 = 3;
pub(crate) const E_DEPENDENCY: u8 = 4;
pub(crate) const E_PADDING: u8 = 5;

/// ANY payload a peer can send: symbolic length 0..=max and symbolic content at every offset.
///
/// How: a heap object of symbolic size that is never written.  In CBMC's memory model a fresh `malloc`
/// object has nondeterministic content and Kani (0.68, no `-Z uninit-checks`) reads it as such, so this
/// is "for all lengths, for all contents" at the price of one array-theory object — a `[u8; N]` from
/// `kani::any()` is bit-blasted (N = 2^24 runs out of memory, N = 2^20 is fine but bounds the length).
/// `frame_any_payload_is_free` below re-checks on every run that the content really is unconstrained
/// and stable between reads; should a future Kani reject the uninitialised read, every user of this
/// function FAILS loudly (never a silent pass).
#[cfg(kani)]
pub(crate) fn any_payload(max: usize) -> Vec<u8> {
    let n: usize = kani::any();
    kani::assume(n <= max);
    let mut v: Vec<u8> = Vec::with_capacity(n);
    // harness-only: see above
    unsafe { v.set_len(n) };
    v
}

/// ANY payload with a 'static lifetime (leaked), for `Bytes::from_static`.
#[cfg(kani)]
pub(crate) fn any_payload_static(max: usize) -> &'static [u8] {
    any_payload(max).leak()
}

/// Stub for the private slow path `bytes::BytesMut::reserve_inner` (growing / re-allocating the buffer),
/// used as `#[kani::stub(bytes::BytesMut::reserve_inner, crate::frame::verif_kani::sink_must_not_grow)]`.
/// It adds NO assumption: `BytesMut::reserve` only calls it when `additional > capacity - len`; the
/// harness sinks are created with more capacity than the largest frame written, so the real code never
/// gets there — and if it did, this stub panics, i.e. the harness FAILS.  Without it CBMC has to explore
/// the re-allocation code at every `put_*` whose length is symbolic (minutes instead of seconds).
#[cfg(kani)]
pub(crate) fn sink_must_not_grow(_this: &mut bytes::BytesMut, _additional: usize, _allocate: bool) -> bool {
    panic!("verif: harness sink too small, BytesMut would have to grow")
}

// ---------------------------------------------------------------- frame header (specification side)

/// RFC 9113 §6 type codes.
pub(crate) const T_DATA: u8 = 0;
pub(crate) const T_HEADERS: u8 = 1;
pub(crate) const T_PRIORITY: u8 = 2;
pub(crate) const T_RST_STREAM: u8 = 3;
pub(crate) const T_SETTINGS: u8 = 4;
pub(crate) const T_PUSH_PROMISE: u8 = 5;
pub(crate) const T_PING: u8 = 6;
pub(crate) const T_GOAWAY: u8 = 7;
pub(crate) const T_WINDOW_UPDATE: u8 = 8;
pub(crate) const T_CONTINUATION: u8 = 9;

/// Largest value of the 24-bit length field.
pub(crate) const MAX_LEN24: usize = (1 << 24) - 1;

/// The RFC's type table, written independently of `Kind::new` (used as the specification).
pub(crate) fn spec_kind(byte: u8) -> Kind {
    if byte == T_DATA {
        Kind::Data
    } else if byte == T_HEADERS {
        Kind::Headers
    } else if byte == T_PRIORITY {
        Kind::Priority
    } else if byte == T_RST_STREAM {
        Kind::Reset
    } else if byte == T_SETTINGS {
        Kind::Settings
    } else if byte == T_PUSH_PROMISE {
        Kind::PushPromise
    } else if byte == T_PING {
        Kind::Ping
    } else if byte == T_GOAWAY {
        Kind::GoAway
    } else if byte == T_WINDOW_UPDATE {
        Kind::WindowUpdate
    } else if byte == T_CONTINUATION {
        Kind::Continuation
    } else {
        Kind::Unknown
    }
}

/// Any of the 11 `Kind` values.
#[cfg(kani)]
pub(crate) fn any_kind() -> Kind {
    let b: u8 = kani::any();
    kani::assume(b <= 10);
    spec_kind(b)
}

/// A head as the read path produces it for a frame of type `kind` (what every `load` receives): any flag
/// octet, any 31-bit stream id.
#[cfg(kani)]
pub(crate) fn any_head_of(kind: Kind) -> Head {
    Head::new(kind, kani::any(), crate::verif_kani::any_stream_id())
}

/// Decoded view of 9 header octets, straight from RFC 9113 §4.1 (the specification side of the
/// round-trip contracts): (length, type, flags, reserved bit, stream id).
pub(crate) fn spec_head_fields(b: &[u8]) -> (usize, u8, u8, bool, u32) {
    let len = ((b[0] as usize) << 16) | ((b[1] as usize) << 8) | (b[2] as usize);
    let word = u32::from_be_bytes([b[5], b[6], b[7], b[8]]);
    (len, b[3], b[4], word >> 31 == 1, word & 0x7fff_ffff)
}

#[cfg(kani)]
mod proofs {
    use super::*;

    // @harness id=frame_unpack_octets_4 props=C12,C08 kind=complete tier=quick fn=unpack_octets_4
    #[kani::proof]
    fn frame_unpack_octets_4() {
        let buf: [u8; 10] = kani::any();
        let off: usize = kani::any();
        // requires: 4 octets available at the offset (every use is behind a length check)
        kani::assume(off <= 6);
        let v = unpack_octets_4!(buf, off, u32);
        assert!(v == be32(&buf, off), "frame.unpack_octets_4.is_big_endian_u32");
        assert!(v.to_be_bytes() == [buf[off], buf[off + 1], buf[off + 2], buf[off + 3]], "frame.unpack_octets_4.inverse_of_put_u32");
        kani::cover!(off == 6 && v == 0xdead_beef, "cover.offset_value");
    }

    // The payload generator itself: any length up to the 24-bit maximum, any two offsets can hold any
    // two values at once (content is free), and a byte read twice is the same byte (content is a value).
    // @harness id=frame_any_payload_is_free props=C08,C09,C12 kind=complete tier=quick
    #[kani::proof]
    fn frame_any_payload_is_free() {
        let v = any_payload(WIRE_MAX);
        let n = v.len();
        let (i, j): (usize, usize) = (kani::any(), kani::any());
        kani::cover!(n == 0, "cover.empty");
        kani::cover!(n == 1 && v[0] == 0x5a, "cover.one_octet");
        kani::assume(i < j && j < n);
        let (a, b) = (v[i], v[j]);
        assert!(v[i] == a && v[j] == b, "frame.any_payload.reads_are_stable");
        assert!(v.len() <= WIRE_MAX, "frame.any_payload.len_le_wire_max");
        kani::cover!(n == WIRE_MAX && i == 0 && j == WIRE_MAX - 1 && a == 0xab && b == 0xcd, "cover.longest_first_and_last_free");
        kani::cover!(j == i + 1 && a == 0 && b == 0xff, "cover.adjacent_free");
        std::mem::forget(v);
    }
}
