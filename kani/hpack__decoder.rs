//! Harness-side HELPERS for src/hpack/decoder.rs needed by the connection-level SETTINGS contracts
//! (observer only; the hpack work package may add contracts to this file).
#![allow(dead_code, unused_imports)]
use super::*;

// ---- connlevel helpers begin
impl Decoder {
    /// The SETTINGS_HEADER_TABLE_SIZE value queued by `queue_size_update` that the peer's next
    /// header block may use.
    pub(crate) fn vk_pending_max_size_update(&self) -> Option<usize> {
        self.max_size_update
    }
}
// ---- connlevel helpers end
