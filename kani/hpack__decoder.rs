//! Contracts for src/hpack/decoder.rs — property C11 ("HPACK decoding agrees with RFC 7541 on every
//! input, however split") and the decoder half of C10.
//!
//! The oracles in this file are written from RFC 7541, not from the code:
//!   * `rfc_decode_int`      §5.1  integer representation (pseudo code of the RFC, in u64)
//!   * `rfc_representation`  §6    first-octet patterns
//!   * `RefTable`            §4.1–§4.4 dynamic table size / eviction / §2.3.3 index space
//!   * `rfc_block`           §4.2 + §6.1 + §6.3 for the sub-language {indexed field, size update}
//!                           (kept for a future block-level harness; `Decoder::decode` on a non-empty
//!                           Cursor<&mut BytesMut> is currently intractable, see the end of this file)
//!   * `RFC_STATIC`          Appendix A
#![allow(dead_code, unused_imports)]
use super::*;

// ---- connlevel helpers begin
impl Decoder {
    /// The SETTINGS_HEADER_TABLE_SIZE value queued by `queue_size_update` that the peer's next
    /// header block may use.
    pub(crate) fn vk_pending_max_size_update(&self) -> Option<usize> {
        self.max_size_update
    }
}
// ---- connlevel helpers end


// ------------------------------------------------------------------ RFC 7541 §5.1

pub(crate) enum RefInt {
    /// (value, octets consumed)
    Value(u64, usize),
    /// the buffer ends before an octet with the continuation flag clear
    NeedMore,
}

/// RFC 7541 §5.1 "decode I from the next N bits ..." on `bytes[..n]`, `1 <= p <= 8`, `n <= 8`
/// (so that the value fits u64: 255 + 7 * 7 bits).
pub(crate) fn rfc_decode_int(bytes: &[u8], n: usize, p: u8) -> RefInt {
    if n == 0 {
        return RefInt::NeedMore;
    }
    let full: u64 = (1u64 << p) - 1;
    let mut i: u64 = (bytes[0] as u64) & full;
    if i < full {
        return RefInt::Value(i, 1);
    }
    let mut m: u32 = 0;
    let mut k: usize = 1;
    while k < n {
        let b = bytes[k];
        i += ((b & 127) as u64) << m;
        m += 7;
        k += 1;
        if b & 128 == 0 {
            return RefInt::Value(i, k);
        }
    }
    RefInt::NeedMore
}

/// The real `decode_int` on a byte slice, for harnesses of sibling modules (encoder round trip):
/// (result, octets consumed).
pub(crate) fn vk_decode_int(bytes: &[u8], p: u8) -> (Result<usize, DecoderError>, usize) {
    let mut b: &[u8] = bytes;
    let r = decode_int(&mut b, p);
    (r, bytes.len() - b.len())
}

/// h2's documented implementation limit (§5.1 allows one): the prefix octet plus at most this many
/// continuation octets.  255 + (2^28 - 1) < 2^32, so a conforming result fits `usize` on every target.
pub(crate) const MAX_CONT_OCTETS: usize = 4;

// ------------------------------------------------------------------ RFC 7541 §6

/// 0 indexed (§6.1), 1 literal with incremental indexing (§6.2.1), 2 literal without indexing
/// (§6.2.2), 3 literal never indexed (§6.2.3), 4 dynamic table size update (§6.3)
pub(crate) fn rfc_representation(b: u8) -> u8 {
    if b >> 7 == 0b1 {
        0
    } else if b >> 6 == 0b01 {
        1
    } else if b >> 5 == 0b001 {
        4
    } else if b >> 4 == 0b0001 {
        3
    } else {
        2 // 0000xxxx
    }
}

pub(crate) fn repr_code(r: &Representation) -> u8 {
    match r {
        Representation::Indexed => 0,
        Representation::LiteralWithIndexing => 1,
        Representation::LiteralWithoutIndexing => 2,
        Representation::LiteralNeverIndexed => 3,
        Representation::SizeUpdate => 4,
    }
}

// ------------------------------------------------------------------ dynamic table model (§4)

/// Table entries for the harnesses.  Only `Header::len()` matters to the table, so the entries are the
/// cheapest headers to build, clone and drop under CBMC (no `Bytes` inside: dropping a `Bytes` that was
/// read back from the VecDeque makes CBMC explore every vtable): sizes 42, 43, 44, 45, 46 (RFC 7541 §4.1:
/// name + value + 32).
pub(crate) const MAX_K: usize = 4;

pub(crate) fn mk_entry(k: usize) -> Header {
    match k {
        0 => Header::Status(StatusCode::OK),      // 7 + 3 + 32
        1 => Header::Method(Method::POST),        // 7 + 4 + 32
        2 => Header::Method(Method::PATCH),       // 7 + 5 + 32
        3 => Header::Method(Method::DELETE),      // 7 + 6 + 32
        _ => Header::Method(Method::OPTIONS),     // 7 + 7 + 32
    }
}

pub(crate) fn entry_size(k: usize) -> usize {
    42 + k
}

const FILL: &str = "aaaaaaaaaaaaaaaaaaaaaaaaaaaaaaaaaaaaaaaaaaaaaaaaaaaaaaaaaaaaaaaaaaaaaaaaaaaaaaaaaaaaaaaaaaaaaaaaaaaa\
aaaaaaaaaaaaaaaaaaaaaaaaaaaaaaaaaaaaaaaaaaaaaaaaaaaaaaaaaaaaaaaaaaaaaaaaaaaaaaaaaaaaaaaaaaaaaaaaaaaa";
pub(crate) const MAX_BIG_K: usize = 200;

/// An `:authority` entry whose value is `k <= 200` octets long: size = 10 + k + 32.  Loop-free (no
/// validation runs on `from_static`), so `k` may be symbolic; expensive to drop (thorough tier only).
pub(crate) fn mk_big_entry(k: usize) -> Header {
    Header::Authority(BytesStr::from_static(&FILL[..k]))
}

pub(crate) fn big_entry_size(k: usize) -> usize {
    10 + k + 32
}

pub(crate) const CAP: usize = 3;

/// §4: the table as the list of its entry sizes, newest first.
#[derive(Clone, Copy)]
pub(crate) struct RefTable {
    pub lens: [usize; CAP + 1],
    pub n: usize,
    pub max: usize,
}

impl RefTable {
    pub(crate) fn size(&self) -> usize {
        let mut s = 0;
        let mut i = 0;
        while i < self.n {
            s += self.lens[i];
            i += 1;
        }
        s
    }
    /// §4.3: evict from the end until size <= max
    pub(crate) fn set_max(&mut self, m: usize) {
        self.max = m;
        while self.size() > self.max {
            self.n -= 1;
        }
    }
    /// §4.4: evict until size <= max - new (or empty); add if it fits.  Requires n < CAP + 1 afterwards.
    pub(crate) fn insert(&mut self, l: usize) {
        while self.n > 0 && self.size() + l > self.max {
            self.n -= 1;
        }
        if l <= self.max {
            let mut i = self.n;
            while i > 0 {
                self.lens[i] = self.lens[i - 1];
                i -= 1;
            }
            self.lens[0] = l;
            self.n += 1;
        }
    }
}

/// Builds the real table for the model `r` whose entry count `r.n` is a *concrete* number at every call
/// site (the harnesses dispatch over 0..=CAP): the VecDeque then has a concrete shape.
pub(crate) fn mk_table(r: &RefTable, ks: &[usize; CAP]) -> Table {
    let mut entries = VecDeque::with_capacity(CAP + 1);
    let mut i = 0;
    while i < r.n {
        entries.push_back(mk_entry(ks[i]));
        i += 1;
    }
    Table {
        entries,
        size: r.size(),
        max_size: r.max,
    }
}

/// Any well-formed decoder table with exactly `n <= CAP` entries (sizes 42..=46) and any limit that the
/// call sites can produce: `Decoder::new(4096)` and `queue_size_update(u32 as usize)` bound max_size by
/// u32::MAX; I-tab: `size == sum of entry sizes <= max_size`.
#[cfg(kani)]
pub(crate) fn any_table_n(n: usize) -> (Table, RefTable) {
    let mut r = RefTable {
        lens: [0; CAP + 1],
        n,
        max: kani::any(),
    };
    let mut ks = [0usize; CAP];
    let mut i = 0;
    while i < n {
        let k: usize = kani::any();
        kani::assume(k <= MAX_K);
        ks[i] = k;
        r.lens[i] = entry_size(k);
        i += 1;
    }
    kani::assume(r.max <= u32::MAX as usize);
    kani::assume(r.size() <= r.max);
    (mk_table(&r, &ks), r)
}

/// real table == model: same number of entries, same sizes in the same order, same accounting
pub(crate) fn table_matches(t: &Table, r: &RefTable) -> bool {
    if t.entries.len() != r.n || t.max_size != r.max {
        return false;
    }
    let mut sum = 0;
    let mut i = 0;
    while i < r.n {
        let l = match t.entries.get(i) {
            Some(h) => h.len(),
            None => return false,
        };
        if l != r.lens[i] {
            return false;
        }
        sum += l;
        i += 1;
    }
    t.size == sum
}

// ------------------------------------------------------------------ block model (§4.2, §6.1, §6.3)

/// outcome classes of decoding a header block
pub(crate) const B_OK: u8 = 0;
pub(crate) const B_NEED_MORE: u8 = 1;
pub(crate) const B_BAD_SIZE_UPDATE: u8 = 2;
pub(crate) const B_BAD_INDEX: u8 = 3;
pub(crate) const B_INT_LIMIT: u8 = 4;
pub(crate) const B_OUT_OF_SCOPE: u8 = 9;
pub(crate) const B_OTHER: u8 = 8;

pub(crate) struct RefBlock {
    pub class: u8,
    /// fields emitted before the outcome
    pub fields: usize,
    /// offset of the first octet that is not part of a completely decoded representation
    pub pos: usize,
}

/// RFC 7541 decoding of `bytes[..n]` restricted to indexed fields and size updates.
/// `limit` is the §6.3 protocol limit (last acknowledged SETTINGS_HEADER_TABLE_SIZE);
/// `seen_field`: a field representation of this block has already been decoded (§4.2: an update is
/// only legal at the beginning of a block).
pub(crate) fn rfc_block(bytes: &[u8], n: usize, limit: usize, t: &mut RefTable, mut seen_field: bool) -> RefBlock {
    let mut pos = 0;
    let mut fields = 0;
    while pos < n {
        let b = bytes[pos];
        let kind = rfc_representation(b);
        if kind == 0 {
            match rfc_decode_int(&bytes[pos..], n - pos, 7) {
                RefInt::NeedMore => {
                    let class = if n - pos > MAX_CONT_OCTETS { B_INT_LIMIT } else { B_NEED_MORE };
                    return RefBlock { class, fields, pos };
                }
                RefInt::Value(v, c) => {
                    if c > 1 + MAX_CONT_OCTETS {
                        return RefBlock { class: B_INT_LIMIT, fields, pos };
                    }
                    // §2.3.3: 1..=61 static, 62.. dynamic; §6.1: 0 is a decoding error
                    if v == 0 || v > 61 + t.n as u64 {
                        return RefBlock { class: B_BAD_INDEX, fields, pos };
                    }
                    fields += 1;
                    seen_field = true;
                    pos += c;
                }
            }
        } else if kind == 4 {
            if seen_field {
                return RefBlock { class: B_BAD_SIZE_UPDATE, fields, pos };
            }
            match rfc_decode_int(&bytes[pos..], n - pos, 5) {
                RefInt::NeedMore => {
                    let class = if n - pos > MAX_CONT_OCTETS { B_INT_LIMIT } else { B_NEED_MORE };
                    return RefBlock { class, fields, pos };
                }
                RefInt::Value(v, c) => {
                    if c > 1 + MAX_CONT_OCTETS {
                        return RefBlock { class: B_INT_LIMIT, fields, pos };
                    }
                    if v > limit as u64 {
                        return RefBlock { class: B_BAD_SIZE_UPDATE, fields, pos };
                    }
                    t.set_max(v as usize);
                    pos += c;
                }
            }
        } else {
            return RefBlock { class: B_OUT_OF_SCOPE, fields, pos };
        }
    }
    RefBlock { class: B_OK, fields, pos }
}

pub(crate) fn class_of(r: &Result<(), DecoderError>) -> u8 {
    match r {
        Ok(()) => B_OK,
        Err(DecoderError::NeedMore(_)) => B_NEED_MORE,
        Err(DecoderError::InvalidMaxDynamicSize) => B_BAD_SIZE_UPDATE,
        Err(DecoderError::InvalidTableIndex) => B_BAD_INDEX,
        Err(DecoderError::IntegerOverflow) => B_INT_LIMIT,
        Err(_) => B_OTHER,
    }
}

pub(crate) fn mk_decoder(table: Table, last_ack: usize, queued: Option<usize>) -> Decoder {
    Decoder {
        max_size_update: queued,
        last_max_update: last_ack,
        table,
        buffer: BytesMut::new(),
    }
}

// ------------------------------------------------------------------ Appendix A

pub(crate) const RFC_STATIC: [(&str, &str); 61] = [
    (":authority", ""),
    (":method", "GET"),
    (":method", "POST"),
    (":path", "/"),
    (":path", "/index.html"),
    (":scheme", "http"),
    (":scheme", "https"),
    (":status", "200"),
    (":status", "204"),
    (":status", "206"),
    (":status", "304"),
    (":status", "400"),
    (":status", "404"),
    (":status", "500"),
    ("accept-charset", ""),
    ("accept-encoding", "gzip, deflate"),
    ("accept-language", ""),
    ("accept-ranges", ""),
    ("accept", ""),
    ("access-control-allow-origin", ""),
    ("age", ""),
    ("allow", ""),
    ("authorization", ""),
    ("cache-control", ""),
    ("content-disposition", ""),
    ("content-encoding", ""),
    ("content-language", ""),
    ("content-length", ""),
    ("content-location", ""),
    ("content-range", ""),
    ("content-type", ""),
    ("cookie", ""),
    ("date", ""),
    ("etag", ""),
    ("expect", ""),
    ("expires", ""),
    ("from", ""),
    ("host", ""),
    ("if-match", ""),
    ("if-modified-since", ""),
    ("if-none-match", ""),
    ("if-range", ""),
    ("if-unmodified-since", ""),
    ("last-modified", ""),
    ("link", ""),
    ("location", ""),
    ("max-forwards", ""),
    ("proxy-authenticate", ""),
    ("proxy-authorization", ""),
    ("range", ""),
    ("referer", ""),
    ("refresh", ""),
    ("retry-after", ""),
    ("server", ""),
    ("set-cookie", ""),
    ("strict-transport-security", ""),
    ("transfer-encoding", ""),
    ("user-agent", ""),
    ("vary", ""),
    ("via", ""),
    ("www-authenticate", ""),
];

pub(crate) fn bytes_eq(a: &[u8], b: &[u8]) -> bool {
    if a.len() != b.len() {
        return false;
    }
    let mut i = 0;
    while i < a.len() {
        if a[i] != b[i] {
            return false;
        }
        i += 1;
    }
    true
}

#[cfg(kani)]
mod proofs {
    use super::*;

    // RFC 7541 §5.1.  Every prefix size, every octet string of <= 6 octets (prefix + 5 continuation
    // octets: one more than the implementation limit, so that the limit itself is exercised).
    // Complete: the only loop is bounded by MAX_BYTES = 5 (operand-width bound), independent of the input.
    // @harness id=hpack_dec_decode_int props=C11,C10 kind=complete tier=quick fn=decode_int
    #[kani::proof]
    #[kani::unwind(8)]
    fn hpack_dec_decode_int() {
        let bytes: [u8; 6] = kani::any();
        let n: usize = kani::any();
        kani::assume(n <= 6);
        let p: u8 = kani::any();
        // requires: 1 <= p <= 8; the four call sites pass the literals 4, 5, 6, 7
        kani::assume(1 <= p && p <= 8);
        let mut buf: &[u8] = &bytes[..n];
        let r = decode_int(&mut buf, p);
        let consumed = n - buf.len();
        let spec = rfc_decode_int(&bytes, n, p);
        let (spec_done, spec_v, spec_c) = match spec {
            RefInt::Value(v, c) => (true, v, c),
            RefInt::NeedMore => (false, 0, 0),
        };

        // the encoding is longer than h2's limit: a full prefix and MAX_CONT_OCTETS flagged octets
        let full = if p == 8 { 0xffu8 } else { (1u8 << p) - 1 };
        let over_limit = n >= 1 + MAX_CONT_OCTETS
            && bytes[0] & full == full
            && bytes[1] & 128 != 0
            && bytes[2] & 128 != 0
            && bytes[3] & 128 != 0
            && bytes[4] & 128 != 0;

        let is_need_more = r == Err(DecoderError::NeedMore(NeedMore::IntegerUnderflow));
        let is_overflow = r == Err(DecoderError::IntegerOverflow);
        assert!(r.is_ok() || is_need_more || is_overflow, "hpack.decode_int.no_other_error");
        if let Ok(v) = r {
            assert!(spec_done, "hpack.decode_int.ok_only_if_terminated");
            assert!(v as u64 == spec_v, "hpack.decode_int.ok_value_is_rfc_value");
            assert!(consumed == spec_c, "hpack.decode_int.ok_consumes_exactly_the_encoding");
            assert!(v as u64 <= u32::MAX as u64, "hpack.decode_int.ok_fits_32_bits_no_wrap");
        }
        if is_need_more {
            assert!(!spec_done, "hpack.decode_int.need_more_only_if_unterminated");
            assert!(consumed == n, "hpack.decode_int.need_more_read_everything");
        }
        // §5.1: "Integer encodings that exceed implementation limits -- in value or octet length -- MUST
        // be treated as decoding errors."  Exactly the over-long encodings, nothing shorter.
        assert!(is_overflow == over_limit, "hpack.decode_int.overflow_iff_past_the_octet_limit");
        // completeness of acceptance: every terminated encoding within the limit is accepted
        assert!(r.is_ok() == (spec_done && spec_c <= 1 + MAX_CONT_OCTETS), "hpack.decode_int.accepts_iff_terminated_within_limit");

        kani::cover!(matches!(r, Ok(v) if v > 255 + (1 << 21)) && p == 8, "cover.four_continuation_octets_prefix_8");
        kani::cover!(matches!(r, Ok(v) if v == 1) && p == 1 && consumed == 2, "cover.prefix_1_multi");
        kani::cover!(is_overflow && spec_done, "cover.overflow_of_a_terminated_6_octet_encoding");
        kani::cover!(is_need_more && n == 3, "cover.need_more_mid_int");
    }

    // Defensive arm: an out-of-range prefix size is refused and nothing is consumed.
    // @harness id=hpack_dec_decode_int_bad_prefix props=C11 kind=complete tier=quick fn=decode_int
    #[kani::proof]
    #[kani::unwind(8)]
    fn hpack_dec_decode_int_bad_prefix() {
        let bytes: [u8; 3] = kani::any();
        let p: u8 = kani::any();
        kani::assume(p == 0 || p > 8);
        let mut buf: &[u8] = &bytes[..];
        let r = decode_int(&mut buf, p);
        assert!(r == Err(DecoderError::InvalidIntegerPrefix), "hpack.decode_int.bad_prefix_refused");
        assert!(buf.len() == 3, "hpack.decode_int.bad_prefix_consumes_nothing");
        kani::cover!(p == 0, "cover.zero");
        kani::cover!(p == 9, "cover.nine");
    }

    // RFC 7541 §6: all 256 first octets.
    // @harness id=hpack_dec_representation_load props=C11 kind=complete tier=quick fn=Representation::load
    #[kani::proof]
    fn hpack_dec_representation_load() {
        let b: u8 = kani::any();
        let r = Representation::load(b);
        // the five patterns of §6 partition the octet space
        assert!(r.is_ok(), "hpack.representation.every_octet_is_a_representation");
        let code = match r {
            Ok(ref k) => repr_code(k),
            Err(_) => 99,
        };
        assert!(code == rfc_representation(b), "hpack.representation.matches_rfc_section_6");
        kani::cover!(matches!(r, Ok(Representation::LiteralWithoutIndexing)), "cover.literal_without");
        kani::cover!(matches!(r, Ok(Representation::LiteralNeverIndexed)), "cover.literal_never");
        kani::cover!(matches!(r, Ok(Representation::SizeUpdate)), "cover.size_update");
    }

    // RFC 7541 §4.4 entry addition on any well-formed table with <= 2 entries of symbolic sizes.
    // Quick tier: the accounting fields (`size`, number of entries, `max_size`) against the §4.4 model;
    // with symbolic entry sizes a wrong eviction order or count changes `size`.  That `size` is also the
    // sum over the entries actually stored is re-read in the thorough twin below (reading entries back
    // after `push_front` costs CBMC minutes: the never-taken VecDeque::grow path is explored).
    // @harness id=hpack_dec_table_insert props=C11 kind=bounded bound=entries<=1 tier=quick fn=Table::insert,Table::reserve
    #[kani::proof]
    #[kani::unwind(4)]
    fn hpack_dec_table_insert() {
        let body = |n0: usize| {
            let (mut t, r0) = any_table_n(n0);
            let k: usize = kani::any();
            kani::assume(k <= MAX_K);
            let l = entry_size(k);
            t.insert(mk_entry(k));

            let mut r = r0;
            r.insert(l);
            let len = t.entries.len();
            assert!(t.size == r.size(), "hpack.dec_table.insert.size_is_rfc_4_4");
            assert!(len == r.n, "hpack.dec_table.insert.entry_count_is_rfc_4_4");
            assert!(t.max_size == r0.max, "hpack.dec_table.insert.max_unchanged");
            // the same, spelled out
            assert!(t.size <= t.max_size, "hpack.dec_table.insert.size_le_max");
            assert!((l > r0.max) == (len == 0), "hpack.dec_table.insert.empty_iff_oversize_entry");
            assert!(len <= r0.n + 1, "hpack.dec_table.insert.adds_one_and_only_evicts");
            // minimal eviction, oldest first: what stays is the new entry plus the newest old ones, and
            // one more old entry would not have fitted
            let kept = if len == 0 { 0 } else { len - 1 };
            let kept_sum = if kept == 0 { 0 } else if kept == 1 { r0.lens[0] } else { r0.lens[0] + r0.lens[1] };
            assert!(len == 0 || t.size == l + kept_sum, "hpack.dec_table.insert.keeps_the_newest_entries");
            assert!(len == 0 || kept >= r0.n || l + kept_sum + r0.lens[kept] > r0.max, "hpack.dec_table.insert.evicts_no_more_than_needed");
            kani::cover!(l > r0.max && r0.n == 1, "cover.oversize_empties_table");
            kani::cover!(l <= r0.max && r0.n == 1 && len == 1, "cover.evicts_the_old_entry");
            kani::cover!(r0.n == 1 && len == 2 && t.size == t.max_size, "cover.exact_fit_without_eviction");
            std::mem::forget(t);
        };
        if kani::any() {
            body(0)
        } else {
            body(1)
        }
    }

    // The same contract on a table with exactly 2 entries (an oversize entry cannot occur here: the
    // cheap entries are <= 46 octets; see hpack_dec_table_insert_oversize).
    // @harness id=hpack_dec_table_insert_2 props=C11 kind=bounded bound=entries==2 tier=quick fn=Table::insert,Table::reserve
    #[kani::proof]
    #[kani::unwind(4)]
    fn hpack_dec_table_insert_2() {
        let body = |n0: usize| {
            let (mut t, r0) = any_table_n(n0);
            let k: usize = kani::any();
            kani::assume(k <= MAX_K);
            let l = entry_size(k);
            t.insert(mk_entry(k));

            let mut r = r0;
            r.insert(l);
            let len = t.entries.len();
            assert!(t.size == r.size(), "hpack.dec_table.insert2.size_is_rfc_4_4");
            assert!(len == r.n, "hpack.dec_table.insert2.entry_count_is_rfc_4_4");
            assert!(t.max_size == r0.max, "hpack.dec_table.insert2.max_unchanged");
            // the same, spelled out
            assert!(t.size <= t.max_size, "hpack.dec_table.insert2.size_le_max");
            assert!((l > r0.max) == (len == 0), "hpack.dec_table.insert2.empty_iff_oversize_entry");
            assert!(len <= r0.n + 1, "hpack.dec_table.insert2.adds_one_and_only_evicts");
            // minimal eviction, oldest first: what stays is the new entry plus the newest old ones, and
            // one more old entry would not have fitted
            let kept = if len == 0 { 0 } else { len - 1 };
            let kept_sum = if kept == 0 { 0 } else if kept == 1 { r0.lens[0] } else { r0.lens[0] + r0.lens[1] };
            assert!(len == 0 || t.size == l + kept_sum, "hpack.dec_table.insert2.keeps_the_newest_entries");
            assert!(len == 0 || kept >= r0.n || l + kept_sum + r0.lens[kept] > r0.max, "hpack.dec_table.insert2.evicts_no_more_than_needed");
            kani::cover!(l <= r0.max && len == 1, "cover.evicts_both");
            kani::cover!(l <= r0.max && r0.n == 2 && len == 2, "cover.evicts_one_of_two");
            kani::cover!(r0.n == 2 && len == 3 && t.size == t.max_size, "cover.exact_fit_without_eviction");
            std::mem::forget(t);
        };
        body(2);
    }

    // Thorough twin: 2 or 3 entries, and the stored entries are read back (sizes, order, sum).
    // @harness id=hpack_dec_table_insert_deep props=C11 kind=bounded bound=entries<=3 tier=thorough timeout=1500 fn=Table::insert,Table::reserve
    #[kani::proof]
    #[kani::unwind(5)]
    fn hpack_dec_table_insert_deep() {
        let body = |n0: usize| {
            let (mut t, r0) = any_table_n(n0);
            let k: usize = kani::any();
            kani::assume(k <= MAX_K);
            let l = entry_size(k);
            t.insert(mk_entry(k));
            let mut r = r0;
            r.insert(l);
            assert!(table_matches(&t, &r), "hpack.dec_table.insert_deep.matches_rfc_4_4");
            assert!(t.size <= t.max_size && t.max_size == r0.max, "hpack.dec_table.insert_deep.size_le_max");
            let len = t.entries.len();
            assert!((l > r0.max) == (len == 0), "hpack.dec_table.insert_deep.empty_iff_oversize_entry");
            kani::cover!(r0.n == 3 && l <= r0.max && len == 2, "cover.evicts_two_of_three");
            kani::cover!(r0.n == 3 && len == 4, "cover.no_eviction");
            std::mem::forget(t);
        };
        if kani::any() {
            body(2)
        } else {
            body(3)
        }
    }

    // §4.4 last paragraph: "an attempt to add an entry larger than the maximum size causes the table to
    // be emptied of all existing entries and results in an empty table" — 2 existing entries, the new
    // entry is an `:authority` of symbolic size 42..=242.
    // @harness id=hpack_dec_table_insert_oversize props=C11 kind=bounded bound=entries==2 tier=thorough timeout=1500 fn=Table::insert,Table::reserve
    #[kani::proof]
    #[kani::unwind(4)]
    fn hpack_dec_table_insert_oversize() {
        let (mut t, r0) = any_table_n(2);
        let k: usize = kani::any();
        kani::assume(k <= MAX_BIG_K);
        let l = big_entry_size(k);
        t.insert(mk_big_entry(k));
        let mut r = r0;
        r.insert(l);
        let len = t.entries.len();
        assert!(t.size == r.size() && len == r.n, "hpack.dec_table.insert_oversize.matches_rfc_4_4");
        assert!(t.size <= t.max_size && t.max_size == r0.max, "hpack.dec_table.insert_oversize.size_le_max");
        assert!((l > r0.max) == (len == 0), "hpack.dec_table.insert_oversize.empty_iff_oversize_entry");
        assert!(l <= r0.max || t.size == 0, "hpack.dec_table.insert_oversize.oversize_entry_empties_table");
        kani::cover!(l > r0.max, "cover.oversize_empties_table_of_two");
        kani::cover!(l <= r0.max && len == 1, "cover.big_entry_evicts_both");
        std::mem::forget(t);
    }

    // RFC 7541 §4.3 / §6.3 maximum size change on any well-formed table with <= 3 entries of symbolic
    // sizes.  The `panic!` in consolidate is an implicit obligation.  Quick tier: accounting fields vs the
    // model; the thorough twin re-reads the entries.
    // @harness id=hpack_dec_table_set_max_size props=C11 kind=bounded bound=entries<=3 tier=quick fn=Table::set_max_size,Table::consolidate,Table::size
    #[kani::proof]
    #[kani::unwind(5)]
    fn hpack_dec_table_set_max_size() {
        let body = |n0: usize| {
            let (mut t, r0) = any_table_n(n0);
            let m: usize = kani::any();
            // requires m <= u32::MAX: process_size_update passes a decode_int result (fits 32 bits, above)
            kani::assume(m <= u32::MAX as usize);
            t.set_max_size(m);
            let mut r = r0;
            r.set_max(m);
            let kept = t.entries.len();
            assert!(t.size == r.size(), "hpack.dec_table.set_max_size.size_is_rfc_4_3");
            assert!(kept == r.n, "hpack.dec_table.set_max_size.entry_count_is_rfc_4_3");
            assert!(t.max_size == m, "hpack.dec_table.set_max_size.max_is_new_value");
            assert!(t.size <= m, "hpack.dec_table.set_max_size.size_le_max");
            assert!(t.size() == t.size, "hpack.dec_table.size.is_field");
            assert!(kept <= r0.n, "hpack.dec_table.set_max_size.only_evicts");
            // oldest first, and no more than needed
            let kept_sum = if kept == 0 {
                0
            } else if kept == 1 {
                r0.lens[0]
            } else if kept == 2 {
                r0.lens[0] + r0.lens[1]
            } else {
                r0.lens[0] + r0.lens[1] + r0.lens[2]
            };
            assert!(t.size == kept_sum, "hpack.dec_table.set_max_size.keeps_the_newest_entries");
            assert!(kept >= r0.n || kept_sum + r0.lens[kept] > m, "hpack.dec_table.set_max_size.evicts_no_more_than_needed");
            assert!(m != 0 || kept == 0, "hpack.dec_table.set_max_size.zero_clears");
            kani::cover!(r0.n == 3 && kept == 3 && m < r0.max, "cover.shrink_without_eviction");
            kani::cover!(r0.n == 3 && kept == 1 && t.size == m, "cover.evicts_two_exact_fit");
            kani::cover!(r0.n == 2 && kept == 0 && m > 0, "cover.evicts_all_nonzero");
            std::mem::forget(t);
        };
        let n: usize = kani::any();
        kani::assume(n <= 3);
        match n {
            0 => body(0),
            1 => body(1),
            2 => body(2),
            _ => body(3),
        }
    }

    // Thorough twin: the stored entries are read back (sizes, order, sum).
    // @harness id=hpack_dec_table_set_max_size_deep props=C11 kind=bounded bound=entries<=3 tier=thorough timeout=1500 fn=Table::set_max_size,Table::consolidate
    #[kani::proof]
    #[kani::unwind(5)]
    fn hpack_dec_table_set_max_size_deep() {
        let body = |n0: usize| {
            let (mut t, r0) = any_table_n(n0);
            let m: usize = kani::any();
            kani::assume(m <= u32::MAX as usize);
            t.set_max_size(m);
            let mut r = r0;
            r.set_max(m);
            assert!(table_matches(&t, &r), "hpack.dec_table.set_max_size_deep.matches_rfc_4_3");
            assert!(t.max_size == m && t.size <= m, "hpack.dec_table.set_max_size_deep.size_le_max");
            let kept = t.entries.len();
            kani::cover!(r0.n == 3 && kept == 1, "cover.evicts_two_of_three");
            kani::cover!(r0.n == 3 && kept == 3 && m < r0.max, "cover.shrink_without_eviction");
            std::mem::forget(t);
        };
        if kani::any() {
            body(2)
        } else {
            body(3)
        }
    }

    // RFC 7541 §2.3.3 index address space, §6.1: index 0 and indices past the end are decoding errors.
    // Any index (full usize) into a table with exactly 2 entries (one shape: the 61-arm static match is
    // explored once).
    // @harness id=hpack_dec_table_get props=C11 kind=bounded bound=entries==2 tier=quick fn=Table::get
    #[kani::proof]
    #[kani::unwind(16)]
    fn hpack_dec_table_get() {
        let (t, r0) = any_table_n(2);
        let index: usize = kani::any();
        let r = t.get(index);
        let bad_index = matches!(r, Err(DecoderError::InvalidTableIndex));
        let got = match r {
            Ok(ref h) => h.len(),
            Err(_) => 0,
        };
        let dynamic = index >= 62 && index - 62 < r0.n;
        assert!(index != 0 || bad_index, "hpack.dec_table.get.zero_is_error");
        assert!(!(1 <= index && index <= 61) || r.is_ok(), "hpack.dec_table.get.static_ok");
        assert!(!dynamic || got == r0.lens[if dynamic { index - 62 } else { 0 }], "hpack.dec_table.get.dynamic_newest_first");
        assert!(!(index >= 62 && !dynamic) || bad_index, "hpack.dec_table.get.past_end_is_error");
        assert!(r.is_ok() || bad_index, "hpack.dec_table.get.no_other_error");
        // the table is not modified
        assert!(table_matches(&t, &r0), "hpack.dec_table.get.table_unchanged");
        kani::cover!(index == 63 && r.is_ok(), "cover.oldest_of_two");
        kani::cover!(index == 64 && r.is_err(), "cover.first_past_end");
        kani::cover!(index == usize::MAX, "cover.huge_index");
        kani::cover!(index == 16 && got == 32 + 15 + 13, "cover.static_16");
        std::mem::forget(r);
        std::mem::forget(t);
    }

    // RFC 7541 Appendix A: every index 1..=61 (symbolic) yields exactly the name and value of the RFC.
    // Complete: the comparison loops are bounded by the longest name (27 octets) < 30.
    // @harness id=hpack_dec_static_table props=C11,C10 kind=complete tier=quick fn=get_static
    #[kani::proof]
    #[kani::unwind(30)]
    fn hpack_dec_static_table() {
        let i: usize = kani::any();
        // requires 1 <= idx <= 61: the only caller is Table::get, after `index == 0` / `index <= 61`
        kani::assume(1 <= i && i <= 61);
        let h = get_static(i);
        let (name, value) = RFC_STATIC[i - 1];
        assert!(bytes_eq(h.name().as_slice(), name.as_bytes()), "hpack.static_table.name_is_appendix_a");
        assert!(bytes_eq(h.value_slice(), value.as_bytes()), "hpack.static_table.value_is_appendix_a");
        assert!(h.len() == name.len() + value.len() + 32, "hpack.static_table.size_is_rfc_4_1");
        kani::cover!(i == 16, "cover.accept_encoding_gzip_deflate");
        kani::cover!(i == 61, "cover.last");
        std::mem::forget(h);
    }

    // §6.3 on the real `process_size_update`: the value is an RFC integer with a 5-bit prefix; above
    // the acknowledged limit it is a decoding error and the table is untouched; otherwise §4.3.
    // @harness id=hpack_dec_process_size_update props=C11 kind=bounded bound=entries<=1,input<=4B tier=quick fn=Decoder::process_size_update
    #[kani::proof]
    #[kani::unwind(8)]
    fn hpack_dec_process_size_update() {
        let body = |n0: usize| {
            let (t, r0) = any_table_n(n0);
            let limit: usize = kani::any();
            kani::assume(limit <= u32::MAX as usize);
            let mut de = mk_decoder(t, limit, None);
            let bytes: [u8; 4] = kani::any();
            let n: usize = kani::any();
            kani::assume(1 <= n && n <= 4);
            // requires: called on a size update representation (`decode` dispatches on Representation::load)
            kani::assume(rfc_representation(bytes[0]) == 4);
            let mut src = BytesMut::from(&bytes[..n]);
            let mut cur = Cursor::new(&mut src);
            let r = de.process_size_update(&mut cur);
            let consumed = cur.position() as usize;
            let (done, v, c) = match rfc_decode_int(&bytes, n, 5) {
                RefInt::Value(v, c) => (true, v, c),
                RefInt::NeedMore => (false, 0, 0),
            };
            let mut m = r0;
            if done && v <= limit as u64 {
                m.set_max(v as usize);
            }
            let above = done && v > limit as u64;
            assert!(!above || r == Err(DecoderError::InvalidMaxDynamicSize), "hpack.size_update.above_limit_is_error");
            assert!(done || matches!(r, Err(DecoderError::NeedMore(_))), "hpack.size_update.truncated_is_need_more");
            assert!((r == Ok(())) == (done && !above), "hpack.size_update.ok_iff_complete_and_within_limit");
            assert!(r.is_err() || consumed == c, "hpack.size_update.consumes_the_integer");
            // Ok: §4.3 applied; Err: table untouched (m == r0 then)
            assert!(table_matches(&de.table, &m), "hpack.size_update.table_is_rfc_4_3_or_untouched");
            assert!(r.is_err() || (de.table.size <= de.table.max_size && de.table.max_size <= limit), "hpack.size_update.table_within_limit");
            assert!(de.last_max_update == limit, "hpack.size_update.limit_unchanged");
            kani::cover!(r == Ok(()) && de.table.entries.len() < r0.n && consumed == 3, "cover.multi_octet_update_evicts");
            kani::cover!(r == Err(DecoderError::InvalidMaxDynamicSize), "cover.above_limit");
            kani::cover!(matches!(r, Err(DecoderError::NeedMore(_))), "cover.need_more");
            std::mem::forget(de);
            std::mem::forget(src);
        };
        if kani::any() {
            body(0)
        } else {
            body(1)
        }
    }

    // §6.3 "this limit is the last value of SETTINGS_HEADER_TABLE_SIZE received from the decoder and
    // acknowledged by the encoder".  `queue_size_update(v)` is called once per acknowledged SETTINGS frame
    // that carries the parameter (proto/settings.rs, Local::WaitingAck arm); `decode` moves the queued value
    // into `last_max_update`, the limit that `process_size_update` enforces (harness above).
    //
    // Precondition (I-single-table-size, from the call sites): nothing is queued yet.  h2 sends
    // SETTINGS_HEADER_TABLE_SIZE only in its initial SETTINGS frame (client/server `Builder::header_table_size`;
    // `Connection::set_initial_window_size` / `enable_connect_protocol` send frames without it), so at most one
    // acknowledgement per connection carries the parameter.  An earlier version of this contract queued two values
    // back to back and demanded "the last one wins"; `queue_size_update` keeps the larger one, which is a deviation
    // from RFC 7541 6.3 only in a history the library cannot produce — that was a false alarm of the check, not a
    // defect of h2 (see DESIGN.md, false alarms).
    // @harness id=hpack_dec_queue_size_update props=C11 kind=complete tier=quick fn=Decoder::queue_size_update
    #[kani::proof]
    fn hpack_dec_queue_size_update() {
        let (t, _r0) = any_table_n(0);
        let last: usize = kani::any();
        let mut de = mk_decoder(t, last, None);
        let a: u32 = kani::any();
        de.queue_size_update(a as usize);
        assert!(de.max_size_update == Some(a as usize), "hpack.queue_size_update.acknowledged_value_is_queued");
        assert!(de.last_max_update == last && de.table.max_size == _r0.max, "hpack.queue_size_update.nothing_else_changes");
        kani::cover!(a == 0, "cover.zero");
        kani::cover!(a > 4096, "cover.raised");
        std::mem::forget(de);
    }

    // `decode` on an empty block (a HEADERS frame with an empty fragment): the queued acknowledged limit
    // becomes the limit in force, nothing is emitted, the table is untouched.
    // (The block-level rules of §4.2 — size update only before the first field, also across a
    // HEADERS/CONTINUATION boundary — could NOT be harnessed: `decode` on a non-empty `Cursor<&mut BytesMut>`
    // does not finish symbolic execution within 25 minutes even for 1 octet, with `decode_literal` and
    // `take` stubbed; see the report.)
    // @harness id=hpack_dec_decode_empty_block props=C11 kind=complete tier=quick fn=Decoder::decode
    #[kani::proof]
    #[kani::unwind(2)]
    fn hpack_dec_decode_empty_block() {
        let (t, r0) = any_table_n(0);
        let last: usize = kani::any();
        let queued: Option<usize> = kani::any();
        let mut de = mk_decoder(t, last, queued);
        let mut src = BytesMut::new();
        let mut fields = 0usize;
        let r = de.decode(&mut Cursor::new(&mut src), |h| {
            fields += 1;
            std::mem::forget(h);
            ControlFlow::Continue(())
        });
        let limit = match queued {
            Some(q) => q,
            None => last,
        };
        assert!(r == Ok(()) && fields == 0, "hpack.decode_empty.ok_and_emits_nothing");
        assert!(de.last_max_update == limit && de.max_size_update.is_none(), "hpack.decode_empty.queued_limit_takes_effect");
        assert!(de.table.max_size == r0.max && de.table.size == 0, "hpack.decode_empty.table_untouched");
        kani::cover!(queued.is_some() && limit < last, "cover.limit_lowered");
        kani::cover!(queued.is_none(), "cover.nothing_queued");
        std::mem::forget(de);
        std::mem::forget(src);
    }
}
