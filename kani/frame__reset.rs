//! Contracts for src/frame/reset.rs (RST_STREAM, RFC 9113 §6.4).
//!
//! C12/C17: load(encode(r)) == r for every stream id and ALL 2^32 error codes (unknown codes are kept
//!      verbatim, §7); the frame is 9 + 4 octets: length 4, type 3, no flags.
//! C09: `load` fails IF AND ONLY IF length != 4 (FRAME_SIZE_ERROR).  The second RFC rule, "RST_STREAM on
//!      stream 0 is a connection error PROTOCOL_ERROR", is NOT decided by `Reset::load`; h2 decides it in
//!      proto::streams::Streams::recv_reset (`if id.is_zero()`), the contract there relies on
//!      `reset.load.stream_id_from_head` below (the id reaches that check unmodified).
//! C08: no input panics.
#![allow(dead_code, unused_imports)]
use super::*;

pub(crate) fn mk_reset(stream_id: StreamId, code: u32) -> Reset {
    Reset {
        stream_id,
        error_code: Reason::from(code),
    }
}

#[cfg(kani)]
mod proofs {
    use super::*;
    use crate::frame::verif_kani::{
        any_head_of, any_payload, be32, err_class, spec_head_fields, E_SIZE, MIN_MAX_FRAME_SIZE, T_RST_STREAM, WIRE_MAX,
    };
    use crate::verif_kani::any_stream_id;
    use bytes::BytesMut;

    // @harness id=reset_roundtrip props=C12,C17,C08 kind=complete tier=quick fn=Reset::encode,Reset::load,Reset::new,Reset::stream_id,Reset::reason
    #[kani::proof]
    fn reset_roundtrip() {
        // any id (callers only pass ids of real streams, i.e. != 0, but nothing here depends on it)
        let id = any_stream_id();
        let code: u32 = kani::any();
        let f = Reset::new(id, Reason::from(code));
        assert!(f.stream_id() == id && u32::from(f.reason()) == code, "reset.new.fields");

        let mut dst = BytesMut::with_capacity(32);
        f.encode(&mut dst);

        assert!(dst.len() == 9 + 4, "reset.encode.writes_exactly_13_octets");
        let (len, ty, fl, r, wid) = spec_head_fields(&dst[..9]);
        assert!(len == 4 && len == dst.len() - 9, "reset.encode.length_field_is_payload_len");
        assert!(len <= MIN_MAX_FRAME_SIZE, "reset.encode.within_every_peers_max_frame_size");
        assert!(ty == T_RST_STREAM, "reset.encode.type_is_3");
        assert!(fl == 0, "reset.encode.no_flags");
        assert!(!r && wid == u32::from(id), "reset.encode.stream_id");
        assert!(be32(&dst[..], 9) == code, "reset.encode.error_code_big_endian_verbatim");

        let head = Head::parse(&dst[..9]);
        assert!(head.kind() == Kind::Reset, "reset.roundtrip.dispatched_as_rst_stream");
        let back = Reset::load(head, &dst[9..]);
        assert!(back == Ok(f), "reset.roundtrip.load_of_encode_is_identity");
        if let Ok(b) = back {
            assert!(b.stream_id() == id && u32::from(b.reason()) == code, "reset.roundtrip.every_field");
        }
        kani::cover!(code == 0xffff_ffff, "cover.unknown_code_max");
        kani::cover!(code == 8 && u32::from(id) == 1, "cover.cancel");
        kani::cover!(code == 0, "cover.no_error");
        std::mem::forget(dst);
    }

    // @harness id=reset_load_validation props=C09,C08,C12,C17 kind=complete tier=quick fn=Reset::load
    #[kani::proof]
    fn reset_load_validation() {
        // all flags (RST_STREAM defines none: all ignored), all stream ids, all lengths, all contents
        let head = any_head_of(Kind::Reset);
        let buf = any_payload(WIRE_MAX);
        let n = buf.len();

        let r = Reset::load(head, &buf[..]);

        assert!(r.is_err() == (n != 4), "reset.load.err_iff_len_not_4");
        match &r {
            Ok(f) => {
                assert!(f.stream_id() == head.stream_id(), "reset.load.stream_id_from_head");
                assert!(u32::from(f.reason()) == be32(&buf[..], 0), "reset.load.error_code_all_32_bits_verbatim");
            }
            Err(e) => {
                assert!(err_class(e) == E_SIZE, "reset.load.len_not_4_is_size_error");
            }
        }
        kani::cover!(head.flag() == 0xff && matches!(&r, Ok(f) if u32::from(f.reason()) > 13), "cover.ok_flags_ignored_unknown_code");
        kani::cover!(r.is_ok() && head.stream_id().is_zero(), "cover.ok_stream_zero_left_to_recv_reset");
        kani::cover!(r.is_err() && n == 3, "cover.short");
        kani::cover!(r.is_err() && n == WIRE_MAX, "cover.longest");
        std::mem::forget(buf);
    }
}
