//! Contracts for src/client.rs — `client::Peer::convert_poll_message`, the last gate between a decoded response field
//! section and the application (C13).
//!
//! RFC 9113 §8.3.2: "For HTTP/2 responses, a single ":status" pseudo-header field is defined that carries the HTTP status
//! code field. This pseudo-header field MUST be included in all responses, including interim responses; otherwise, the
//! response is malformed."   §8.3: "Pseudo-header fields defined for requests MUST NOT appear in responses … Endpoints
//! MUST treat a request or response that contains undefined or invalid pseudo-header fields as malformed."   §8.1.1:
//! a malformed response is a stream error of type PROTOCOL_ERROR and is not handed to the application.
#![allow(dead_code, unused_imports)]
use super::*;

#[cfg(kani)]
mod proofs {
    use super::*;
    use crate::hpack::BytesStr;
    use http::StatusCode;
    use crate::verif_kani::sig;

    // Every combination of presence of the six pseudo-header fields (values fixed: presence is what the rule is about),
    // empty regular field section, any stream id.
    //   Ok(response)  ==>  :status was present and none of :method :scheme :authority :path :protocol was, and the
    //                      response carries exactly that status;
    //   otherwise     ==>  stream error PROTOCOL_ERROR on this stream.
    // @harness id=client_convert_poll_message_pseudo props=C13 kind=complete tier=quick timeout=600 fn=proto::Peer@Peer::convert_poll_message
    #[kani::proof]
    #[kani::unwind(4)]
    fn client_convert_poll_message_pseudo() {
        let (has_status, has_method, has_scheme, has_authority, has_path): (bool, bool, bool, bool, bool) = kani::any();
        let pseudo = Pseudo {
            method: if has_method { Some(Method::GET) } else { None },
            scheme: if has_scheme { Some(BytesStr::from_static("https")) } else { None },
            authority: if has_authority { Some(BytesStr::from_static("a")) } else { None },
            path: if has_path { Some(BytesStr::from_static("/")) } else { None },
            protocol: None,
            status: if has_status { Some(StatusCode::NO_CONTENT) } else { None },
        };
        let id = crate::verif_kani::any_stream_id();
        let idv: u32 = id.into();
        let r = <Peer as proto::Peer>::convert_poll_message(pseudo, HeaderMap::new(), id);
        let well_formed = has_status && !has_method && !has_scheme && !has_authority && !has_path;
        match &r {
            Ok(resp) => {
                assert!(has_status, "client.convert_poll_message.response_without_status_is_not_delivered");
                assert!(!has_method && !has_scheme && !has_authority && !has_path, "client.convert_poll_message.response_with_request_pseudo_fields_is_not_delivered");
                assert!(resp.status() == StatusCode::NO_CONTENT, "client.convert_poll_message.delivers_the_received_status");
            }
            Err(e) => {
                assert!(!well_formed, "client.convert_poll_message.well_formed_response_is_delivered");
                assert!(matches!(sig(e), (0, i, 1, 1, _) if i == idv), "client.convert_poll_message.malformed_is_stream_protocol_error");
            }
        }
        kani::cover!(well_formed && r.is_ok(), "cover.well_formed");
        kani::cover!(!has_status, "cover.no_status");
        std::mem::forget(r);
    }
}
