//! Contracts for src/hpack/table.rs (the encoder's dynamic table) — the size-accounting slice of C10:
//! `resize` / `converge` / `evict` keep `size <= max_size` with `size` the sum of the stored entries
//! (RFC 7541 §4.3: evict from the end until size <= max).  The robin-hood index (`index`, `index_dynamic`,
//! `index_vacant`, `index_occupied`, probe loops) is NOT under contract; it is only *used* here to build
//! a reachable, well-formed pre-state by the real insertion path.
#![allow(dead_code, unused_imports)]
use super::*;

/// Sum of the sizes of the stored entries and their count (reads the slots).
pub(crate) fn vk_slots_sum(t: &Table) -> (usize, usize) {
    let mut sum = 0;
    let mut i = 0;
    let n = t.slots.len();
    while i < n {
        if let Some(s) = t.slots.get(i) {
            sum += s.header.len();
        }
        i += 1;
    }
    (sum, n)
}

/// A two-entry table written down field by field, in the state that two `index` calls on an empty
/// `Table::new(4096, 0)` leave behind for two headers with different names whose hashes are `h_old` and
/// `h_new` with different home buckets (no displacement): raw capacity 8, `inserted == 2`, the older
/// entry is slot 1 (`Pos::index == 1 - inserted`), the newer slot 0.
pub(crate) fn vk_two_entry_table(old: Header, new: Header, h_old: usize, h_new: usize) -> Table {
    let size = old.len() + new.len();
    let mut indices: Vec<Option<Pos>> = vec![None; 8];
    indices[h_old & 7] = Some(Pos {
        index: 1usize.wrapping_sub(2),
        hash: HashValue(h_old),
    });
    indices[h_new & 7] = Some(Pos {
        index: 0usize.wrapping_sub(2),
        hash: HashValue(h_new),
    });
    let mut slots = VecDeque::with_capacity(6);
    slots.push_back(Slot {
        hash: HashValue(h_new),
        header: new,
        next: None,
    });
    slots.push_back(Slot {
        hash: HashValue(h_old),
        header: old,
        next: None,
    });
    Table {
        mask: 7,
        indices,
        slots,
        inserted: 2,
        size,
        max_size: 4096,
    }
}

#[cfg(kani)]
mod proofs {
    use super::*;
    use http::StatusCode;

    // Two concrete entries — `:method PATCH` (44, older) and `:status 201` (42, newer) — with the pre-state
    // written down directly (hashes 1 and 2, home buckets 1 and 2), then `resize(m)` for EVERY m <= 4096
    // (Encoder::update_max_size caps at 4096): the limit is m, entries are evicted oldest first and no more
    // than needed, `size` is the sum of what is left, `size <= max_size`, the index loses exactly the
    // evicted entries; resize(0) clears everything.
    // (A variant that builds the pre-state through the real `Table::index` path — FNV hash, probe loops —
    // did not finish within 25 minutes and was dropped.)
    // @harness id=hpack_tab_resize_direct props=C10 kind=bounded bound=entries==2,concrete_entries,hand_built_state tier=thorough timeout=1500 fn=Table::resize,Table::converge,Table::evict,Table::remove_phase_two,Table::max_size
    #[kani::proof]
    #[kani::unwind(10)]
    fn hpack_tab_resize_direct() {
        let mut t = vk_two_entry_table(Header::Method(Method::PATCH), Header::Status(StatusCode::CREATED), 1, 2);
        let m: usize = kani::any();
        kani::assume(m <= 4096);
        t.resize(m);
        let (sum, n) = vk_slots_sum(&t);
        assert!(t.max_size() == m, "hpack.enc_table.resize_direct.limit_is_new_value");
        assert!(t.size <= t.max_size, "hpack.enc_table.resize_direct.size_le_max");
        assert!(t.size == sum, "hpack.enc_table.resize_direct.size_is_sum_of_entries");
        let want = if m >= 86 { (2, 86) } else if m >= 42 { (1, 42) } else { (0, 0) };
        assert!((n, t.size) == want, "hpack.enc_table.resize_direct.evicts_oldest_first_and_no_more_than_needed");
        // the index loses exactly the evicted entries
        let live = t.indices.iter().filter(|p| p.is_some()).count();
        assert!(live == n, "hpack.enc_table.resize_direct.index_entries_match_slots");
        kani::cover!(n == 1, "cover.evicts_one");
        kani::cover!(n == 0 && m > 0, "cover.evicts_both_nonzero");
        kani::cover!(m == 0, "cover.clear");
        std::mem::forget(t);
    }
}
