//! Builders + contracts for src/proto/streams/store.rs (stream storage, intrusive queues, ABA guard).
#![allow(dead_code, unused_imports)]
use super::*;

pub(crate) fn mk_key(index: u32, id: StreamId) -> Key {
    Key { index: SlabIndex(index), stream_id: id }
}
pub(crate) fn key_parts(k: Key) -> (u32, StreamId) {
    (k.index.0, k.stream_id)
}
pub(crate) fn slab_len(s: &Store) -> usize {
    s.slab.len()
}
pub(crate) fn ids_len(s: &Store) -> usize {
    s.ids.len()
}
pub(crate) fn slab_contains(s: &Store, k: Key) -> bool {
    s.slab.get(k.index.0 as usize).map(|st| st.id == k.stream_id).unwrap_or(false)
}
pub(crate) fn ids_contains(s: &Store, id: StreamId) -> bool {
    s.ids.contains_key(&id)
}
/// Direct (non-panicking) view of a stored stream.
pub(crate) fn peek(s: &Store, k: Key) -> Option<&Stream> {
    s.slab.get(k.index.0 as usize)
}
pub(crate) fn peek_mut(s: &mut Store, k: Key) -> Option<&mut Stream> {
    s.slab.get_mut(k.index.0 as usize)
}
pub(crate) fn queue_is_empty<N>(q: &Queue<N>) -> bool {
    q.indices.is_none()
}
pub(crate) fn queue_head_tail<N>(q: &Queue<N>) -> Option<(Key, Key)> {
    q.indices.map(|i| (i.head, i.tail))
}
pub(crate) fn mk_queue<N>(ht: Option<(Key, Key)>) -> Queue<N> {
    Queue { indices: ht.map(|(head, tail)| Indices { head, tail }), _p: PhantomData }
}

/// Put a stream into a store the way `Store::insert` does (slab + id map) and return its key.
pub(crate) fn put(store: &mut Store, s: Stream) -> Key {
    let id = s.id;
    store.insert(id, s).key()
}

/// Put a stream in the slab only (id map untouched): for functions that never look ids up.
pub(crate) fn put_unindexed(store: &mut Store, s: Stream) -> Key {
    let id = s.id;
    let index = SlabIndex(store.slab.insert(s) as u32);
    Key { index, stream_id: id }
}
