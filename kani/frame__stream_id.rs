//! Contracts for src/frame/stream_id.rs.
//!
//! C12: `StreamId::parse` is the inverse of the big-endian 31-bit encoding (`u32::from(id)` written with
//!      `put_u32`), the reserved/exclusive bit is returned separately and never leaks into the id
//!      (RFC 9113 §4.1 "R: A reserved 1-bit field ... MUST be ignored when receiving").
//! C04: `next_id` = id + 2 with the same parity, `Err(StreamIdOverflow)` exactly when id + 2 > 2^31-1;
//!      it never wraps.
//! C08: no 4-byte input panics.
//! All harnesses are loop-free over the full input domain.
#![allow(dead_code, unused_imports)]
use super::*;

pub(crate) const MAX_ID: u32 = (1u32 << 31) - 1;

/// The only way to build an id with the reserved bit set (not reachable through the API:
/// `From<u32>` asserts, `parse` masks).  Only for must-fail / robustness harnesses.
pub(crate) fn mk_raw_stream_id(v: u32) -> StreamId {
    StreamId(v)
}

pub(crate) fn raw_id(id: StreamId) -> u32 {
    id.0
}

#[cfg(kani)]
mod proofs {
    use super::*;

    // Tool-chain sanity for this file: WITHOUT the `id <= 2^31-1` precondition `next_id` overflows u32
    // (id = 0xffff_fffe/f) -> Kani must report the arithmetic overflow.
    // @harness id=sid_sanity_must_fail props=C04 kind=complete tier=quick expect=fail fn=StreamId::next_id
    #[kani::proof]
    fn sid_sanity_must_fail() {
        let v: u32 = kani::any();
        let _ = mk_raw_stream_id(v).next_id();
    }

    // @harness id=sid_parse props=C12,C08,C09 kind=complete tier=quick fn=StreamId::parse
    #[kani::proof]
    fn sid_parse() {
        // requires: at least 4 bytes.  Call sites: Head::parse(&header[5..]) with a >= 9 byte header,
        // GoAway::load(&payload[..4]) after `len >= 8`, StreamDependency::load(&src[..4]) after `len == 5`.
        // 4..=6 bytes given to show trailing bytes are ignored.
        let buf: [u8; 6] = kani::any();
        let n: usize = kani::any();
        kani::assume(n >= 4 && n <= 6);
        let (id, flag) = StreamId::parse(&buf[..n]);
        let word = u32::from_be_bytes([buf[0], buf[1], buf[2], buf[3]]);
        assert!(u32::from(id) == word & 0x7fff_ffff, "sid.parse.id_is_low_31_bits_big_endian");
        assert!(flag == (word >> 31 == 1), "sid.parse.flag_is_top_bit");
        assert!(u32::from(id) <= MAX_ID, "sid.parse.reserved_bit_never_leaks");
        assert!(id <= StreamId::MAX, "sid.parse.le_max");
        kani::cover!(flag && u32::from(id) == 5, "cover.reserved_bit_set");
        kani::cover!(!flag && id == StreamId::MAX, "cover.max_id");
        kani::cover!(id.is_zero() && flag, "cover.zero_with_reserved_bit");
    }

    // parse is the inverse of the encoding every `encode` uses (`put_u32(id.into())` = big endian).
    // @harness id=sid_roundtrip props=C12 kind=complete tier=quick fn=StreamId::parse,From<u32>@StreamId::from,From<StreamId>@u32::from
    #[kani::proof]
    fn sid_roundtrip() {
        let v: u32 = kani::any();
        // requires (From<u32> asserts it): MSB clear
        kani::assume(v <= MAX_ID);
        let id = StreamId::from(v);
        assert!(u32::from(id) == v, "sid.from_into.identity");
        assert!((id == v), "sid.eq_u32.reflexive");
        let wire = u32::from(id).to_be_bytes();
        let (back, flag) = StreamId::parse(&wire);
        assert!(back == id, "sid.roundtrip.parse_of_encoded_is_identity");
        assert!(!flag, "sid.roundtrip.reserved_bit_clear_on_emitted_ids");
        // with the reserved bit set by a peer the same id is read
        let mut w2 = wire;
        w2[0] |= 0x80;
        let (back2, flag2) = StreamId::parse(&w2);
        assert!(back2 == id && flag2, "sid.roundtrip.reserved_bit_ignored");
        kani::cover!(v == MAX_ID, "cover.max");
        kani::cover!(v == 0, "cover.zero");
    }

    // @harness id=sid_next_id props=C04,C08 kind=complete tier=quick fn=StreamId::next_id
    #[kani::proof]
    fn sid_next_id() {
        let v: u32 = kani::any();
        // requires: id <= 2^31-1 — every StreamId value is built by `From<u32>` (asserts it), `parse`
        // (masks) or `next_id` (checked below), so this is the type invariant.
        kani::assume(v <= MAX_ID);
        let id = StreamId::from(v);
        let r = id.next_id();
        match r {
            Ok(n) => {
                let nv: u32 = n.into();
                assert!(nv as u64 == v as u64 + 2, "sid.next_id.ok_is_plus_two_exact");
                assert!(nv <= MAX_ID, "sid.next_id.ok_keeps_invariant");
                assert!(nv > v, "sid.next_id.ok_strictly_increases_never_wraps");
                assert!(nv % 2 == v % 2, "sid.next_id.ok_same_parity");
                assert!(v as u64 + 2 <= MAX_ID as u64, "sid.next_id.ok_only_if_fits");
                if v != 0 {
                    assert!(
                        n.is_client_initiated() == id.is_client_initiated()
                            && n.is_server_initiated() == id.is_server_initiated(),
                        "sid.next_id.ok_same_initiator"
                    );
                }
            }
            Err(StreamIdOverflow) => {
                assert!(v as u64 + 2 > MAX_ID as u64, "sid.next_id.err_only_on_overflow");
            }
        }
        kani::cover!(r.is_ok() && v == MAX_ID - 2, "cover.last_ok_odd");
        kani::cover!(r.is_ok() && v == MAX_ID - 3, "cover.last_ok_even");
        kani::cover!(r.is_err() && v == MAX_ID - 1, "cover.first_err_even");
        kani::cover!(r.is_err() && v == MAX_ID, "cover.err_at_max");
    }

    // RFC 9113 §5.1.1: odd = client, even (non-zero) = server, 0 = connection.
    // @harness id=sid_predicates props=C04,C09 kind=complete tier=quick fn=StreamId::is_client_initiated,StreamId::is_server_initiated,StreamId::is_zero,StreamId::zero
    #[kani::proof]
    fn sid_predicates() {
        let v: u32 = kani::any();
        kani::assume(v <= MAX_ID);
        let id = StreamId::from(v);
        assert!(id.is_zero() == (v == 0), "sid.is_zero.exact");
        assert!(id.is_client_initiated() == (v % 2 == 1), "sid.is_client_initiated.odd");
        assert!(id.is_server_initiated() == (v != 0 && v % 2 == 0), "sid.is_server_initiated.even_nonzero");
        assert!(
            !(id.is_client_initiated() && id.is_server_initiated()),
            "sid.initiator.exclusive"
        );
        assert!(
            id.is_zero() == !(id.is_client_initiated() || id.is_server_initiated()),
            "sid.initiator.zero_is_neither"
        );
        assert!(StreamId::zero().is_zero() && u32::from(StreamId::zero()) == 0, "sid.zero.is_zero");
        assert!(u32::from(StreamId::MAX) == MAX_ID, "sid.max.is_2_31_minus_1");
        kani::cover!(id.is_client_initiated(), "cover.client");
        kani::cover!(id.is_server_initiated(), "cover.server");
    }
}
