//! Harness-side HELPERS for src/codec/mod.rs (observers / pre-state builders, no contracts yet).
//!
//! `Codec`'s only field is private and the hook module is private to `codec`, so what the
//! connection-level harnesses (proto::go_away / ping_pong / settings) need is exposed as inherent
//! `vk_*` methods.  All of them are read-only except `vk_set_write_buf`, which swaps the 16 KiB write
//! buffer for a smaller, partly filled one (see codec__framed_write.rs).
#![allow(dead_code, unused_imports)]
use super::*;

// ---- connlevel helpers begin
impl<T, B> Codec<T, B> {
    pub(crate) fn vk_write(&self) -> &FramedWrite<T, B> {
        self.inner.get_ref()
    }

    pub(crate) fn vk_read(&self) -> &FramedRead<FramedWrite<T, B>> {
        &self.inner
    }

    /// Encoded bytes not yet handed to the I/O object.
    pub(crate) fn vk_buffered(&self) -> &[u8] {
        self.inner.get_ref().vk_buffered()
    }

    pub(crate) fn vk_buffered_len(&self) -> usize {
        self.inner.get_ref().vk_buffered_len()
    }

    pub(crate) fn vk_has_next(&self) -> bool {
        self.inner.get_ref().vk_has_next()
    }

    pub(crate) fn vk_min_buffer_capacity(&self) -> usize {
        self.inner.get_ref().vk_min_buffer_capacity()
    }

    pub(crate) fn vk_io(&self) -> &T {
        self.inner.get_ref().vk_io()
    }

    pub(crate) fn vk_set_write_buf(&mut self, cap: usize, fill: usize, byte: u8) {
        self.inner.get_mut().vk_set_write_buf(cap, fill, byte)
    }

    /// What we accept from the peer (changed only when OUR settings are acknowledged).
    pub(crate) fn vk_max_recv_frame_size(&self) -> usize {
        self.inner.vk_max_frame_size()
    }

    pub(crate) fn vk_max_recv_header_list_size(&self) -> usize {
        self.inner.vk_max_header_list_size()
    }

    /// Decoder side: SETTINGS_HEADER_TABLE_SIZE we announced and that was acknowledged.
    pub(crate) fn vk_recv_table_size_update(&self) -> Option<usize> {
        self.inner.vk_hpack().vk_pending_max_size_update()
    }

    /// Encoder side: the peer's SETTINGS_HEADER_TABLE_SIZE queued as a dynamic table size update
    /// `(min, max)`, already clamped to the encoder's own limit.
    pub(crate) fn vk_send_table_size_update(&self) -> Option<(usize, usize)> {
        self.inner.get_ref().vk_hpack().vk_pending_size_update()
    }

    /// Dynamic-table limit the hpack encoder works under from the next header block on.
    pub(crate) fn vk_send_table_effective_max(&self) -> usize {
        self.inner.get_ref().vk_hpack().vk_effective_max_size()
    }

    pub(crate) fn vk_send_table_max_allowed(&self) -> usize {
        self.inner.get_ref().vk_hpack().vk_max_allowed_size()
    }
}
// ---- connlevel helpers end
