//! Contracts for src/frame/head.rs: the 9-octet frame header (RFC 9113 §4.1).
//!
//!   +-----------------------------------------------+
//!   |                 Length (24)                   |
//!   +---------------+---------------+---------------+
//!   |   Type (8)    |   Flags (8)   |
//!   +-+-------------+---------------+-------------------------------+
//!   |R|                 Stream Identifier (31)                      |
//!
//! C12: `Head::parse(Head::encode(h, len)) == h` for every kind / flag octet / stream id, the emitted
//!      octets are exactly the layout above and the 24-bit length field is the payload length.
//! C09: the reserved bit R is ignored on receipt; unknown types are kept as `Kind::Unknown` (so that the
//!      caller can ignore and discard them, §4.1).
//! C08: any 9 octets parse without panic.
#![allow(dead_code, unused_imports)]
use super::*;

use crate::frame::verif_kani::{spec_head_fields, spec_kind, MAX_LEN24};
#[cfg(kani)]
use crate::frame::verif_kani::{any_head_of, any_kind};

#[cfg(kani)]
mod proofs {
    use super::*;
    use crate::verif_kani::any_stream_id;
    use bytes::BytesMut;

    // @harness id=head_kind_table props=C09,C12,C08 kind=complete tier=quick fn=Kind::new
    #[kani::proof]
    fn head_kind_table() {
        let b: u8 = kani::any();
        let k = Kind::new(b);
        assert!(k == spec_kind(b), "head.kind_new.matches_rfc_type_table");
        assert!((k == Kind::Unknown) == (b > 9), "head.kind_new.unknown_iff_not_defined");
        if b <= 9 {
            // the discriminant written by `encode` is the wire code
            assert!(k as u8 == b, "head.kind.discriminant_is_wire_code");
        } else {
            // whatever is emitted for Unknown must not collide with a defined type
            assert!(k as u8 > 9, "head.kind.unknown_discriminant_not_a_defined_type");
        }
        kani::cover!(k == Kind::Continuation, "cover.continuation");
        kani::cover!(k == Kind::Unknown && b == 0xff, "cover.unknown");
    }

    // @harness id=head_parse_any props=C08,C09,C12 kind=complete tier=quick fn=Head::parse,Head::kind,Head::flag,Head::stream_id
    #[kani::proof]
    fn head_parse_any() {
        // requires: >= 9 octets.  Call site: codec::framed_read::decode_frame gets frames from the
        // LengthDelimitedCodec configured with length_adjustment(9)/num_skip(0): every item starts
        // with the complete 9-octet header.  Two extra octets show that the payload is not looked at.
        let b: [u8; 11] = kani::any();
        let n: usize = kani::any();
        kani::assume(n >= 9 && n <= 11);
        let h = Head::parse(&b[..n]);
        let (_len, ty, fl, r, id) = spec_head_fields(&b);
        assert!(h.kind() == spec_kind(ty), "head.parse.kind_from_octet_3");
        assert!(h.flag() == fl, "head.parse.flags_octet_4_verbatim");
        assert!(u32::from(h.stream_id()) == id, "head.parse.stream_id_low_31_bits");
        assert!(u32::from(h.stream_id()) <= 0x7fff_ffff, "head.parse.reserved_bit_masked");
        assert!(h == Head::new(spec_kind(ty), fl, StreamId::from(id)), "head.parse.nothing_else");
        assert!(h.encode_len() == 9, "head.encode_len.is_9");
        kani::cover!(r && id == 1, "cover.reserved_bit_set");
        kani::cover!(h.kind() == Kind::Unknown, "cover.unknown_kind");
        kani::cover!(h.kind() == Kind::Ping && h.stream_id().is_zero(), "cover.ping");
    }

    // @harness id=head_roundtrip props=C12,C08 kind=complete tier=quick fn=Head::encode,Head::parse,Head::new
    #[kani::proof]
    fn head_roundtrip() {
        let kind = any_kind();
        let flag: u8 = kani::any();
        let id = any_stream_id();
        let len: usize = kani::any();
        // requires: payload_len fits the 24-bit field.  Call sites: fixed-size frames pass 4/8/6k,
        // Data::encode_chunk / Headers pass a length that FramedWrite has limited to max_frame_size
        // (<= 2^24-1, enforced by Settings::load / set_max_frame_size).
        kani::assume(len <= MAX_LEN24);
        let h = Head::new(kind, flag, id);
        let mut dst = BytesMut::with_capacity(16);
        h.encode(len, &mut dst);
        assert!(dst.len() == 9, "head.encode.writes_exactly_9_octets");
        let (wlen, ty, fl, r, wid) = spec_head_fields(&dst[..]);
        assert!(wlen == len, "head.encode.length_field_is_payload_len");
        assert!(spec_kind(ty) == kind, "head.encode.type_octet");
        assert!(kind == Kind::Unknown || ty == kind as u8, "head.encode.type_octet_is_wire_code");
        assert!(fl == flag, "head.encode.flags_octet");
        assert!(!r, "head.encode.reserved_bit_zero");
        assert!(wid == u32::from(id), "head.encode.stream_id");
        let back = Head::parse(&dst[..]);
        assert!(back == h, "head.roundtrip.parse_of_encode_is_identity");
        assert!(
            back.kind() == kind && back.flag() == flag && back.stream_id() == id,
            "head.roundtrip.every_field"
        );
        kani::cover!(len == MAX_LEN24 && kind == Kind::Data, "cover.max_len_data");
        kani::cover!(kind == Kind::Unknown, "cover.unknown");
        kani::cover!(u32::from(id) == 0x7fff_ffff && flag == 0xff, "cover.max_id_all_flags");
        std::mem::forget(dst);
    }
}
