//! Shared harness helpers (reachable as `crate::verif_kani::*`).
#![allow(dead_code, unused_imports)]

use bytes::Buf;
use std::task::{Context, RawWaker, RawWakerVTable, Waker};

/// Payload stand-in for the generic `B: Buf` of the streams layer: only its length exists.
/// The streams layer calls nothing but `remaining / has_remaining / advance / take` on payloads, so a
/// symbolic `rem` covers every payload length and the contents are irrelevant there.
#[derive(Debug)]
pub(crate) struct SymBuf {
    pub rem: usize,
}

impl Buf for SymBuf {
    fn remaining(&self) -> usize {
        self.rem
    }
    fn chunk(&self) -> &[u8] {
        &[]
    }
    fn advance(&mut self, cnt: usize) {
        assert!(cnt <= self.rem, "SymBuf: advance past the end");
        self.rem -= cnt;
    }
}

unsafe fn vt_clone(_: *const ()) -> RawWaker {
    RawWaker::new(std::ptr::null(), &VTABLE)
}
unsafe fn vt_noop(_: *const ()) {}
static VTABLE: RawWakerVTable = RawWakerVTable::new(vt_clone, vt_noop, vt_noop, vt_noop);

/// A waker whose wake is a no-op: contracts only observe whether a slot is `Some` or `None`.
pub(crate) fn noop_waker() -> Waker {
    // SAFETY: the vtable functions never dereference the data pointer.
    unsafe { Waker::from_raw(RawWaker::new(std::ptr::null(), &VTABLE)) }
}

#[cfg(kani)]
pub(crate) fn any_waker_slot() -> Option<Waker> {
    if kani::any() {
        Some(noop_waker())
    } else {
        None
    }
}

/// Stub for `std::hash::RandomState::new` (HeaderMap::new() etc.): fixed keys instead of the OS RNG.
#[cfg(kani)]
pub(crate) fn fixed_random_state() -> std::hash::RandomState {
    // SAFETY: RandomState is two u64 keys.
    unsafe { std::mem::transmute::<[u64; 2], std::hash::RandomState>([0u64, 0u64]) }
}

// ---------------------------------------------------------------- error values

use crate::frame::{Reason, StreamId};
use crate::proto::{Error as PError, Initiator};
use bytes::Bytes;
use std::io;

pub(crate) fn ini(i: Initiator) -> u8 {
    match i {
        Initiator::User => 0,
        Initiator::Library => 1,
        Initiator::Remote => 2,
    }
}

/// (kind, stream id, reason code, initiator, debug-data length); kind: 0 reset, 1 go_away, 2 io
pub(crate) fn sig(e: &PError) -> (u8, u32, u32, u8, usize) {
    match *e {
        PError::Reset(id, r, i) => (0, id.into(), r.into(), ini(i), 0),
        PError::GoAway(ref d, r, i) => (1, 0, r.into(), ini(i), d.len()),
        PError::Io(..) => (2, 0, 0, 9, 0),
    }
}

#[cfg(kani)]
pub(crate) fn any_initiator() -> Initiator {
    let k: u8 = kani::any();
    match k % 3 {
        0 => Initiator::User,
        1 => Initiator::Library,
        _ => Initiator::Remote,
    }
}

#[cfg(kani)]
pub(crate) fn any_stream_id() -> StreamId {
    let v: u32 = kani::any();
    kani::assume(v <= u32::MAX >> 1);
    StreamId::from(v)
}

/// `proto::Error` of shape `k % 4` with symbolic payload: Reset with every id/code/initiator, GoAway with
/// every code/initiator and empty or non-empty debug data, Io (BrokenPipe / UnexpectedEof, no message).
/// Call with a concrete `k` to let CBMC prune the other shapes, or with `kani::any()` for all at once.
#[cfg(kani)]
pub(crate) fn proto_error_shape(k: u8) -> PError {
    let code: u32 = kani::any();
    match k % 4 {
        0 => PError::Reset(any_stream_id(), Reason::from(code), any_initiator()),
        1 => PError::GoAway(Bytes::new(), Reason::from(code), any_initiator()),
        2 => PError::GoAway(Bytes::from_static(b"dbg"), Reason::from(code), any_initiator()),
        _ => PError::Io(if kani::any() { io::ErrorKind::BrokenPipe } else { io::ErrorKind::UnexpectedEof }, None),
    }
}

#[cfg(kani)]
pub(crate) fn any_proto_error() -> PError {
    proto_error_shape(kani::any())
}

// ---------------------------------------------------------------- frames

/// A HEADERS frame with an empty field section: `informational` => :status 100, else :status 200.
pub(crate) fn mk_headers(id: StreamId, eos: bool, informational: bool) -> crate::frame::Headers {
    let status = if informational { http::StatusCode::CONTINUE } else { http::StatusCode::OK };
    let mut f = crate::frame::Headers::new(id, crate::frame::Pseudo::response(status), http::HeaderMap::new());
    if eos {
        f.set_end_stream();
    }
    f
}

// ---------------------------------------------------------------- payloads

/// A `Bytes` whose `len()` is `n` (any usize) and whose content is unconstrained: a heap object of
/// symbolic size that is never written (CBMC reads a fresh malloc object as nondeterministic), leaked so
/// that `Bytes::from_static` (no ref-counting vtable) can wrap it.  Harness-only `unsafe`.
pub(crate) fn len_only_bytes(n: usize) -> Bytes {
    let mut v: Vec<u8> = Vec::with_capacity(n);
    unsafe { v.set_len(n) };
    Bytes::from_static(v.leak())
}

/// A request HEADERS frame with an empty field section and only `:method` set (the message conversion is
/// stubbed in the harnesses that use it, so the missing pseudo fields are irrelevant there).
pub(crate) fn mk_request_headers(id: StreamId, eos: bool, with_protocol: bool) -> crate::frame::Headers {
    let pseudo = crate::frame::Pseudo {
        method: Some(http::Method::GET),
        scheme: None,
        authority: None,
        path: None,
        protocol: if with_protocol { Some(crate::ext::Protocol::from_static("websocket")) } else { None },
        status: None,
    };
    let mut f = crate::frame::Headers::new(id, pseudo, http::HeaderMap::new());
    if eos {
        f.set_end_stream();
    }
    f
}
