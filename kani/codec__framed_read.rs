//! Contracts for src/codec/framed_read.rs — ONLY the two stream-identifier rules that the frame loaders
//! (src/frame/go_away.rs, src/frame/priority.rs) leave to their caller `decode_frame`:
//!
//! C09: RFC 9113 §6.8 "An endpoint MUST treat a GOAWAY frame with a stream identifier other than 0x00 as
//!      a connection error (Section 5.4.1) of type PROTOCOL_ERROR."   (`GoAway::load` is not given the head)
//!      RFC 9113 §6.3 "If a PRIORITY frame is received with a stream identifier of 0x00, the recipient
//!      MUST respond with a connection error of type PROTOCOL_ERROR."
//!      (RST_STREAM on stream 0 is decided later still, in Streams::recv_reset.)
#![allow(dead_code, unused_imports)]
use super::*;

// ---- connlevel helpers begin
impl<T> FramedRead<T> {
    pub(crate) fn vk_max_header_list_size(&self) -> usize {
        self.max_header_list_size
    }

    pub(crate) fn vk_max_continuation_frames(&self) -> usize {
        self.max_continuation_frames
    }

    pub(crate) fn vk_hpack(&self) -> &hpack::Decoder {
        &self.hpack
    }

    pub(crate) fn vk_max_frame_size(&self) -> usize {
        self.inner.decoder().max_frame_length()
    }
}
// ---- connlevel helpers end


#[cfg(kani)]
mod proofs {
    use super::*;
    use crate::proto::Initiator;
    use crate::verif_kani::sig;

    fn frame_bytes(kind: u8, flags: u8, stream_word: u32, payload: &[u8]) -> BytesMut {
        let mut b = BytesMut::with_capacity(64);
        let n = payload.len() as u32;
        b.extend_from_slice(&[(n >> 16) as u8, (n >> 8) as u8, n as u8, kind, flags]);
        b.extend_from_slice(&stream_word.to_be_bytes());
        b.extend_from_slice(payload);
        b
    }

    // EXPECTED TO FAIL on h2 0.4.x: decode_frame never looks at the stream id of a GOAWAY, a GOAWAY on
    // stream 5 is accepted and shuts the connection down gracefully instead of being a connection error.
    // @harness id=decode_frame_goaway_stream_id props=C09 kind=complete tier=quick fn=decode_frame
    #[kani::proof]
    fn decode_frame_goaway_stream_id() {
        let stream_word: u32 = kani::any(); // incl. the reserved bit
        let flags: u8 = kani::any();
        let payload: [u8; 8] = kani::any();
        let sid = stream_word & 0x7fff_ffff;
        let mut hpack = hpack::Decoder::new(4096);
        let mut partial: Option<Partial> = None;

        let r = decode_frame(&mut hpack, 16 << 20, 5, &mut partial, frame_bytes(7, flags, stream_word, &payload));

        if sid != 0 {
            assert!(r.is_err(), "framed_read.decode_frame.goaway_on_nonzero_stream_is_an_error");
            assert!(
                matches!(&r, Err(e) if { let (k, _, code, who, _) = sig(e); k == 1 && code == 1 && who == 1 }),
                "framed_read.decode_frame.goaway_on_nonzero_stream_is_connection_error_protocol_error"
            );
        } else {
            assert!(
                matches!(&r, Ok(Some(Frame::GoAway(g))) if u32::from(g.last_stream_id())
                    == u32::from_be_bytes([payload[0], payload[1], payload[2], payload[3]]) & 0x7fff_ffff
                    && u32::from(g.reason()) == u32::from_be_bytes([payload[4], payload[5], payload[6], payload[7]])
                    && g.debug_data().is_empty()),
                "framed_read.decode_frame.goaway_on_stream_0_is_delivered"
            );
        }
        assert!(partial.is_none(), "framed_read.decode_frame.goaway_leaves_no_partial");
        kani::cover!(sid == 5, "cover.goaway_on_stream_5");
        kani::cover!(sid == 0 && r.is_ok(), "cover.goaway_on_stream_0");
        std::mem::forget(r);
        std::mem::forget(hpack);
    }

    // @harness id=decode_frame_priority_stream_id props=C09,C08 kind=complete tier=quick fn=decode_frame
    #[kani::proof]
    fn decode_frame_priority_stream_id() {
        let stream_word: u32 = kani::any();
        let flags: u8 = kani::any();
        let payload: [u8; 5] = kani::any();
        let sid = stream_word & 0x7fff_ffff;
        let dep = u32::from_be_bytes([payload[0], payload[1], payload[2], payload[3]]) & 0x7fff_ffff;
        let mut hpack = hpack::Decoder::new(4096);
        let mut partial: Option<Partial> = None;

        let r = decode_frame(&mut hpack, 16 << 20, 5, &mut partial, frame_bytes(2, flags, stream_word, &payload));

        if sid == 0 {
            assert!(
                matches!(&r, Err(e) if { let (k, _, code, who, _) = sig(e); k == 1 && code == 1 && who == 1 }),
                "framed_read.decode_frame.priority_on_stream_0_is_connection_error_protocol_error"
            );
        } else if dep == sid {
            assert!(
                matches!(&r, Err(e) if { let (k, id, code, who, _) = sig(e); k == 0 && id == sid && code == 1 && who == 1 }),
                "framed_read.decode_frame.priority_self_dependency_is_stream_error_protocol_error"
            );
        } else {
            assert!(matches!(&r, Ok(Some(Frame::Priority(_)))), "framed_read.decode_frame.legal_priority_is_delivered");
        }
        kani::cover!(sid == 0, "cover.priority_on_stream_0");
        kani::cover!(sid == 7 && dep == 7, "cover.self_dependency");
        kani::cover!(sid == 7 && dep == 0 && r.is_ok(), "cover.legal");
        std::mem::forget(r);
        std::mem::forget(hpack);
    }

    // RFC 9113 §6.10 / §4.3: "any frame other than CONTINUATION, on any stream, while a field block is being received
    // MUST be treated as a connection error of type PROTOCOL_ERROR" — that includes frames of UNKNOWN type (they are only
    // ignored outside a field block).  Pre-state: a HEADERS frame without END_HEADERS has been received (`partial` is
    // Some); input: a frame head with ANY type byte other than 9, any flags, any stream word, and an 8-byte payload.
    // The decision is taken before the payload is looked at, so the harness is loop-free over the full head domain.
    // The type byte is enumerated CONCRETELY: with a symbolic type CBMC encodes every loader although the decision is
    // taken before the payload is looked at (150 s timeout).  Cases: the ten defined types except CONTINUATION (0..=8)
    // and the unknown type bytes 10, 0x42, 0xff; `frame_kind_new_unknown` below proves that EVERY byte > 9 is mapped to
    // the same `Kind::Unknown` as those three, which is all decode_frame ever looks at.  Flags, stream word and payload
    // are symbolic.
    // @harness id=decode_frame_inside_header_block props=C09,C04 kind=complete tier=quick timeout=400 fn=decode_frame
    #[kani::proof]
    #[kani::unwind(13)]
    fn decode_frame_inside_header_block() {
        let stream_word: u32 = kani::any();
        let flags: u8 = kani::any();
        let payload: [u8; 8] = kani::any();
        let mut hpack = hpack::Decoder::new(4096);
        let kinds: [u8; 12] = [0, 1, 2, 3, 4, 5, 6, 7, 8, 10, 0x42, 0xff];
        let mut i = 0;
        while i < 12 {
            let h = crate::verif_kani::mk_headers(crate::frame::StreamId::from(1), false, false);
            let mut partial: Option<Partial> =
                Some(Partial { frame: Continuable::Headers(h), buf: BytesMut::new(), continuation_frames_count: 0 });
            let r = decode_frame(&mut hpack, 16 << 20, 5, &mut partial, frame_bytes(kinds[i], flags, stream_word, &payload));
            assert!(
                matches!(&r, Err(e) if { let (k, _, code, who, _) = sig(e); k == 1 && code == 1 && who == 1 }),
                "framed_read.decode_frame.non_continuation_inside_header_block_is_connection_error_protocol_error"
            );
            std::mem::forget(r);
            std::mem::forget(partial);
            i += 1;
        }
        kani::cover!((stream_word & 0x7fff_ffff) == 3, "cover.frame_on_other_stream_inside_header_block");
        std::mem::forget(hpack);
    }

    // CONTINUATION handling (C09 continuity, C18 flood cap; RFC 9113 §6.10): a CONTINUATION frame
    //   * with no field block in progress                      => connection PROTOCOL_ERROR;
    //   * on another stream than the block in progress          => connection PROTOCOL_ERROR;
    //   * that would be the (max+1)-th one without END_HEADERS  => connection ENHANCE_YOUR_CALM (the flood cap), and this
    //     is decided BEFORE the fragment is buffered or decoded (the partial state is dropped, nothing grows);
    //   * otherwise (here: empty fragment, below the cap)       => accepted, the block stays in progress and the count
    //     went up by exactly one.
    // The stream word, the flags other than END_HEADERS and the cap are symbolic where the decision is taken before HPACK
    // decoding; the cases that reach the decoder use an empty fragment and concrete counts (max-1, max).
    fn mk_partial(stream: u32, count: usize) -> Option<Partial> {
        let h = crate::verif_kani::mk_headers(crate::frame::StreamId::from(stream), false, false);
        Some(Partial { frame: Continuable::Headers(h), buf: BytesMut::new(), continuation_frames_count: count })
    }

    // (Symbolic stream words / flags / caps make CBMC explore the HPACK decoder behind the comparisons it cannot decide by
    // constant propagation — timeout at 600 s — so the rejecting cases are enumerated concretely.)
    // @harness id=decode_frame_continuation_rejects props=C09,C18,C08 kind=bounded bound=cases:{no_block,other_stream_3_vs_1,cap_5_at_5,cap_7_at_7}x{END_HEADERS_set,clear} tier=quick timeout=600 fn=decode_frame
    #[kani::proof]
    #[kani::unwind(4)]
    fn decode_frame_continuation_rejects() {
        let mut hpack = hpack::Decoder::new(4096);
        let mut f = 0;
        while f < 2 {
            let flags: u8 = if f == 0 { 0 } else { 0x4 };
            // no block in progress
            let mut none: Option<Partial> = None;
            let r0 = decode_frame(&mut hpack, 16 << 20, 5, &mut none, frame_bytes(9, flags, 1, &[]));
            assert!(matches!(&r0, Err(e) if { let (k, _, code, who, _) = sig(e); k == 1 && code == 1 && who == 1 }),
                "framed_read.decode_frame.continuation_without_a_block_in_progress_is_connection_protocol_error");
            std::mem::forget(r0);
            // block in progress on stream 1, CONTINUATION on stream 3
            let mut p = mk_partial(1, 0);
            let r1 = decode_frame(&mut hpack, 16 << 20, 5, &mut p, frame_bytes(9, flags, 3, &[]));
            assert!(matches!(&r1, Err(e) if { let (k, _, code, who, _) = sig(e); k == 1 && code == 1 && who == 1 }),
                "framed_read.decode_frame.continuation_on_another_stream_is_connection_protocol_error");
            std::mem::forget(r1);
            std::mem::forget(p);
            f += 1;
        }
        // the cap: count == max already, another non-final CONTINUATION
        let mut c = 0;
        while c < 2 {
            let max = if c == 0 { 5 } else { 7 };
            let mut p2 = mk_partial(1, max);
            let r2 = decode_frame(&mut hpack, 16 << 20, max, &mut p2, frame_bytes(9, 0, 1, &[]));
            assert!(matches!(&r2, Err(e) if { let (k, _, code, who, _) = sig(e); k == 1 && code == 11 && who == 1 }),
                "framed_read.decode_frame.continuation_beyond_the_cap_is_connection_enhance_your_calm");
            assert!(p2.is_none(), "framed_read.decode_frame.flood_leaves_no_partial_state_behind");
            std::mem::forget(r2);
            c += 1;
        }
        kani::cover!(true, "cover.reached");
        std::mem::forget(hpack);
    }

    // @harness id=decode_frame_continuation_counts props=C18,C09,C08 kind=bounded bound=empty_fragment,_counts_in_{0,max-1}_for_max=5 tier=quick timeout=600 fn=decode_frame
    #[kani::proof]
    #[kani::unwind(4)]
    fn decode_frame_continuation_counts() {
        let mut hpack = hpack::Decoder::new(4096);
        let mut k = 0;
        while k < 2 {
            let count = if k == 0 { 0 } else { 4 };
            let mut p = mk_partial(1, count);
            let r = decode_frame(&mut hpack, 16 << 20, 5, &mut p, frame_bytes(9, 0, 1, &[]));
            assert!(matches!(&r, Ok(None)), "framed_read.decode_frame.continuation_below_the_cap_keeps_the_block_in_progress");
            assert!(matches!(&p, Some(pp) if pp.continuation_frames_count == count + 1), "framed_read.decode_frame.continuation_count_goes_up_by_one");
            std::mem::forget(r);
            std::mem::forget(p);
            k += 1;
        }
        kani::cover!(true, "cover.reached");
        std::mem::forget(hpack);
    }

    // @harness id=frame_kind_new_unknown props=C09,C04 kind=complete tier=quick fn=Kind::new
    #[kani::proof]
    fn frame_kind_new_unknown() {
        let b: u8 = kani::any();
        let k = Kind::new(b);
        assert!((b > 9) == (k == Kind::Unknown), "frame.kind.new.every_byte_above_9_is_unknown_and_no_other");
        assert!((b == 9) == (k == Kind::Continuation), "frame.kind.new.only_9_is_continuation");
        kani::cover!(b == 200, "cover.unknown");
    }

    // ---- calc_max_continuation_frames (C18), from the hpack work package


    /// requires: 2^14 <= frame_max <= 2^24 - 1.  Call sites: `FramedRead::set_max_frame_size` asserts
    /// exactly this range before the call; `set_max_header_list_size` passes `self.max_frame_size()`,
    /// i.e. a value stored by the former; `FramedRead::new` passes tokio-util's default
    /// max_frame_length (8 MiB = 2^23).  `header_max` is any usize (set_max_header_list_size(u32 as usize),
    /// DEFAULT_SETTINGS_MAX_HEADER_LIST_SIZE).
    fn any_frame_max() -> usize {
        let f: usize = kani::any();
        kani::assume(DEFAULT_MAX_FRAME_SIZE as usize <= f && f <= MAX_MAX_FRAME_SIZE as usize);
        f
    }

    // Full usize x [2^14, 2^24) domain, loop-free: complete.  No panic (division by zero, overflow) and
    // the floor of 5.
    // @harness id=fr_calc_max_continuation_total props=C18 kind=complete tier=quick fn=calc_max_continuation_frames
    #[kani::proof]
    fn fr_calc_max_continuation_total() {
        let header_max: usize = kani::any();
        let frame_max = any_frame_max();
        let r = calc_max_continuation_frames(header_max, frame_max);
        assert!(r >= 5, "fr.calc_max_continuation.at_least_5");
        kani::cover!(r > 5, "cover.above_floor");
        kani::cover!(header_max == usize::MAX && frame_max == 16_384, "cover.usize_max");
    }

    /// requires header_max <= u32::MAX: every call site passes a u32 setting widened to usize
    /// (`codec.set_max_recv_header_list_size(max as usize)` with `max: u32`,
    /// DEFAULT_SETTINGS_MAX_HEADER_LIST_SIZE = 16 MiB).  Needed for tractability only.
    fn any_header_max() -> usize {
        let h: u32 = kani::any();
        h as usize
    }

    // The value, stated without a second division (relating two symbolic 64-bit divisions is out of
    // reach for SAT; `r >= h / f` is written `(r + 1) * f > h`):
    //   * enough frames for a maximal legal header list — the flood guard never fires on a block that
    //     respects SETTINGS_MAX_HEADER_LIST_SIZE and fills its frames;
    //   * bounded by the advertised header limit alone: at most 125 % of header_max / 16 KiB, or 5.
    // @harness id=fr_calc_max_continuation_frames props=C18 kind=complete tier=quick solver=cadical fn=calc_max_continuation_frames
    #[kani::proof]
    fn fr_calc_max_continuation_frames() {
        let header_max = any_header_max();
        let frame_max = any_frame_max();
        let r = calc_max_continuation_frames(header_max, frame_max);
        assert!((r as u64 + 1) * (frame_max as u64) > header_max as u64, "fr.calc_max_continuation.enough_for_max_header_list");
        assert!(r == 5 || r <= (header_max >> 14) + (header_max >> 16), "fr.calc_max_continuation.bounded_by_header_limit");
        kani::cover!(r == 5 && header_max > 4 * frame_max, "cover.floor_applies_above_need");
        kani::cover!(r > 5 && header_max < 1 << 20, "cover.scales_with_header_limit");
    }

    // Monotone in header_max: raising SETTINGS_MAX_HEADER_LIST_SIZE never lowers the quota.  Two symbolic
    // calls; bounded to header limits below 1 MiB (quotients <= 64) — the full range needs the
    // monotonicity of floor division, which SAT does not find at 32 x 24 bits (> 5 min).
    // @harness id=fr_calc_max_continuation_monotone props=C18 kind=bounded bound=header_max<2^20 tier=quick solver=cadical fn=calc_max_continuation_frames
    #[kani::proof]
    fn fr_calc_max_continuation_monotone() {
        let h1: usize = kani::any();
        let h2: usize = kani::any();
        kani::assume(h1 <= h2 && h2 < (1 << 20));
        let f = any_frame_max();
        let r1 = calc_max_continuation_frames(h1, f);
        let r2 = calc_max_continuation_frames(h2, f);
        assert!(r1 <= r2, "fr.calc_max_continuation.monotone_in_header_max");
        kani::cover!(r1 < r2, "cover.strictly_more");
    }
}
