//! Contracts for src/codec/framed_read.rs — ONLY the two stream-identifier rules that the frame loaders
//! (src/frame/go_away.rs, src/frame/priority.rs) leave to their caller `decode_frame`:
//!
//! C09: RFC 9113 §6.8 "An endpoint MUST treat a GOAWAY frame with a stream identifier other than 0x00 as
//!      a connection error (Section 5.4.1) of type PROTOCOL_ERROR."   (`GoAway::load` is not given the head)
//!      RFC 9113 §6.3 "If a PRIORITY frame is received with a stream identifier of 0x00, the recipient
//!      MUST respond with a connection error of type PROTOCOL_ERROR."
//!      (RST_STREAM on stream 0 is decided later still, in Streams::recv_reset.)
#![allow(dead_code, unused_imports)]
use super::*;

// ---- connlevel helpers begin
impl<T> FramedRead<T> {
    pub(crate) fn vk_max_header_list_size(&self) -> usize {
        self.max_header_list_size
    }

    pub(crate) fn vk_max_continuation_frames(&self) -> usize {
        self.max_continuation_frames
    }

    pub(crate) fn vk_hpack(&self) -> &hpack::Decoder {
        &self.hpack
    }

    pub(crate) fn vk_max_frame_size(&self) -> usize {
        self.inner.decoder().max_frame_length()
    }
}
// ---- connlevel helpers end


#[cfg(kani)]
mod proofs {
    use super::*;
    use crate::proto::Initiator;
    use crate::verif_kani::sig;

    fn frame_bytes(kind: u8, flags: u8, stream_word: u32, payload: &[u8]) -> BytesMut {
        let mut b = BytesMut::with_capacity(64);
        let n = payload.len() as u32;
        b.extend_from_slice(&[(n >> 16) as u8, (n >> 8) as u8, n as u8, kind, flags]);
        b.extend_from_slice(&stream_word.to_be_bytes());
        b.extend_from_slice(payload);
        b
    }

    // EXPECTED TO FAIL on h2 0.4.x: decode_frame never looks at the stream id of a GOAWAY, a GOAWAY on
    // stream 5 is accepted and shuts the connection down gracefully instead of being a connection error.
    // @harness id=decode_frame_goaway_stream_id props=C09 kind=complete tier=quick fn=decode_frame
    #[kani::proof]
    fn decode_frame_goaway_stream_id() {
        let stream_word: u32 = kani::any(); // incl. the reserved bit
        let flags: u8 = kani::any();
        let payload: [u8; 8] = kani::any();
        let sid = stream_word & 0x7fff_ffff;
        let mut hpack = hpack::Decoder::new(4096);
        let mut partial: Option<Partial> = None;

        let r = decode_frame(&mut hpack, 16 << 20, 5, &mut partial, frame_bytes(7, flags, stream_word, &payload));

        if sid != 0 {
            assert!(r.is_err(), "framed_read.decode_frame.goaway_on_nonzero_stream_is_an_error");
            assert!(
                matches!(&r, Err(e) if { let (k, _, code, who, _) = sig(e); k == 1 && code == 1 && who == 1 }),
                "framed_read.decode_frame.goaway_on_nonzero_stream_is_connection_error_protocol_error"
            );
        } else {
            assert!(
                matches!(&r, Ok(Some(Frame::GoAway(g))) if u32::from(g.last_stream_id())
                    == u32::from_be_bytes([payload[0], payload[1], payload[2], payload[3]]) & 0x7fff_ffff
                    && u32::from(g.reason()) == u32::from_be_bytes([payload[4], payload[5], payload[6], payload[7]])
                    && g.debug_data().is_empty()),
                "framed_read.decode_frame.goaway_on_stream_0_is_delivered"
            );
        }
        assert!(partial.is_none(), "framed_read.decode_frame.goaway_leaves_no_partial");
        kani::cover!(sid == 5, "cover.goaway_on_stream_5");
        kani::cover!(sid == 0 && r.is_ok(), "cover.goaway_on_stream_0");
        std::mem::forget(r);
        std::mem::forget(hpack);
    }

    // @harness id=decode_frame_priority_stream_id props=C09,C08 kind=complete tier=quick fn=decode_frame
    #[kani::proof]
    fn decode_frame_priority_stream_id() {
        let stream_word: u32 = kani::any();
        let flags: u8 = kani::any();
        let payload: [u8; 5] = kani::any();
        let sid = stream_word & 0x7fff_ffff;
        let dep = u32::from_be_bytes([payload[0], payload[1], payload[2], payload[3]]) & 0x7fff_ffff;
        let mut hpack = hpack::Decoder::new(4096);
        let mut partial: Option<Partial> = None;

        let r = decode_frame(&mut hpack, 16 << 20, 5, &mut partial, frame_bytes(2, flags, stream_word, &payload));

        if sid == 0 {
            assert!(
                matches!(&r, Err(e) if { let (k, _, code, who, _) = sig(e); k == 1 && code == 1 && who == 1 }),
                "framed_read.decode_frame.priority_on_stream_0_is_connection_error_protocol_error"
            );
        } else if dep == sid {
            assert!(
                matches!(&r, Err(e) if { let (k, id, code, who, _) = sig(e); k == 0 && id == sid && code == 1 && who == 1 }),
                "framed_read.decode_frame.priority_self_dependency_is_stream_error_protocol_error"
            );
        } else {
            assert!(matches!(&r, Ok(Some(Frame::Priority(_)))), "framed_read.decode_frame.legal_priority_is_delivered");
        }
        kani::cover!(sid == 0, "cover.priority_on_stream_0");
        kani::cover!(sid == 7 && dep == 7, "cover.self_dependency");
        kani::cover!(sid == 7 && dep == 0 && r.is_ok(), "cover.legal");
        std::mem::forget(r);
        std::mem::forget(hpack);
    }
}
