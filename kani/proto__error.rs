//! Builders / contracts for src/proto/error.rs.
#![allow(dead_code, unused_imports)]
use super::*;
use crate::proto::Initiator;

use crate::verif_kani::{any_initiator, any_proto_error, any_stream_id, ini, sig};

#[cfg(kani)]
mod proofs {
    use super::*;

    // @harness id=perr_constructors props=C17,C09 kind=complete tier=quick fn=Error::remote_reset,Error::remote_go_away,Error::library_reset,Error::library_go_away,Error::user_go_away,Error::is_local,Error::library_go_away_data
    #[kani::proof]
    fn perr_constructors() {
        let code: u32 = kani::any();
        let id = any_stream_id();
        let r = Reason::from(code);
        assert!(sig(&Error::remote_reset(id, r)) == (0, id.into(), code, 2, 0), "perr.remote_reset.exact");
        assert!(sig(&Error::library_reset(id, r)) == (0, id.into(), code, 1, 0), "perr.library_reset.exact");
        assert!(sig(&Error::library_go_away(r)) == (1, 0, code, 1, 0), "perr.library_go_away.exact");
        assert!(sig(&Error::user_go_away(r)) == (1, 0, code, 0, 0), "perr.user_go_away.exact");
        assert!(sig(&Error::remote_go_away(Bytes::from_static(b"abc"), r)) == (1, 0, code, 2, 3), "perr.remote_go_away.exact");
        assert!(sig(&Error::library_go_away_data(r, Bytes::from_static(b"ab"))) == (1, 0, code, 1, 2), "perr.library_go_away_data.exact");
        let e = any_proto_error();
        let (k, _, _, who, _) = sig(&e);
        assert!(e.is_local() == (k == 2 || who != 2), "perr.is_local.exact");
        kani::cover!(code > 13, "cover.unknown_code");
        kani::cover!(!e.is_local(), "cover.remote");
    }
}
