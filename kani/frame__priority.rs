//! Contracts for src/frame/priority.rs (PRIORITY, RFC 9113 §6.3 / RFC 7540 §5.3; h2 only receives it).
//!
//! C12: a well-formed PRIORITY payload  |E| dependency (31) | weight (8) |  is read to exactly these three
//!      values plus the stream id of the head.
//! C09: `load` fails IF AND ONLY IF length != 5 (FRAME_SIZE_ERROR) or the stream depends on itself
//!      (RFC 7540 §5.3.1, stream error PROTOCOL_ERROR — reported as `InvalidDependencyId`, the one variant
//!      decode_frame turns into a *stream* error).  "PRIORITY on stream 0" is rejected by the caller
//!      (codec::framed_read::decode_frame: `if head.stream_id() == 0`) before `load` is called.
//! C08: no input panics.
#![allow(dead_code, unused_imports)]
use super::*;

pub(crate) fn priority_fields(p: &Priority) -> (u32, u32, u8, bool) {
    (
        p.stream_id.into(),
        p.dependency.dependency_id.into(),
        p.dependency.weight,
        p.dependency.is_exclusive,
    )
}

pub(crate) fn dependency_fields(d: &StreamDependency) -> (u32, u8, bool) {
    (d.dependency_id.into(), d.weight, d.is_exclusive)
}

#[cfg(kani)]
mod proofs {
    use super::*;
    use crate::frame::verif_kani::{any_head_of, any_payload, be32, err_class, E_DEPENDENCY, E_SIZE, WIRE_MAX};
    use crate::verif_kani::any_stream_id;

    // @harness id=priority_load_validation props=C09,C08,C12 kind=complete tier=quick fn=Priority::load,StreamDependency::load,StreamDependency::new,StreamDependency::dependency_id
    #[kani::proof]
    fn priority_load_validation() {
        // all flags (none defined), all stream ids INCLUDING 0 (the caller filters 0, nothing here needs
        // it), all lengths, all contents
        let head = any_head_of(Kind::Priority);
        let buf = any_payload(WIRE_MAX);
        let n = buf.len();

        let r = Priority::load(head, &buf[..]);

        let sid = u32::from(head.stream_id());
        let bad_len = n != 5;
        let word = if n >= 4 { be32(&buf[..], 0) } else { 0 };
        let dep = word & 0x7fff_ffff;
        let self_dep = !bad_len && dep == sid;
        assert!(r.is_err() == (bad_len || self_dep), "priority.load.err_iff_rfc_error");
        match &r {
            Ok(p) => {
                let (psid, pdep, weight, excl) = priority_fields(p);
                assert!(psid == sid, "priority.load.stream_id_from_head");
                assert!(pdep == dep, "priority.load.dependency_low_31_bits");
                assert!(excl == (word >> 31 == 1), "priority.load.exclusive_is_top_bit");
                assert!(weight == buf[4], "priority.load.weight_octet_4");
                assert!(pdep != psid, "priority.load.ok_never_self_dependent");
            }
            Err(e) => {
                let c = err_class(e);
                assert!(c == if bad_len { E_SIZE } else { E_DEPENDENCY }, "priority.load.err_class_matches_cause");
                // decode_frame: InvalidDependencyId -> RST_STREAM, anything else -> GOAWAY
                assert!((*e == Error::InvalidDependencyId) == self_dep, "priority.load.invalid_dependency_id_iff_self_dependency");
            }
        }
        kani::cover!(r.is_ok() && word >> 31 == 1 && buf[4] == 255, "cover.ok_exclusive_max_weight");
        kani::cover!(r.is_ok() && dep == 0 && sid == 1 && head.flag() == 0xff, "cover.ok_depends_on_root_flags_ignored");
        kani::cover!(r.is_err() && self_dep && word >> 31 == 1, "cover.self_dependency_exclusive_bit_not_part_of_id");
        kani::cover!(r.is_err() && n == 6, "cover.long");
        std::mem::forget(buf);
    }

    // The same field layout is the optional priority block of HEADERS (Headers::load calls this).
    // @harness id=stream_dependency_load props=C09,C08,C12 kind=complete tier=quick fn=StreamDependency::load
    #[kani::proof]
    fn stream_dependency_load() {
        let buf = any_payload(WIRE_MAX);
        let n = buf.len();
        let r = StreamDependency::load(&buf[..]);
        assert!(r.is_err() == (n != 5), "stream_dependency.load.err_iff_len_not_5");
        match &r {
            Ok(d) => {
                let word = be32(&buf[..], 0);
                let (dep, weight, excl) = dependency_fields(d);
                assert!(dep == word & 0x7fff_ffff, "stream_dependency.load.dependency_low_31_bits");
                assert!(excl == (word >> 31 == 1), "stream_dependency.load.exclusive_is_top_bit");
                assert!(weight == buf[4], "stream_dependency.load.weight_octet_4");
                assert!(u32::from(d.dependency_id()) == dep, "stream_dependency.dependency_id.getter");
            }
            Err(e) => assert!(err_class(e) == E_SIZE, "stream_dependency.load.err_is_size_error"),
        }
        let nd = StreamDependency::new(any_stream_id(), kani::any(), kani::any());
        assert!(nd.dependency_id() == nd.dependency_id, "stream_dependency.new.getter");
        kani::cover!(r.is_ok() && buf[0] == 0xff, "cover.ok_exclusive");
        kani::cover!(r.is_err() && n == 0, "cover.empty");
        std::mem::forget(buf);
    }
}
