//! Contracts for src/frame/ping.rs (RFC 9113 §6.7).
//!
//! C12: load(encode(p)) == p for every 8-octet payload and both values of ACK; the emitted frame is
//!      exactly 9 + 8 octets: length 8, type 6, flags = ACK or nothing, stream 0.
//! C09: `load` fails IF AND ONLY IF stream id != 0 (PROTOCOL_ERROR) or length != 8 (FRAME_SIZE_ERROR);
//!      undefined flag bits are ignored.
//! C08: no (head, payload) panics — every payload length the 24-bit length field can announce, every
//!      content.
#![allow(dead_code, unused_imports)]
use super::*;

pub(crate) fn mk_ping(ack: bool, payload: Payload) -> Ping {
    Ping { ack, payload }
}

#[cfg(kani)]
mod proofs {
    use super::*;
    use crate::frame::verif_kani::{any_head_of, any_payload, spec_head_fields, T_PING, err_class, E_SIZE, E_STREAM_ID, MIN_MAX_FRAME_SIZE, WIRE_MAX};
    use bytes::BytesMut;

    // @harness id=ping_roundtrip props=C12,C08 kind=complete tier=quick fn=Ping::encode,Ping::load,Ping::new,Ping::pong,Ping::is_ack,Ping::payload,Ping::into_payload
    #[kani::proof]
    fn ping_roundtrip() {
        let payload: Payload = kani::any();
        let ack: bool = kani::any();
        // the only two constructors
        let p = if ack { Ping::pong(payload) } else { Ping::new(payload) };
        assert!(p.is_ack() == ack && *p.payload() == payload, "ping.new_pong.fields");

        let mut dst = BytesMut::with_capacity(32);
        p.encode(&mut dst);

        assert!(dst.len() == 9 + 8, "ping.encode.writes_exactly_17_octets");
        let (len, ty, fl, r, id) = spec_head_fields(&dst[..9]);
        assert!(len == 8 && len == dst.len() - 9, "ping.encode.length_field_is_payload_len");
        assert!(len <= MIN_MAX_FRAME_SIZE, "ping.encode.within_every_peers_max_frame_size");
        assert!(ty == T_PING, "ping.encode.type_is_6");
        assert!(fl == if ack { 0x1 } else { 0x0 }, "ping.encode.flags_exactly_ack_or_none");
        assert!(!r && id == 0, "ping.encode.stream_zero");
        assert!(dst[9..17] == payload, "ping.encode.payload_verbatim");

        // what the read path does with these octets
        let head = Head::parse(&dst[..9]);
        assert!(head.kind() == Kind::Ping, "ping.roundtrip.dispatched_as_ping");
        let back = Ping::load(head, &dst[9..]);
        assert!(back == Ok(mk_ping(ack, payload)), "ping.roundtrip.load_of_encode_is_identity");
        if let Ok(b) = back {
            assert!(b.is_ack() == ack, "ping.roundtrip.ack");
            assert!(b.into_payload() == payload, "ping.roundtrip.payload");
        }
        kani::cover!(ack && payload == Ping::SHUTDOWN, "cover.pong_shutdown");
        kani::cover!(!ack && payload == Ping::USER, "cover.ping_user");
        std::mem::forget(dst);
    }

    // @harness id=ping_load_validation props=C09,C08,C12 kind=complete tier=quick fn=Ping::load
    #[kani::proof]
    fn ping_load_validation() {
        // requires: head.kind() == Ping (decode_frame dispatches on head.kind()); everything else free:
        // all flag octets, all stream ids, every payload length the wire can announce, all contents.
        let head = any_head_of(Kind::Ping);
        let buf = any_payload(WIRE_MAX);
        let n = buf.len();
        let payload = &buf[..];

        let r = Ping::load(head, payload);

        let bad_stream = u32::from(head.stream_id()) != 0;
        let bad_len = n != 8;
        assert!(r.is_err() == (bad_stream || bad_len), "ping.load.err_iff_rfc_error");
        match &r {
            Ok(p) => {
                assert!(p.is_ack() == (head.flag() & 0x1 == 0x1), "ping.load.ack_is_flag_bit_0_other_bits_ignored");
                assert!(p.payload()[..] == buf[..8], "ping.load.payload_verbatim");
            }
            Err(e) => {
                let c = err_class(e);
                assert!(c == E_STREAM_ID || c == E_SIZE, "ping.load.err_class");
                assert!(c != E_STREAM_ID || bad_stream, "ping.load.invalid_stream_id_only_if_nonzero_stream");
                assert!(c != E_SIZE || bad_len, "ping.load.size_error_only_if_len_not_8");
                assert!(bad_stream || *e == Error::BadFrameSize, "ping.load.len_not_8_is_bad_frame_size");
                assert!(bad_len || *e == Error::InvalidStreamId, "ping.load.nonzero_stream_is_invalid_stream_id");
            }
        }
        kani::cover!(r.is_ok() && head.flag() == 0xfe, "cover.ok_reserved_flags_no_ack");
        kani::cover!(r.is_err() && n == 9 && !bad_stream, "cover.long");
        kani::cover!(r.is_err() && n == WIRE_MAX, "cover.longest");
        kani::cover!(r.is_err() && n == 8 && bad_stream, "cover.nonzero_stream");
        std::mem::forget(buf);
    }
}
