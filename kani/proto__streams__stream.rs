//! Contracts for src/proto/streams/stream.rs: per-stream bookkeeping (capacity view, content-length
//! accounting, wake slots, release rule) + builders used by the prioritize / send / recv harnesses.
#![allow(dead_code, unused_imports)]
use super::*;
use crate::verif_kani::{any_waker_slot, noop_waker};

pub(crate) fn set_send_task(s: &mut Stream, w: Option<Waker>) {
    s.send_task = w;
}
pub(crate) fn has_send_task(s: &Stream) -> bool {
    s.send_task.is_some()
}

/// A stream whose scalar fields are all symbolic.  Type-level invariants only (I-win):
/// windows <= 2^31-1.  Link fields (`next_*`) are None and the two deques empty: harnesses that need
/// queued frames push them through the real `Deque::push_back`.  Everything else (I-cap, I-recv-pool,
/// ...) is assumed per harness, next to the contract that needs it.
#[cfg(kani)]
pub(crate) fn any_stream(id: StreamId) -> Stream {
    use super::flow_control::verif_kani::mk_flow;
    let mut s = Stream::new(id, 0, 0);
    s.state = super::state::verif_kani::any_state();
    any_stream_scalars(&mut s);
    s
}

/// Same, but the state shape is chosen by the caller (concrete `k` prunes CBMC's work).
#[cfg(kani)]
pub(crate) fn any_stream_with_state(id: StreamId, state: State) -> Stream {
    let mut s = Stream::new(id, 0, 0);
    s.state = state;
    any_stream_scalars(&mut s);
    s
}

#[cfg(kani)]
fn any_stream_scalars(s: &mut Stream) {
    use super::flow_control::verif_kani::mk_flow;
    let max = MAX_WINDOW_SIZE as i32;
    let (sw, sa, rw, ra): (i32, i32, i32, i32) = (kani::any(), kani::any(), kani::any(), kani::any());
    kani::assume(sw <= max && sa <= max && rw <= max && ra <= max);
    s.send_flow = mk_flow(sw, sa);
    s.recv_flow = mk_flow(rw, ra);
    s.is_counted = kani::any();
    s.ref_count = kani::any();
    s.is_pending_send = kani::any();
    s.requested_send_capacity = kani::any();
    s.buffered_send_data = kani::any();
    s.send_task = any_waker_slot();
    s.is_pending_send_capacity = kani::any();
    s.send_capacity_inc = kani::any();
    s.is_pending_open = kani::any();
    s.is_pending_push = kani::any();
    s.is_pending_accept = kani::any();
    s.in_flight_recv_data = kani::any();
    s.is_pending_window_update = kani::any();
    s.is_recv = kani::any();
    s.recv_task = any_waker_slot();
    s.push_task = any_waker_slot();
    s.content_length = match kani::any::<u8>() % 3 {
        0 => ContentLength::Omitted,
        1 => ContentLength::Head,
        _ => ContentLength::Remaining(kani::any()),
    };
}

/// The oracle for `Stream::capacity`: min(max(available,0), max_buffer) -. buffered  (monus).
pub(crate) fn spec_capacity(available: i32, buffered: usize, max_buffer: usize) -> u64 {
    let a = if available < 0 { 0u64 } else { available as u64 };
    let m = if a < max_buffer as u64 { a } else { max_buffer as u64 };
    if m > buffered as u64 {
        m - buffered as u64
    } else {
        0
    }
}

#[cfg(kani)]
mod proofs {
    use super::*;

    // C02/C03: a new stream starts with the SEND window the peer advertised (nothing assigned yet) and the RECEIVE
    // window this endpoint advertised (all of it available to the peer).  Both arguments are any value a SETTINGS
    // frame can carry (<= 2^31-1: Settings::load rejects more, the builder asserts it).
    // @harness id=stream_new_windows props=C02,C03,C16 kind=complete tier=quick fn=Stream::new
    #[kani::proof]
    fn stream_new_windows() {
        use super::super::flow_control::verif_kani::raw;
        let (si, ri): (u32, u32) = (kani::any(), kani::any());
        kani::assume(si <= MAX_WINDOW_SIZE && ri <= MAX_WINDOW_SIZE);
        let id = crate::verif_kani::any_stream_id();
        let s = Stream::new(id, si, ri);
        assert!(raw(&s.send_flow) == (si as i32, 0), "stream.new.send_window_is_the_peers_initial_window_nothing_assigned");
        assert!(raw(&s.recv_flow) == (ri as i32, ri as i32), "stream.new.recv_window_is_our_initial_window_all_available");
        assert!(s.id == id && s.ref_count == 0 && !s.is_counted && s.requested_send_capacity == 0 && s.buffered_send_data == 0
            && s.in_flight_recv_data == 0 && s.is_recv && s.reset_at.is_none(), "stream.new.bookkeeping_starts_idle");
        assert!(!s.is_pending_send && !s.is_pending_send_capacity && !s.is_pending_open && !s.is_pending_push
            && !s.is_pending_accept && !s.is_pending_window_update, "stream.new.in_no_queue");
        assert!(s.state.is_idle(), "stream.new.state_is_idle");
        kani::cover!(si == 65_535 && ri == 1 << 20, "cover.different_windows");
        std::mem::forget(s);
    }

    use super::super::flow_control::verif_kani::{mk_flow, raw};
    use super::super::state::verif_kani::{abs, any_state, cause_sig, rfc_closed, Abs};
    use crate::verif_kani::{any_initiator, any_stream_id, ini};

    fn sid() -> StreamId {
        StreamId::from(1)
    }

    // C16: capacity() is exactly min(available+, max_buffer) - buffered, never negative, never above
    // what is assigned.
    // @harness id=stream_capacity props=C16,C02,C08 kind=complete tier=quick fn=Stream::capacity
    #[kani::proof]
    fn stream_capacity() {
        let mut s = Stream::new(sid(), 0, 0);
        let (w, a): (i32, i32) = (kani::any(), kani::any());
        s.send_flow = mk_flow(w, a);
        s.buffered_send_data = kani::any();
        let max_buffer: usize = kani::any();
        let c = s.capacity(max_buffer);
        assert!(c as u64 == spec_capacity(a, s.buffered_send_data, max_buffer), "stream.capacity.exact");
        assert!(a < 0 || c as i64 <= a as i64, "stream.capacity.le_assigned");
        assert!(a >= 0 || c == 0, "stream.capacity.zero_when_negative");
        kani::cover!(c > 0 && s.buffered_send_data > 0, "cover.partial");
        kani::cover!(a < 0, "cover.negative");
        std::mem::forget(s);
    }

    // C16/C06: assign_capacity adds exactly `capacity` to the assigned window and wakes the sender
    // (slot taken, send_capacity_inc set) iff the reported capacity strictly grew.
    // @harness id=stream_assign_capacity props=C16,C06,C02,C08 kind=complete tier=quick fn=Stream::assign_capacity,Stream::notify_capacity,Stream::notify_send
    #[kani::proof]
    fn stream_assign_capacity() {
        let mut s = Stream::new(sid(), 0, 0);
        let (w, a): (i32, i32) = (kani::any(), kani::any());
        let cap: u32 = kani::any();
        // requires (try_assign_capacity, the only caller): 0 < cap, and a + cap fits a window (I-send-pool)
        kani::assume(cap > 0 && cap <= MAX_WINDOW_SIZE && a as i64 + cap as i64 <= MAX_WINDOW_SIZE as i64);
        s.send_flow = mk_flow(w, a);
        s.buffered_send_data = kani::any();
        s.send_capacity_inc = kani::any();
        let inc0 = s.send_capacity_inc;
        let had_task: bool = kani::any();
        s.send_task = if had_task { Some(noop_waker()) } else { None };
        let max_buffer: usize = kani::any();
        let before = s.capacity(max_buffer);
        s.assign_capacity(cap, max_buffer);
        let after = s.capacity(max_buffer);
        assert!(raw(&s.send_flow) == (w, a + cap as i32), "stream.assign_capacity.adds_exactly");
        assert!(after >= before, "stream.assign_capacity.capacity_monotone");
        if after > before {
            assert!(s.send_capacity_inc, "stream.assign_capacity.flag_set_when_grew");
            assert!(s.send_task.is_none(), "stream.assign_capacity.sender_woken_when_grew");
        } else {
            assert!(s.send_capacity_inc == inc0 && s.send_task.is_some() == had_task, "stream.assign_capacity.silent_when_not_grown");
        }
        kani::cover!(after > before && had_task, "cover.grew");
        kani::cover!(after == before, "cover.capped_by_buffer_limit");
        std::mem::forget(s);
    }

    // C02/C16: send_data(len) consumes exactly len from window, assigned capacity, buffered and requested.
    // @harness id=stream_send_data props=C02,C16,C06,C08 kind=complete tier=quick fn=Stream::send_data
    #[kani::proof]
    fn stream_send_data() {
        let mut s = Stream::new(sid(), 0, 0);
        let (w, a): (i32, i32) = (kani::any(), kani::any());
        let len: u32 = kani::any();
        let (buffered, requested): (usize, u32) = (kani::any(), kani::any());
        // requires (pop_frame, the only caller): len <= available, len <= window (checked just before),
        // len <= buffered (I-cap: buffered == sum of queued DATA), len <= requested (I-cap: available <= requested)
        kani::assume(len <= MAX_WINDOW_SIZE && (len == 0 || (len as i64 <= a as i64 && len as i64 <= w as i64)));
        kani::assume(len as usize <= buffered && len <= requested);
        s.send_flow = mk_flow(w, a);
        s.buffered_send_data = buffered;
        s.requested_send_capacity = requested;
        let had_task: bool = kani::any();
        s.send_task = if had_task { Some(noop_waker()) } else { None };
        let max_buffer: usize = kani::any();
        let before = s.capacity(max_buffer);
        s.send_data(len, max_buffer);
        let after = s.capacity(max_buffer);
        assert!(raw(&s.send_flow) == (w - len as i32, a - len as i32), "stream.send_data.both_windows_minus_len");
        assert!(s.buffered_send_data == buffered - len as usize, "stream.send_data.buffered_minus_len");
        assert!(s.requested_send_capacity == requested - len, "stream.send_data.requested_minus_len");
        if after > before {
            assert!(s.send_capacity_inc && s.send_task.is_none(), "stream.send_data.sender_woken_when_capacity_grew");
        } else {
            assert!(s.send_task.is_some() == had_task, "stream.send_data.silent_otherwise");
        }
        kani::cover!(len > 0 && after > before, "cover.buffer_limit_released");
        kani::cover!(len == 0 && w < 0, "cover.zero_len_negative_window");
        std::mem::forget(s);
    }

    // C13: content-length accounting.
    // @harness id=stream_content_length props=C13,C08 kind=complete tier=quick fn=Stream::dec_content_length,Stream::ensure_content_length_zero,ContentLength::is_head
    #[kani::proof]
    fn stream_content_length() {
        let mut s = Stream::new(sid(), 0, 0);
        let rem: u64 = kani::any();
        let len: usize = kani::any();
        let k: u8 = kani::any();
        s.content_length = match k % 3 {
            0 => ContentLength::Omitted,
            1 => ContentLength::Head,
            _ => ContentLength::Remaining(rem),
        };
        assert!(s.content_length.is_head() == (k % 3 == 1), "stream.content_length.is_head");
        let zero_before = s.ensure_content_length_zero();
        assert!(zero_before.is_ok() == !(k % 3 == 2 && rem != 0), "stream.ensure_content_length_zero.err_iff_bytes_outstanding");
        let r = s.dec_content_length(len);
        match k % 3 {
            0 => assert!(r.is_ok() && matches!(s.content_length, ContentLength::Omitted), "stream.dec_content_length.omitted_accepts_anything"),
            1 => assert!(r.is_ok() == (len == 0), "stream.dec_content_length.head_rejects_any_body"),
            _ => {
                if len as u64 <= rem {
                    assert!(r.is_ok() && matches!(s.content_length, ContentLength::Remaining(x) if x == rem - len as u64), "stream.dec_content_length.subtracts_exactly");
                } else {
                    assert!(r.is_err(), "stream.dec_content_length.overrun_is_error");
                    assert!(matches!(s.content_length, ContentLength::Remaining(x) if x == rem), "stream.dec_content_length.overrun_leaves_remaining");
                }
            }
        }
        kani::cover!(k % 3 == 2 && len as u64 > rem, "cover.overrun");
        kani::cover!(k % 3 == 2 && len as u64 == rem && rem > 0, "cover.exact");
        std::mem::forget(s);
    }

    // C19/C18/C05: the release rule.
    // @harness id=stream_release_rule props=C19,C18,C05,C17 kind=complete tier=quick fn=Stream::is_closed,Stream::is_released,Stream::is_canceled_interest,Stream::is_send_ready,Stream::is_pending_reset_expiration
    #[kani::proof]
    fn stream_release_rule() {
        let s = any_stream(sid());
        let closed_state = rfc_closed(abs(&s.state));
        // deques are empty in any_stream
        assert!(s.is_closed() == (closed_state && s.buffered_send_data == 0), "stream.is_closed.state_closed_and_flushed");
        let queued = s.is_pending_send || s.is_pending_send_capacity || s.is_pending_accept || s.is_pending_window_update || s.is_pending_open;
        assert!(
            s.is_released() == (s.is_closed() && s.ref_count == 0 && !queued && s.reset_at.is_none()),
            "stream.is_released.closed_unreferenced_unqueued_not_remembered"
        );
        assert!(s.is_canceled_interest() == (s.ref_count == 0 && !closed_state), "stream.is_canceled_interest.exact");
        assert!(s.is_send_ready() == (!s.is_pending_open && !s.is_pending_push), "stream.is_send_ready.exact");
        assert!(s.is_pending_reset_expiration() == s.reset_at.is_some(), "stream.is_pending_reset_expiration.exact");
        kani::cover!(s.is_released(), "cover.released");
        kani::cover!(s.is_canceled_interest(), "cover.canceled");
        std::mem::forget(s);
    }

    // C06/C07/C17: set_reset records exactly (id, code, initiator) and wakes all three waiters.
    // @harness id=stream_set_reset_wakes props=C06,C07,C17,C08 kind=complete tier=quick fn=Stream::set_reset,Stream::notify_send,Stream::notify_recv,Stream::notify_push,Stream::wait_send
    #[kani::proof]
    fn stream_set_reset_wakes() {
        let id = any_stream_id();
        let mut s = Stream::new(id, 0, 0);
        s.state = any_state();
        s.send_task = any_waker_slot();
        s.recv_task = any_waker_slot();
        s.push_task = any_waker_slot();
        let code: u32 = kani::any();
        let who = any_initiator();
        s.set_reset(Reason::from(code), who);
        assert!(s.send_task.is_none() && s.recv_task.is_none() && s.push_task.is_none(), "stream.set_reset.all_waiters_woken");
        assert!(cause_sig(&s.state) == Some((0, id.into(), code, ini(who), 0)), "stream.set_reset.records_exact");
        assert!(abs(&s.state) == Abs::ClosedErr, "stream.set_reset.closed");
        // wait_send stores the waker (store-before-Pending)
        let w = noop_waker();
        let cx = Context::from_waker(&w);
        s.wait_send(&cx);
        assert!(s.send_task.is_some(), "stream.wait_send.stores_waker");
        kani::cover!(code > 13, "cover.unknown_code");
        std::mem::forget(s);
    }

    // C19: reference counting never wraps.
    // @harness id=stream_ref_count props=C19,C08 kind=complete tier=quick fn=Stream::ref_inc,Stream::ref_dec
    #[kani::proof]
    fn stream_ref_count() {
        let mut s = Stream::new(sid(), 0, 0);
        let n: usize = kani::any();
        s.ref_count = n;
        if kani::any() {
            kani::assume(n < usize::MAX); // asserted by the body; a process cannot hold usize::MAX handles
            s.ref_inc();
            assert!(s.ref_count == n + 1, "stream.ref_inc.plus_one");
        } else {
            kani::assume(n > 0); // every ref_dec is paired with an earlier ref_inc (OpaqueStreamRef::drop)
            s.ref_dec();
            assert!(s.ref_count == n - 1, "stream.ref_dec.minus_one");
        }
        kani::cover!(s.ref_count == 0, "cover.last_ref");
        std::mem::forget(s);
    }

    // C03/C02: a new stream starts with the configured windows, nothing assigned on the send side.
    // @harness id=stream_new props=C02,C03,C16,C08 kind=complete tier=quick fn=Stream::new
    #[kani::proof]
    fn stream_new() {
        let (sw, rw): (u32, u32) = (kani::any(), kani::any());
        // requires: both come from SETTINGS_INITIAL_WINDOW_SIZE values, validated <= 2^31-1 on load / by the builder
        kani::assume(sw <= MAX_WINDOW_SIZE && rw <= MAX_WINDOW_SIZE);
        let s = Stream::new(sid(), sw, rw);
        assert!(raw(&s.send_flow) == (sw as i32, 0), "stream.new.send_window_is_peer_initial_nothing_assigned");
        assert!(raw(&s.recv_flow) == (rw as i32, rw as i32), "stream.new.recv_window_is_local_initial");
        assert!(s.in_flight_recv_data == 0 && s.buffered_send_data == 0 && s.requested_send_capacity == 0, "stream.new.counters_zero");
        assert!(s.state.is_idle() && !s.is_counted && s.ref_count == 0 && s.is_recv, "stream.new.idle_uncounted");
        kani::cover!(sw > 0 && rw > 0, "cover.nonzero");
        std::mem::forget(s);
    }
}
