//! Contracts for src/proto/ping_pong.rs — the PING half of C14 ("PING acknowledged exactly once, in
//! order") and C07 for user pings (nothing hangs: a waiter is woken when the pong arrives or the
//! connection goes away, and a closed connection answers BrokenPipe).
//!
//! `PingPong` holds three single slots:
//!   pending_pong  the payload of the peer's PING that we still owe an ACK for,
//!   pending_ping  the graceful-shutdown PING (payload Ping::SHUTDOWN, `sent` or not),
//!   user_pings    the shared state of the one user PING (payload Ping::USER):
//!                 EMPTY -> PENDING_PING -> PENDING_PONG -> RECEIVED_PONG -> EMPTY, CLOSED on drop.
//!
//! Preconditions that come from the (NOT verified here) discipline of `Connection::poll_ready`, which
//! runs `send_pending_pong` and `send_pending_ping` to completion before the next frame is read:
//!   I-single-slot  recv_ping is called with `pending_pong == None` (it is the `assert!` in the body);
//!   I-shutdown     `pending_ping`'s payload is Ping::SHUTDOWN (its only writer is `ping_shutdown`;
//!                  established by pp_new_take_shutdown, assumed by the builder below).
#![allow(dead_code, unused_imports)]
use super::*;

pub(crate) type Payload8 = [u8; 8];

/// (pending_ping (payload, sent), pending_pong, user state)
pub(crate) type PpSig = (Option<(Payload8, bool)>, Option<Payload8>, Option<usize>);

impl PingPong {
    pub(crate) fn vk_sig(&self) -> PpSig {
        (
            self.pending_ping.as_ref().map(|p| (p.payload, p.sent)),
            self.pending_pong,
            self.user_pings.as_ref().map(|u| u.0.state.load(Ordering::Acquire)),
        )
    }

    /// A PingPong of the given shape; `user_state` is one of the five USER_STATE_* values.
    pub(crate) fn vk_mk(shutdown: Option<bool>, pong: Option<Payload8>, user_state: Option<usize>) -> PingPong {
        PingPong {
            pending_ping: shutdown.map(|sent| PendingPing { payload: Ping::SHUTDOWN, sent }),
            pending_pong: pong,
            user_pings: user_state.map(|s| UserPingsRx(mk_user_inner(s))),
        }
    }

    /// ANY PingPong satisfying I-shutdown.
    #[cfg(kani)]
    pub(crate) fn vk_any() -> PingPong {
        let shutdown = if kani::any() { Some(kani::any()) } else { None };
        let pong = if kani::any() { Some(kani::any()) } else { None };
        let user = if kani::any() { Some(any_user_state()) } else { None };
        PingPong::vk_mk(shutdown, pong, user)
    }

    /// The user handle sharing this PingPong's user-ping state (what `take_user_pings` handed out).
    pub(crate) fn vk_user_handle(&self) -> Option<UserPings> {
        self.user_pings.as_ref().map(|u| UserPings(u.0.clone()))
    }
}

fn mk_user_inner(state: usize) -> Arc<UserPingsInner> {
    Arc::new(UserPingsInner {
        state: AtomicUsize::new(state),
        ping_task: AtomicWaker::new(),
        pong_task: AtomicWaker::new(),
    })
}

#[cfg(kani)]
pub(crate) fn any_user_state() -> usize {
    let s: usize = kani::any();
    kani::assume(s <= USER_STATE_CLOSED);
    s
}

// A waker that counts its wake-ups (data pointer = &AtomicUsize).
unsafe fn cw_clone(p: *const ()) -> std::task::RawWaker {
    std::task::RawWaker::new(p, &CW_VTABLE)
}
unsafe fn cw_wake(p: *const ()) {
    (*(p as *const AtomicUsize)).fetch_add(1, Ordering::SeqCst);
}
unsafe fn cw_drop(_: *const ()) {}
static CW_VTABLE: std::task::RawWakerVTable = std::task::RawWakerVTable::new(cw_clone, cw_wake, cw_wake, cw_drop);

/// The counter must outlive every clone of the waker (harnesses keep it on their stack).
pub(crate) fn counting_waker(counter: &AtomicUsize) -> std::task::Waker {
    // SAFETY: the vtable functions only touch the AtomicUsize behind the pointer.
    unsafe { std::task::Waker::from_raw(std::task::RawWaker::new(counter as *const AtomicUsize as *const (), &CW_VTABLE)) }
}

#[cfg(kani)]
mod proofs {
    use super::*;
    use crate::proto::verif_kani::{has_room, head9, mk_codec, snap, IoMode};
    use crate::verif_kani::noop_waker;

    // @harness id=pp_new_take_shutdown props=C14,C15,C08 kind=complete tier=quick fn=PingPong::new,PingPong::take_user_pings,PingPong::ping_shutdown
    #[kani::proof]
    #[kani::stub(<crate::proto::Error as std::convert::From<std::io::Error>>::from, crate::proto::verif_kani::io_error_to_proto_error_stub)]
    fn pp_new_take_shutdown() {
        let mut p = PingPong::new();
        assert!(p.vk_sig() == (None, None, None), "pp.new.all_slots_empty");
        // requires: no shutdown ping pending (call site: go_away_gracefully returns early when a
        // GOAWAY was already recorded, and only it calls ping_shutdown)
        p.ping_shutdown();
        assert!(p.vk_sig() == (Some((Ping::SHUTDOWN, false)), None, None), "pp.ping_shutdown.queues_unsent_shutdown_ping_only");
        let h1 = p.take_user_pings();
        assert!(h1.is_some(), "pp.take_user_pings.first_call_some");
        assert!(p.vk_sig() == (Some((Ping::SHUTDOWN, false)), None, Some(USER_STATE_EMPTY)), "pp.take_user_pings.state_empty_rest_untouched");
        let h2 = p.take_user_pings();
        assert!(h2.is_none(), "pp.take_user_pings.second_call_none");
        assert!(p.vk_sig().2 == Some(USER_STATE_EMPTY), "pp.take_user_pings.second_call_changes_nothing");
        // the handle and the connection side share ONE state
        let h = h1.unwrap();
        let r = h.send_ping();
        assert!(r.is_ok() && p.vk_sig().2 == Some(USER_STATE_PENDING_PING), "pp.take_user_pings.handle_shares_state");
        kani::cover!(r.is_ok(), "cover.ran");
        std::mem::forget(r);
    }

    // recv_ping from any state (I-single-slot, I-shutdown), any PING frame.
    // @harness id=pp_recv_ping props=C14,C15,C07,C08 kind=complete tier=quick fn=PingPong::recv_ping,UserPingsRx::receive_pong,ReceivedPing::is_shutdown
    #[kani::proof]
    #[kani::unwind(10)]
    fn pp_recv_ping() {
        let shutdown: Option<bool> = if kani::any() { Some(kani::any()) } else { None };
        let user: Option<usize> = if kani::any() { Some(any_user_state()) } else { None };
        // a waiter in poll_pong, to observe the wake-up (declared first: it must outlive `p`)
        let woken = AtomicUsize::new(0);
        let cw = counting_waker(&woken);
        let mut p = PingPong::vk_mk(shutdown, None, user); // I-single-slot: pending_pong == None
        let s0 = p.vk_sig();
        if let Some(ref u) = p.user_pings {
            u.0.pong_task.register(&cw);
        }
        let payload: Payload8 = kani::any();
        let ack: bool = kani::any();
        let frame = if ack { Ping::pong(payload) } else { Ping::new(payload) };

        let r = p.recv_ping(frame);

        let s1 = p.vk_sig();
        let wakes = woken.load(Ordering::SeqCst);
        if !ack {
            // RFC 9113 6.7: a PING without ACK must be answered with an identical payload
            assert!(matches!(r, ReceivedPing::MustAck), "pp.recv_ping.non_ack_must_ack");
            assert!(s1 == (s0.0, Some(payload), s0.2), "pp.recv_ping.non_ack_stores_same_payload_only");
            assert!(wakes == 0, "pp.recv_ping.non_ack_wakes_nobody");
        } else {
            // an ACK is never answered
            assert!(s1.1.is_none(), "pp.recv_ping.ack_leaves_pong_slot_empty");
            assert!(!matches!(r, ReceivedPing::MustAck), "pp.recv_ping.ack_is_never_acked");
            let shutdown_match = s0.0.is_some() && payload == Ping::SHUTDOWN;
            let user_match = !shutdown_match && s0.2 == Some(USER_STATE_PENDING_PONG) && payload == Ping::USER;
            if shutdown_match {
                // the ACK answers the shutdown ping: consumed
                assert!(r.is_shutdown(), "pp.recv_ping.shutdown_ack_reports_shutdown");
                assert!(s1 == (None, None, s0.2), "pp.recv_ping.shutdown_ack_consumes_ping_only");
                assert!(wakes == 0, "pp.recv_ping.shutdown_ack_wakes_nobody");
            } else if user_match {
                // the ACK answers the user ping that was SENT (PENDING_PONG): completed, waiter woken
                assert!(matches!(r, ReceivedPing::Unknown), "pp.recv_ping.user_ack_not_shutdown");
                assert!(s1 == (s0.0, None, Some(USER_STATE_RECEIVED_PONG)), "pp.recv_ping.user_ack_completes_user_ping_only");
                assert!(wakes == 1, "pp.recv_ping.user_ack_wakes_waiter_once");
            } else {
                // the ACK answers nothing we sent: ignored (RFC 9113 defines no error for it)
                assert!(matches!(r, ReceivedPing::Unknown), "pp.recv_ping.stray_ack_unknown");
                assert!(s1 == s0, "pp.recv_ping.stray_ack_changes_nothing");
                assert!(wakes == 0, "pp.recv_ping.stray_ack_wakes_nobody");
            }
            assert!(r.is_shutdown() == shutdown_match, "pp.recv_ping.shutdown_iff_shutdown_ping_answered");
            kani::cover!(shutdown_match && s0.0 == Some((Ping::SHUTDOWN, true)), "cover.shutdown_ack");
            kani::cover!(user_match && s0.0.is_some(), "cover.user_ack_while_shutdown_pending");
            kani::cover!(!shutdown_match && !user_match && payload == Ping::USER && s0.2 == Some(USER_STATE_PENDING_PING), "cover.user_ack_before_ping_was_sent_ignored");
        }
        kani::cover!(!ack, "cover.must_ack");
        std::mem::forget(p);
    }

    // Exactly once: the same ACK delivered twice completes a ping at most once.
    // @harness id=pp_ack_consumed_once props=C14,C15,C07,C08 kind=complete tier=quick fn=PingPong::recv_ping
    #[kani::proof]
    #[kani::unwind(10)]
    fn pp_ack_consumed_once() {
        let shutdown: Option<bool> = if kani::any() { Some(kani::any()) } else { None };
        let user: Option<usize> = if kani::any() { Some(any_user_state()) } else { None };
        let mut p = PingPong::vk_mk(shutdown, None, user);
        let payload: Payload8 = kani::any();
        let r1 = p.recv_ping(Ping::pong(payload));
        let s1 = p.vk_sig();
        let r2 = p.recv_ping(Ping::pong(payload));
        let s2 = p.vk_sig();
        let completed1 = r1.is_shutdown() || s1.2 != user;
        if completed1 {
            assert!(matches!(r2, ReceivedPing::Unknown) && s2 == s1, "pp.ack_twice.second_answers_nothing");
        }
        assert!(!(r1.is_shutdown() && r2.is_shutdown()), "pp.ack_twice.shutdown_reported_at_most_once");
        kani::cover!(r1.is_shutdown(), "cover.shutdown_then_stray");
        kani::cover!(s1.2 == Some(USER_STATE_RECEIVED_PONG) && user == Some(USER_STATE_PENDING_PONG), "cover.user_then_stray");
    }

    // The user side of the user-ping machine, from every state.
    // @harness id=pp_user_pings props=C14,C07,C08 kind=complete tier=quick fn=UserPings::send_ping,UserPings::poll_pong,Drop@UserPingsRx::drop
    #[kani::proof]
    #[kani::stub(<crate::proto::Error as std::convert::From<std::io::Error>>::from, crate::proto::verif_kani::io_error_to_proto_error_stub)]
    fn pp_user_pings() {
        let st = any_user_state();
        let p = PingPong::vk_mk(None, None, Some(st));
        let h = p.vk_user_handle().unwrap();
        let w = noop_waker();
        let mut cx = Context::from_waker(&w);
        let op: u8 = kani::any();
        if op % 3 == 0 {
            let r = h.send_ping();
            let s1 = p.vk_sig().2.unwrap();
            match st {
                USER_STATE_EMPTY => assert!(r.is_ok() && s1 == USER_STATE_PENDING_PING, "pp.send_ping.empty_queues_ping"),
                USER_STATE_CLOSED => {
                    // connection gone: BrokenPipe, not a hang and not "pending"
                    assert!(matches!(r, Err(Some(proto::Error::Io(io::ErrorKind::BrokenPipe, _)))) && s1 == st, "pp.send_ping.closed_is_broken_pipe");
                }
                // one user ping at a time: Err(None) is mapped to UserError::SendPingWhilePending by share.rs
                _ => assert!(matches!(r, Err(None)) && s1 == st, "pp.send_ping.while_pending_is_user_error_state_unchanged"),
            }
            kani::cover!(matches!(r, Err(None)) && st == USER_STATE_RECEIVED_PONG, "cover.send_while_pong_unread");
            std::mem::forget(r);
        } else if op % 3 == 1 {
            let r = h.poll_pong(&mut cx);
            let s1 = p.vk_sig().2.unwrap();
            match st {
                USER_STATE_RECEIVED_PONG => assert!(matches!(r, Poll::Ready(Ok(()))) && s1 == USER_STATE_EMPTY, "pp.poll_pong.received_is_consumed_once"),
                USER_STATE_CLOSED => assert!(matches!(r, Poll::Ready(Err(proto::Error::Io(io::ErrorKind::BrokenPipe, _)))) && s1 == st, "pp.poll_pong.closed_is_broken_pipe"),
                _ => assert!(r.is_pending() && s1 == st, "pp.poll_pong.otherwise_pending_state_unchanged"),
            }
            kani::cover!(matches!(r, Poll::Ready(Ok(()))), "cover.pong_delivered");
            std::mem::forget(r);
        } else {
            // the connection (PingPong, hence UserPingsRx) goes away: whatever the state, CLOSED
            drop(p);
            assert!(h.0.state.load(Ordering::Acquire) == USER_STATE_CLOSED, "pp.drop_rx.closes_state");
            let r = h.poll_pong(&mut cx);
            assert!(matches!(r, Poll::Ready(Err(_))), "pp.drop_rx.poll_pong_ready_err_afterwards");
            let r2 = h.send_ping();
            assert!(matches!(r2, Err(Some(_))), "pp.drop_rx.send_ping_err_afterwards");
            kani::cover!(st == USER_STATE_PENDING_PONG, "cover.dropped_while_waiting_for_pong");
            std::mem::forget(r);
            std::mem::forget(r2);
            return;
        }
        std::mem::forget(p);
    }

    // C07: a task parked in poll_pong is woken by the pong and by the connection going away.
    // @harness id=pp_user_ping_waiter_woken props=C07,C14,C08 kind=complete tier=quick fn=UserPings::poll_pong,UserPingsRx::receive_pong,Drop@UserPingsRx::drop
    #[kani::proof]
    #[kani::unwind(10)]
    #[kani::stub(<crate::proto::Error as std::convert::From<std::io::Error>>::from, crate::proto::verif_kani::io_error_to_proto_error_stub)]
    fn pp_user_ping_waiter_woken() {
        let st = any_user_state();
        kani::assume(st != USER_STATE_RECEIVED_PONG && st != USER_STATE_CLOSED);
        let woken = AtomicUsize::new(0);
        let cw = counting_waker(&woken);
        let mut cx = Context::from_waker(&cw);
        let mut p = PingPong::vk_mk(None, None, Some(st));
        let h = p.vk_user_handle().unwrap();
        let r0 = h.poll_pong(&mut cx);
        assert!(r0.is_pending() && woken.load(Ordering::SeqCst) == 0, "pp.waiter.parked");
        if kani::any() {
            kani::assume(st == USER_STATE_PENDING_PONG);
            let r = p.recv_ping(Ping::pong(Ping::USER));
            assert!(matches!(r, ReceivedPing::Unknown), "pp.waiter.pong_is_not_shutdown");
            assert!(woken.load(Ordering::SeqCst) == 1, "pp.waiter.woken_by_pong");
            let r1 = h.poll_pong(&mut cx);
            assert!(matches!(r1, Poll::Ready(Ok(()))), "pp.waiter.pong_delivered_after_wake");
            kani::cover!(true, "cover.woken_by_pong");
            std::mem::forget(r1);
            std::mem::forget(p);
        } else {
            drop(p);
            assert!(woken.load(Ordering::SeqCst) == 1, "pp.waiter.woken_by_connection_drop");
            let r1 = h.poll_pong(&mut cx);
            assert!(matches!(r1, Poll::Ready(Err(_))), "pp.waiter.error_delivered_after_drop");
            kani::cover!(st == USER_STATE_PENDING_PING, "cover.woken_by_drop");
            std::mem::forget(r1);
        }
        std::mem::forget(r0);
    }

    // ---- send_pending_pong / send_pending_ping over a real Codec on the symbolic transport (see
    // proto__mod.rs / proto__go_away.rs: fill and transport answer are enumerated, hence kind=bounded).

    /// `fr` is exactly one PING frame (RFC 9113 section 6.7: length 8, type 0x6, flags ACK or none,
    /// stream 0) with this payload.
    fn is_ping_frame(fr: &[u8], ack: bool, payload: &Payload8) -> bool {
        fr.len() == 17
            && head9(fr) == (8, 6, if ack { 1 } else { 0 }, 0)
            && fr[9] == payload[0]
            && fr[10] == payload[1]
            && fr[11] == payload[2]
            && fr[12] == payload[3]
            && fr[13] == payload[4]
            && fr[14] == payload[5]
            && fr[15] == payload[6]
            && fr[16] == payload[7]
    }

    fn any_shape_without_pong(pong: Option<Payload8>) -> PingPong {
        let shutdown: Option<bool> = if kani::any() { Some(kani::any()) } else { None };
        let user: Option<usize> = if kani::any() { Some(any_user_state()) } else { None };
        PingPong::vk_mk(shutdown, pong, user)
    }

    // @harness id=pp_send_pong_room props=C14,C08 kind=bounded bound=write_buffer_fill_23_of_1200 tier=quick fn=PingPong::send_pending_pong
    #[kani::proof]
    #[kani::unwind(10)]
    fn pp_send_pong_room() {
        const FILL: usize = 23;
        fn body(has_pong: bool) {
            let payload: Payload8 = kani::any();
            let mut p = any_shape_without_pong(if has_pong { Some(payload) } else { None });
            let s0 = p.vk_sig();
            let mut codec: Codec<_, bytes::Bytes> = mk_codec(IoMode::Fail, FILL);
            let c0 = snap(&codec);
            assert!(has_room(&codec), "pp.send_pong.room.harness_prestate_has_room");
            let w = noop_waker();
            let mut cx = Context::from_waker(&w);

            let r = p.send_pending_pong(&mut cx, &mut codec);

            let s1 = p.vk_sig();
            let c1 = snap(&codec);
            assert!(matches!(r, Poll::Ready(Ok(()))), "pp.send_pong.room.ready_ok");
            assert!(s1 == (s0.0, None, s0.2), "pp.send_pong.room.slot_empty_rest_untouched");
            assert!(codec.vk_io().writes == 0 && c1.settings() == c0.settings() && !c1.has_next, "pp.send_pong.room.no_io_settings_untouched");
            if has_pong {
                // exactly one PING+ACK with the SAME payload, behind the earlier bytes
                assert!(c1.buffered == FILL + 17, "pp.send_pong.room.exactly_one_frame_appended");
                let b = codec.vk_buffered();
                assert!(is_ping_frame(&b[FILL..], true, &payload), "pp.send_pong.room.frame_is_ack_with_same_payload");
                assert!(b[0] == 0xEE && b[FILL - 1] == 0xEE, "pp.send_pong.room.earlier_frames_untouched");
            } else {
                assert!(c1 == c0, "pp.send_pong.nothing_owed_buffers_nothing");
            }
            std::mem::forget(r);
            std::mem::forget(p);
            std::mem::forget(codec);
        }
        let has_pong: bool = kani::any();
        if has_pong {
            body(true);
        } else {
            body(false);
        }
        kani::cover!(has_pong, "cover.pong_buffered");
        kani::cover!(!has_pong, "cover.nothing_owed");
    }

    // @harness id=pp_send_pong_full props=C14,C07,C08 kind=bounded bound=write_buffer_fill_1190_of_1200 tier=quick fn=PingPong::send_pending_pong
    #[kani::proof]
    #[kani::unwind(10)]
    fn pp_send_pong_full() {
        const FILL: usize = 1190;
        fn body(mode: IoMode) {
            let payload: Payload8 = kani::any();
            let mut p = any_shape_without_pong(Some(payload));
            let s0 = p.vk_sig();
            let mut codec: Codec<_, bytes::Bytes> = mk_codec(mode, FILL);
            let c0 = snap(&codec);
            assert!(!has_room(&codec), "pp.send_pong.full.harness_prestate_has_no_room");
            let w = noop_waker();
            let mut cx = Context::from_waker(&w);

            let r = p.send_pending_pong(&mut cx, &mut codec);

            let s1 = p.vk_sig();
            let c1 = snap(&codec);
            match mode {
                IoMode::Accept => {
                    // flushed, then exactly one PING+ACK with the SAME payload
                    assert!(matches!(r, Poll::Ready(Ok(()))), "pp.send_pong.flush.ready_ok");
                    assert!(s1 == (s0.0, None, s0.2), "pp.send_pong.flush.slot_empty_rest_untouched");
                    assert!(c1.written == FILL && c1.buffered == 17, "pp.send_pong.flush.exactly_one_frame_buffered_after_flush");
                    assert!(is_ping_frame(codec.vk_buffered(), true, &payload), "pp.send_pong.flush.frame_is_ack_with_same_payload");
                    assert!(c1.settings() == c0.settings() && !c1.has_next, "pp.send_pong.flush.settings_untouched");
                }
                IoMode::Pending => {
                    // the ACK is still owed with the SAME payload; nothing was buffered
                    assert!(r.is_pending(), "pp.send_pong.blocked.pending");
                    assert!(s1 == s0, "pp.send_pong.blocked.payload_kept_state_unchanged");
                    assert!(c1 == c0, "pp.send_pong.blocked.buffers_nothing");
                }
                IoMode::Fail => {
                    assert!(matches!(r, Poll::Ready(Err(_))), "pp.send_pong.io_error_surfaces");
                    assert!(c1 == c0, "pp.send_pong.io_error_buffers_nothing");
                }
            }
            std::mem::forget(r);
            std::mem::forget(p);
            std::mem::forget(codec);
        }
        let k: u8 = kani::any();
        match k % 3 {
            0 => body(IoMode::Accept),
            1 => body(IoMode::Pending),
            _ => body(IoMode::Fail),
        }
        kani::cover!(k % 3 == 0, "cover.flushed_then_buffered");
        kani::cover!(k % 3 == 1, "cover.payload_kept");
        kani::cover!(k % 3 == 2, "cover.io_error");
    }

    // send_pending_ping, buffer has room, every shape of the ping slots.
    // @harness id=pp_send_ping_room props=C14,C07,C08 kind=bounded bound=write_buffer_fill_23_of_1200 tier=quick fn=PingPong::send_pending_ping
    #[kani::proof]
    #[kani::unwind(10)]
    #[kani::stub(<crate::proto::Error as std::convert::From<std::io::Error>>::from, crate::proto::verif_kani::io_error_to_proto_error_stub)]
    fn pp_send_ping_room() {
        const FILL: usize = 23;
        let woken = AtomicUsize::new(0);
        let cw = counting_waker(&woken);
        let mut cx = Context::from_waker(&cw);
        let pong: Option<Payload8> = if kani::any() { Some(kani::any()) } else { None };
        let mut p = any_shape_without_pong(pong);
        let s0 = p.vk_sig();
        let h = p.vk_user_handle();
        let mut codec: Codec<_, bytes::Bytes> = mk_codec(IoMode::Fail, FILL);
        let c0 = snap(&codec);

        let r = p.send_pending_ping(&mut cx, &mut codec);

        let s1 = p.vk_sig();
        let c1 = snap(&codec);
        assert!(matches!(r, Poll::Ready(Ok(()))), "pp.send_ping.room.ready_ok");
        assert!(codec.vk_io().writes == 0 && c1.settings() == c0.settings() && !c1.has_next, "pp.send_ping.room.no_io_settings_untouched");
        assert!(s1.1 == s0.1, "pp.send_ping.pong_slot_untouched");
        let b = codec.vk_buffered();
        match (s0.0, s0.2) {
            (Some((pl, false)), _) => {
                // the shutdown ping goes out exactly once: now, and it is marked sent
                assert!(c1.buffered == FILL + 17 && is_ping_frame(&b[FILL..], false, &Ping::SHUTDOWN), "pp.send_ping.shutdown_ping_buffered_once");
                assert!(s1 == (Some((pl, true)), s0.1, s0.2), "pp.send_ping.shutdown_marked_sent_rest_untouched");
            }
            (Some((_, true)), _) => {
                // already sent, waiting for its ACK: nothing more is sent (a user ping waits behind it)
                assert!(c1 == c0 && s1 == s0, "pp.send_ping.sent_shutdown_ping_not_repeated");
            }
            (None, Some(USER_STATE_PENDING_PING)) => {
                assert!(c1.buffered == FILL + 17 && is_ping_frame(&b[FILL..], false, &Ping::USER), "pp.send_ping.user_ping_buffered_once");
                assert!(s1 == (None, s0.1, Some(USER_STATE_PENDING_PONG)), "pp.send_ping.user_state_pending_pong_rest_untouched");
            }
            (None, Some(st)) => {
                // no user ping requested: nothing sent; the connection task is registered so that a
                // later send_ping wakes it (C07)
                assert!(c1 == c0 && s1 == s0, "pp.send_ping.no_request_sends_nothing");
                if st == USER_STATE_EMPTY {
                    let q = h.as_ref().unwrap().send_ping();
                    assert!(q.is_ok() && woken.load(Ordering::SeqCst) == 1, "pp.send_ping.later_user_ping_wakes_connection_task");
                    std::mem::forget(q);
                }
            }
            (None, None) => assert!(c1 == c0 && s1 == s0, "pp.send_ping.no_slots_nothing_happens"),
        }
        if c1.buffered > FILL {
            assert!(b[0] == 0xEE && b[FILL - 1] == 0xEE, "pp.send_ping.room.earlier_frames_untouched");
        }
        kani::cover!(matches!(s0.0, Some((_, false))) && s0.2 == Some(USER_STATE_PENDING_PING), "cover.shutdown_ping_before_user_ping");
        kani::cover!(s0.0.is_none() && s0.2 == Some(USER_STATE_PENDING_PING), "cover.user_ping_buffered");
        kani::cover!(s0.0.is_none() && s0.2 == Some(USER_STATE_EMPTY), "cover.task_registered");
        kani::cover!(matches!(s0.0, Some((_, true))), "cover.sent_not_repeated");
        std::mem::forget(r);
        std::mem::forget(p);
        std::mem::forget(codec);
    }

    // send_pending_ping when the buffer is full and the flush is accepted: the ping that is due (the
    // unsent shutdown ping, else a requested user ping) goes out exactly once.
    // @harness id=pp_send_ping_flush props=C14,C08 kind=bounded bound=write_buffer_fill_1190_of_1200 tier=quick fn=PingPong::send_pending_ping
    #[kani::proof]
    #[kani::unwind(10)]
    fn pp_send_ping_flush() {
        const FILL: usize = 1190;
        fn body(shutdown: bool) {
            let user: Option<usize> = if shutdown {
                if kani::any() { Some(any_user_state()) } else { None }
            } else {
                Some(USER_STATE_PENDING_PING)
            };
            let pong: Option<Payload8> = if kani::any() { Some(kani::any()) } else { None };
            let mut p = PingPong::vk_mk(if shutdown { Some(false) } else { None }, pong, user);
            let s0 = p.vk_sig();
            let mut codec: Codec<_, bytes::Bytes> = mk_codec(IoMode::Accept, FILL);
            let c0 = snap(&codec);
            assert!(!has_room(&codec), "pp.send_ping.flush.harness_prestate_has_no_room");
            let w = noop_waker();
            let mut cx = Context::from_waker(&w);

            let r = p.send_pending_ping(&mut cx, &mut codec);

            let s1 = p.vk_sig();
            let c1 = snap(&codec);
            assert!(matches!(r, Poll::Ready(Ok(()))), "pp.send_ping.flush.ready_ok");
            assert!(c1.written == FILL && c1.buffered == 17, "pp.send_ping.flush.exactly_one_frame_buffered_after_flush");
            assert!(c1.settings() == c0.settings() && !c1.has_next, "pp.send_ping.flush.settings_untouched");
            let want = if shutdown { Ping::SHUTDOWN } else { Ping::USER };
            assert!(is_ping_frame(codec.vk_buffered(), false, &want), "pp.send_ping.flush.frame_is_the_due_ping");
            if shutdown {
                assert!(s1 == (Some((Ping::SHUTDOWN, true)), s0.1, s0.2), "pp.send_ping.flush.shutdown_marked_sent_rest_untouched");
            } else {
                assert!(s1 == (None, s0.1, Some(USER_STATE_PENDING_PONG)), "pp.send_ping.flush.user_state_pending_pong_rest_untouched");
            }
            std::mem::forget(r);
            std::mem::forget(p);
            std::mem::forget(codec);
        }
        let shutdown: bool = kani::any();
        if shutdown {
            body(true);
        } else {
            body(false);
        }
        kani::cover!(shutdown, "cover.shutdown_ping_after_flush");
        kani::cover!(!shutdown, "cover.user_ping_after_flush");
    }

    // ... and when the transport blocks or fails: the ping stays due (not lost, not marked sent).
    // @harness id=pp_send_ping_blocked props=C14,C07,C08 kind=bounded bound=write_buffer_fill_1190_of_1200 tier=quick fn=PingPong::send_pending_ping
    #[kani::proof]
    #[kani::unwind(10)]
    fn pp_send_ping_blocked() {
        const FILL: usize = 1190;
        fn body(fail: bool, shutdown: bool) {
            let user: Option<usize> = if shutdown {
                if kani::any() { Some(any_user_state()) } else { None }
            } else {
                Some(USER_STATE_PENDING_PING)
            };
            let pong: Option<Payload8> = if kani::any() { Some(kani::any()) } else { None };
            let mut p = PingPong::vk_mk(if shutdown { Some(false) } else { None }, pong, user);
            let s0 = p.vk_sig();
            let mut codec: Codec<_, bytes::Bytes> = mk_codec(if fail { IoMode::Fail } else { IoMode::Pending }, FILL);
            let c0 = snap(&codec);
            let w = noop_waker();
            let mut cx = Context::from_waker(&w);

            let r = p.send_pending_ping(&mut cx, &mut codec);

            let s1 = p.vk_sig();
            let c1 = snap(&codec);
            if fail {
                assert!(matches!(r, Poll::Ready(Err(_))), "pp.send_ping.io_error_surfaces");
            } else {
                assert!(r.is_pending(), "pp.send_ping.blocked.pending");
            }
            assert!(s1 == s0, "pp.send_ping.blocked.ping_still_due_state_unchanged");
            assert!(c1 == c0, "pp.send_ping.blocked.buffers_nothing");
            std::mem::forget(r);
            std::mem::forget(p);
            std::mem::forget(codec);
        }
        let k: u8 = kani::any();
        match k % 4 {
            0 => body(false, true),
            1 => body(false, false),
            2 => body(true, true),
            _ => body(true, false),
        }
        kani::cover!(k % 4 == 0, "cover.shutdown_ping_still_due");
        kani::cover!(k % 4 == 1, "cover.user_ping_still_due");
        kani::cover!(k % 4 == 2, "cover.io_error");
    }
}
