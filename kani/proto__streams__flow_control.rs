//! Contracts for src/proto/streams/flow_control.rs (harness side).
//!
//! `FlowControl`'s two fields are private to that file, so the functions below are the *only* writers
//! of a window; the contracts here are therefore the step relations of the credit-accounting lemmas
//! (vspec/l_flow_lemmas.rs).  Every harness is loop-free over the full i32 x i32 x u32 domain (I-win:
//! `sz <= 2^31-1`, which the wire format and the user API guarantee) = complete proof.
#![allow(dead_code, unused_imports)]
use super::*;

pub(crate) const MAXW: u32 = MAX_WINDOW_SIZE;

#[cfg(kani)]
pub(crate) fn any_flow() -> FlowControl {
    FlowControl {
        window_size: Window(kani::any()),
        available: Window(kani::any()),
    }
}

pub(crate) fn mk_flow(window: i32, available: i32) -> FlowControl {
    FlowControl {
        window_size: Window(window),
        available: Window(available),
    }
}

pub(crate) fn raw(f: &FlowControl) -> (i32, i32) {
    (f.window_size.0, f.available.0)
}

pub(crate) fn win(w: Window) -> i32 {
    w.0
}

#[cfg(kani)]
mod proofs {
    use super::*;

    fn any_sz() -> u32 {
        let sz: u32 = kani::any();
        kani::assume(sz <= MAXW);
        sz
    }

    // Tool-chain sanity: without the I-win precondition the postcondition is false (sz >= 2^31 is
    // added as a negative number).  This harness MUST fail; if it verifies, nothing else is believed.
    // @harness id=fc_sanity_must_fail props=* kind=complete tier=quick expect=fail fn=FlowControl::inc_window
    #[kani::proof]
    fn fc_sanity_must_fail() {
        let mut f = any_flow();
        let (w0, _) = raw(&f);
        let sz: u32 = kani::any();
        if f.inc_window(sz).is_ok() {
            assert!(raw(&f).0 as i64 == w0 as i64 + sz as i64, "fc.sanity.must_fail");
        }
    }

    // @harness id=fc_inc_window props=C02,C03,C08,C09 kind=complete tier=quick fn=FlowControl::inc_window
    #[kani::proof]
    fn fc_inc_window() {
        let mut f = any_flow();
        let (w0, a0) = raw(&f);
        let sz = any_sz();
        let r = f.inc_window(sz);
        let (w1, a1) = raw(&f);
        assert!(a1 == a0, "fc.inc_window.available_untouched");
        match r {
            Ok(()) => {
                assert!(w1 as i64 == w0 as i64 + sz as i64, "fc.inc_window.ok_adds_exactly");
                assert!(w1 as i64 <= MAXW as i64, "fc.inc_window.ok_le_max");
            }
            Err(e) => {
                assert!(w1 == w0, "fc.inc_window.err_unchanged");
                assert!(w0 as i64 + sz as i64 > MAXW as i64, "fc.inc_window.err_only_above_max");
                assert!(e == Reason::FLOW_CONTROL_ERROR, "fc.inc_window.err_reason");
            }
        }
        kani::cover!(r.is_ok() && sz > 0, "cover.ok");
        kani::cover!(r.is_err(), "cover.err");
    }

    // @harness id=fc_dec_send_window props=C02,C08,C14 kind=complete tier=quick fn=FlowControl::dec_send_window
    #[kani::proof]
    fn fc_dec_send_window() {
        let mut f = any_flow();
        let (w0, a0) = raw(&f);
        let sz = any_sz();
        let r = f.dec_send_window(sz);
        let (w1, a1) = raw(&f);
        assert!(a1 == a0, "fc.dec_send_window.available_untouched");
        match r {
            Ok(()) => assert!(w1 as i64 == w0 as i64 - sz as i64, "fc.dec_send_window.ok_subtracts_exactly"),
            Err(e) => {
                assert!(w1 == w0, "fc.dec_send_window.err_unchanged");
                assert!((w0 as i64 - sz as i64) < i32::MIN as i64, "fc.dec_send_window.err_only_on_underflow");
                assert!(e == Reason::FLOW_CONTROL_ERROR, "fc.dec_send_window.err_reason");
            }
        }
        kani::cover!(r.is_ok() && w1 < 0 && w0 > 0, "cover.goes_negative");
        kani::cover!(r.is_err(), "cover.err");
    }

    // @harness id=fc_dec_recv_window props=C03,C08,C14 kind=complete tier=quick fn=FlowControl::dec_recv_window
    #[kani::proof]
    fn fc_dec_recv_window() {
        let mut f = any_flow();
        let (w0, a0) = raw(&f);
        let sz = any_sz();
        let r = f.dec_recv_window(sz);
        let (w1, a1) = raw(&f);
        match r {
            Ok(()) => {
                assert!(w1 as i64 == w0 as i64 - sz as i64, "fc.dec_recv_window.ok_window_exact");
                assert!(a1 as i64 == a0 as i64 - sz as i64, "fc.dec_recv_window.ok_available_exact");
                // the difference the peer is owed is unchanged
                assert!(a1 as i64 - w1 as i64 == a0 as i64 - w0 as i64, "fc.dec_recv_window.ok_owed_unchanged");
            }
            Err(e) => {
                assert!(
                    (w0 as i64 - sz as i64) < i32::MIN as i64 || (a0 as i64 - sz as i64) < i32::MIN as i64,
                    "fc.dec_recv_window.err_only_on_underflow"
                );
                assert!(e == Reason::FLOW_CONTROL_ERROR, "fc.dec_recv_window.err_reason");
            }
        }
        kani::cover!(r.is_ok() && sz > 0, "cover.ok");
        kani::cover!(r.is_err(), "cover.err");
    }

    // @harness id=fc_send_data props=C02,C03,C08,C16 kind=complete tier=quick fn=FlowControl::send_data
    #[kani::proof]
    fn fc_send_data() {
        let mut f = any_flow();
        let (w0, a0) = raw(&f);
        let sz = any_sz();
        // requires: the caller has checked the window (the real body asserts it)
        kani::assume(sz == 0 || w0 as i64 >= sz as i64);
        let r = f.send_data(sz);
        let (w1, a1) = raw(&f);
        match r {
            Ok(()) => {
                assert!(w1 as i64 == w0 as i64 - sz as i64, "fc.send_data.ok_window_exact");
                assert!(a1 as i64 == a0 as i64 - sz as i64, "fc.send_data.ok_available_exact");
                assert!(w1 >= 0 || sz == 0, "fc.send_data.window_never_driven_negative");
            }
            Err(_) => {
                assert!((a0 as i64 - sz as i64) < i32::MIN as i64, "fc.send_data.err_only_on_underflow");
            }
        }
        kani::cover!(r.is_ok() && sz > 0, "cover.ok");
        kani::cover!(sz == 0 && w0 < 0, "cover.zero_len_at_negative_window");
    }

    // @harness id=fc_capacity props=C02,C03,C16,C08 kind=complete tier=quick fn=FlowControl::assign_capacity,FlowControl::claim_capacity
    #[kani::proof]
    fn fc_capacity() {
        let mut f = any_flow();
        let (w0, a0) = raw(&f);
        let sz = any_sz();
        if kani::any() {
            let r = f.assign_capacity(sz);
            let (w1, a1) = raw(&f);
            assert!(w1 == w0, "fc.assign_capacity.window_untouched");
            match r {
                Ok(()) => assert!(a1 as i64 == a0 as i64 + sz as i64, "fc.assign_capacity.ok_exact"),
                Err(_) => {
                    assert!(a1 == a0, "fc.assign_capacity.err_unchanged");
                    assert!(a0 as i64 + sz as i64 > i32::MAX as i64, "fc.assign_capacity.err_only_on_overflow");
                }
            }
            kani::cover!(r.is_ok() && sz > 0, "cover.assign_ok");
        } else {
            let r = f.claim_capacity(sz);
            let (w1, a1) = raw(&f);
            assert!(w1 == w0, "fc.claim_capacity.window_untouched");
            match r {
                Ok(()) => assert!(a1 as i64 == a0 as i64 - sz as i64, "fc.claim_capacity.ok_exact"),
                Err(_) => {
                    assert!(a1 == a0, "fc.claim_capacity.err_unchanged");
                    assert!((a0 as i64 - sz as i64) < i32::MIN as i64, "fc.claim_capacity.err_only_on_underflow");
                }
            }
            kani::cover!(r.is_ok() && sz > 0, "cover.claim_ok");
        }
    }

    // @harness id=fc_observers props=C02,C03,C16,C08 kind=complete tier=quick fn=FlowControl::window_size,FlowControl::available,FlowControl::has_unavailable,FlowControl::new
    #[kani::proof]
    fn fc_observers() {
        let f = any_flow();
        let (w, a) = raw(&f);
        assert!(f.window_size() as i64 == if w < 0 { 0 } else { w as i64 }, "fc.window_size.is_max_w_0");
        assert!(f.available().0 == a, "fc.available.is_field");
        assert!(f.has_unavailable() == (w >= 0 && w > a), "fc.has_unavailable.exact");
        let n = FlowControl::new();
        assert!(raw(&n) == (0, 0), "fc.new.zero");
        kani::cover!(f.has_unavailable(), "cover.has_unavailable");
        kani::cover!(w < 0, "cover.negative");
    }

    // @harness id=fc_unclaimed_capacity props=C03,C06,C08 kind=complete tier=quick fn=FlowControl::unclaimed_capacity
    #[kani::proof]
    fn fc_unclaimed_capacity() {
        let f = any_flow();
        let (w, a) = raw(&f);
        // requires (I-recv-pool): what is owed to the peer fits a window
        kani::assume(a as i64 - w as i64 <= i32::MAX as i64);
        let r = f.unclaimed_capacity();
        let owed = a as i64 - w as i64;
        let threshold = (w / 2) as i64; // Rust division truncates toward zero
        match r {
            Some(d) => {
                assert!(owed > 0, "fc.unclaimed.some_only_if_owed");
                assert!(d as i64 == owed, "fc.unclaimed.some_is_exact_difference");
                assert!(owed >= threshold, "fc.unclaimed.some_reaches_threshold");
                assert!(d >= 1 && d <= MAXW, "fc.unclaimed.increment_legal_on_the_wire");
            }
            None => {
                assert!(owed <= 0 || owed < threshold, "fc.unclaimed.none_only_below_threshold");
            }
        }
        kani::cover!(r.is_some(), "cover.some");
        kani::cover!(r.is_none() && owed > 0, "cover.none_below_threshold");
    }

    // @harness id=fc_window_ops props=C02,C03,C08 kind=complete tier=quick fn=Window::as_size,Window::checked_size,Window::decrease_by,Window::increase_by,Window::add
    #[kani::proof]
    fn fc_window_ops() {
        let v: i32 = kani::any();
        let sz = any_sz();
        let w = Window(v);
        assert!(w.as_size() as i64 == if v < 0 { 0 } else { v as i64 }, "fc.window.as_size");
        if v >= 0 {
            assert!(w.checked_size() as i64 == v as i64, "fc.window.checked_size");
        }
        let mut d = w;
        match d.decrease_by(sz) {
            Ok(()) => assert!(d.0 as i64 == v as i64 - sz as i64, "fc.window.decrease_by.ok"),
            Err(_) => assert!(d.0 == v && (v as i64 - sz as i64) < i32::MIN as i64, "fc.window.decrease_by.err"),
        }
        let mut i = w;
        match i.increase_by(sz) {
            Ok(()) => assert!(i.0 as i64 == v as i64 + sz as i64, "fc.window.increase_by.ok"),
            Err(_) => assert!(i.0 == v && v as i64 + sz as i64 > i32::MAX as i64, "fc.window.increase_by.err"),
        }
        match w.add(sz) {
            Ok(n) => assert!(n.0 as i64 == v as i64 + sz as i64, "fc.window.add.ok"),
            Err(_) => assert!(v as i64 + sz as i64 > i32::MAX as i64, "fc.window.add.err"),
        }
        kani::cover!(v < 0, "cover.negative");
        kani::cover!(v > 0 && sz > 0, "cover.positive");
    }

    // @harness id=fc_window_cmp_usize props=C02,C16,C08 kind=complete tier=quick fn=PartialEq@Window::eq,PartialOrd@Window::partial_cmp
    #[kani::proof]
    fn fc_window_cmp_usize() {
        let v: i32 = kani::any();
        let n: usize = kani::any();
        let w = Window(v);
        assert!((w == n) == (v >= 0 && v as usize == n), "fc.window.eq_usize");
        assert!((w < n) == (v < 0 || (v as usize) < n), "fc.window.lt_usize");
        assert!((w > n) == (v >= 0 && (v as usize) > n), "fc.window.gt_usize");
        assert!((w >= n) == (v >= 0 && (v as usize) >= n), "fc.window.ge_usize");
        let i: isize = w.into();
        assert!(i == v as isize, "fc.window.into_isize");
        kani::cover!(v < 0, "cover.negative");
        kani::cover!(w > n, "cover.gt");
    }
}
