//! Contracts for src/proto/streams/recv.rs: receive windows (C03), protocol checks on received frames
//! (C09), content-length (C13), wake discipline (C06/C07), quotas (C18), GOAWAY cut-off (C15).
//!
//! Connection-level receive accounting, abstract view:  (window, available, in_flight)
//!   window     = what the peer may still send                (advertised credit)
//!   available  = window + what has been released but not yet announced by WINDOW_UPDATE
//!   in_flight  = bytes handed to the application (or held) and not released yet
//! I-recv-pool:  available + in_flight == target  (only set_target_connection_window changes target).
#![allow(dead_code, unused_imports)]
use super::*;
use super::store::Resolve;
use crate::verif_kani::{any_waker_slot, len_only_bytes, noop_waker};

pub(crate) fn recv_raw(r: &Recv) -> (i32, i32, u32) {
    let (w, a) = super::flow_control::verif_kani::raw(&r.flow);
    (w, a, r.in_flight_data)
}
pub(crate) fn recv_ids(r: &Recv) -> (Option<u32>, u32, u32) {
    (r.next_stream_id.ok().map(|i| i.into()), r.last_processed_id.into(), r.max_stream_id.into())
}
pub(crate) fn recv_refused(r: &Recv) -> Option<StreamId> {
    r.refused
}
pub(crate) fn recv_buffer_is_empty(r: &Recv) -> bool {
    r.buffer.is_empty()
}
pub(crate) fn recv_pending_window_updates_is_empty(r: &Recv) -> bool {
    r.pending_window_updates.is_empty()
}
pub(crate) fn recv_pending_accept_is_empty(r: &Recv) -> bool {
    r.pending_accept.is_empty()
}
pub(crate) fn recv_init_window(r: &Recv) -> u32 {
    r.init_window_sz
}
pub(crate) fn recv_set_init_window(r: &mut Recv, v: u32) {
    r.init_window_sz = v;
}
pub(crate) fn recv_ext_connect(r: &Recv) -> bool {
    r.is_extended_connect_protocol_enabled
}

/// A `Recv` with the given connection receive window state; queues and event buffer empty.
pub(crate) fn mk_recv(window: i32, available: i32, in_flight: u32, next: Result<StreamId, StreamIdOverflow>) -> Recv {
    Recv {
        init_window_sz: crate::frame::DEFAULT_INITIAL_WINDOW_SIZE,
        flow: super::flow_control::verif_kani::mk_flow(window, available),
        in_flight_data: in_flight,
        next_stream_id: next,
        pending_window_updates: store::Queue::new(),
        last_processed_id: StreamId::ZERO,
        max_stream_id: StreamId::MAX,
        pending_accept: store::Queue::new(),
        pending_reset_expired: store::Queue::new(),
        reset_duration: Duration::ZERO,
        buffer: Buffer::new(),
        refused: None,
        is_push_enabled: false,
        is_extended_connect_protocol_enabled: false,
    }
}

/// Any connection-level receive state (I-win: 0 <= window <= available <= 2^31-1 is NOT assumed here;
/// only the type-level bounds are; harnesses add what their contract needs).
#[cfg(kani)]
pub(crate) fn any_recv() -> Recv {
    let (w, a): (i32, i32) = (kani::any(), kani::any());
    let max = MAX_WINDOW_SIZE as i32;
    kani::assume(w <= max && a <= max);
    let next: u32 = kani::any();
    kani::assume(next >= 1 && next <= u32::MAX >> 1);
    let mut r = mk_recv(w, a, kani::any(), if kani::any() { Ok(StreamId::from(next)) } else { Err(StreamIdOverflow) });
    let iw: u32 = kani::any();
    kani::assume(iw <= MAX_WINDOW_SIZE);
    r.init_window_sz = iw;
    let (lp, mx): (u32, u32) = (kani::any(), kani::any());
    kani::assume(lp <= u32::MAX >> 1 && mx <= u32::MAX >> 1);
    r.last_processed_id = StreamId::from(lp);
    r.max_stream_id = StreamId::from(mx);
    r.is_push_enabled = kani::any();
    r.is_extended_connect_protocol_enabled = kani::any();
    r
}

pub(crate) fn recv_push_data_event(r: &mut Recv, s: &mut Stream, len: usize, budgeted: bool) {
    s.pending_recv.push_back(&mut r.buffer, Event::Data(DataEvent { payload: len_only_bytes(len), is_budgeted: budgeted }));
}
pub(crate) fn recv_push_trailers_event(r: &mut Recv, s: &mut Stream) {
    s.pending_recv.push_back(&mut r.buffer, Event::Trailers(HeaderMap::new()));
}
pub(crate) fn recv_set_refused(r: &mut Recv, id: Option<StreamId>) {
    r.refused = id;
}

/// I-recv-pool for one level (connection or stream), derived from the writers of these three numbers:
///   * owed := available - window = released - announced, 0 <= owed <= 2^31-1;
///   * target := available + in_flight is the configured window size, 0 <= target <= 2^31-1
///     (set_target_connection_window / SETTINGS_INITIAL_WINDOW_SIZE are the only writers);
///   * owed + in_flight = bytes received and not yet re-announced = target - window <= 2^31-1:
///     it grows only when data arrives (by sz <= window, so it stays <= target <= the largest target ever
///     configured), and SETTINGS changes move target and window together.
pub(crate) fn wf_recv_level(w: i32, a: i32, in_flight: u32) -> bool {
    let max = MAX_WINDOW_SIZE as i64;
    let (w, a, f) = (w as i64, a as i64, in_flight as i64);
    w <= a && f <= max && a + f >= 0 && a + f <= max && (a - w) + f <= max
}

/// Connection level: SETTINGS never touch the connection window, so it is never negative; but the
/// application may lower the target below what the peer already knows (then available < window and
/// nothing is owed until enough has been consumed).  0 <= window, 0 <= target = available + in_flight <= 2^31-1,
/// and window + in_flight (the most that can ever be outstanding at once) <= 2^31-1: it equals the target
/// at every WINDOW_UPDATE, is unchanged by arriving data and only shrinks on release.
pub(crate) fn wf_recv_conn(w: i32, a: i32, in_flight: u32) -> bool {
    let max = MAX_WINDOW_SIZE as i64;
    let (w, a, f) = (w as i64, a as i64, in_flight as i64);
    w >= 0 && f <= max && a + f >= 0 && a + f <= max && w + f <= max
}

#[cfg(kani)]
mod proofs {
    use super::*;
    use super::super::counts::verif_kani::{any_counts, any_peer, forget_counts, raw_counts};
    use super::super::flow_control::verif_kani::{mk_flow, raw};
    use super::super::state::verif_kani::{abs, any_state, any_state_light, cause_sig, mk_state, rfc_closed, rfc_recv_end_stream, rfc_recv_ended, Abs};
    use super::super::store::verif_kani::{peek, peek_mut, put};
    use super::super::stream::verif_kani::{any_stream_with_state, has_send_task};
    use crate::verif_kani::{any_proto_error, any_stream_id, sig};

    const ID: u32 = 1;

    fn is_goaway(e: &Error, reason: Reason) -> bool {
        let code: u32 = reason.into();
        matches!(sig(e), (1, _, c, 1, _) if c == code)
    }
    fn is_reset(e: &Error, id: u32, reason: Reason) -> bool {
        let code: u32 = reason.into();
        sig(e) == (0, id, code, 1, 0)
    }

    // ------------------------------------------------------------------ connection window (C03)

    // consume_connection_window: the peer exceeding the connection window is a connection error
    // FLOW_CONTROL_ERROR and nothing changes; otherwise window and available drop by sz, in_flight
    // grows by sz (conservation: available + in_flight unchanged).
    // @harness id=recv_consume_connection_window props=C03,C09,C08 kind=complete tier=quick fn=Recv::consume_connection_window
    #[kani::proof]
    fn recv_consume_connection_window() {
        let mut r = any_recv();
        let (w0, a0, f0) = recv_raw(&r);
        kani::assume(wf_recv_conn(w0, a0, f0));
        let sz: u32 = kani::any();
        kani::assume(sz <= MAX_WINDOW_SIZE); // frame size is bounded by the codec (<= 2^24-1)
        let res = r.consume_connection_window(sz);
        let (w1, a1, f1) = recv_raw(&r);
        if (sz as i64) > (if w0 < 0 { 0 } else { w0 as i64 }) {
            assert!(matches!(res, Err(ref e) if is_goaway(e, Reason::FLOW_CONTROL_ERROR)), "recv.consume_conn_window.violation_is_conn_flow_control_error");
            assert!((w1, a1, f1) == (w0, a0, f0), "recv.consume_conn_window.violation_changes_nothing");
        } else {
            assert!(res.is_ok(), "recv.consume_conn_window.within_window_accepted");
            assert!(w1 as i64 == w0 as i64 - sz as i64 && a1 as i64 == a0 as i64 - sz as i64, "recv.consume_conn_window.window_and_available_minus_sz");
            assert!(f1 as i64 == f0 as i64 + sz as i64, "recv.consume_conn_window.in_flight_plus_sz");
            assert!(a1 as i64 + f1 as i64 == a0 as i64 + f0 as i64, "recv.consume_conn_window.available_plus_in_flight_conserved");
        }
        kani::cover!(res.is_err(), "cover.violation");
        kani::cover!(res.is_ok() && sz > 0, "cover.ok");
        std::mem::forget(res);
        std::mem::forget(r);
    }

    // release_connection_capacity: in_flight -= n, available += n (window untouched: the credit reaches
    // the peer only with the WINDOW_UPDATE); the connection task is woken iff an update is now owed.
    // @harness id=recv_release_connection_capacity props=C03,C06,C08 kind=complete tier=quick fn=Recv::release_connection_capacity
    #[kani::proof]
    fn recv_release_connection_capacity() {
        let mut r = any_recv();
        let (w0, a0, f0) = recv_raw(&r);
        kani::assume(wf_recv_conn(w0, a0, f0));
        let n: u32 = kani::any();
        kani::assume(n <= f0); // requires: callers release at most what is in flight (checked by release_capacity / by construction)
        let mut task = any_waker_slot();
        let had = task.is_some();
        r.release_connection_capacity(n, &mut task);
        let (w1, a1, f1) = recv_raw(&r);
        assert!(w1 == w0, "recv.release_conn.window_untouched");
        assert!(a1 as i64 == a0 as i64 + n as i64 && f1 == f0 - n, "recv.release_conn.moves_n_from_in_flight_to_available");
        let owed = a1 as i64 - w1 as i64;
        let update_due = owed > 0 && owed >= (w1 / 2) as i64;
        if update_due {
            assert!(task.is_none(), "recv.release_conn.connection_woken_when_update_owed");
        } else {
            assert!(task.is_some() == had, "recv.release_conn.no_wake_below_threshold");
        }
        kani::cover!(update_due && had, "cover.woken");
        kani::cover!(!update_due && n > 0, "cover.below_threshold");
        std::mem::forget(r);
    }

    // ignore_data: data we discard (reset / unknown / beyond GOAWAY stream) is charged against the
    // connection window and credited back at once: window -sz, available + in_flight unchanged,
    // in_flight unchanged.
    // @harness id=recv_ignore_data props=C03,C09,C08 kind=complete tier=quick fn=Recv::ignore_data
    #[kani::proof]
    fn recv_ignore_data() {
        let mut r = any_recv();
        let (w0, a0, f0) = recv_raw(&r);
        kani::assume(wf_recv_conn(w0, a0, f0));
        let sz: u32 = kani::any();
        kani::assume(sz <= MAX_WINDOW_SIZE);
        let res = r.ignore_data(sz);
        let (w1, a1, f1) = recv_raw(&r);
        if (sz as i64) > (if w0 < 0 { 0 } else { w0 as i64 }) {
            assert!(matches!(res, Err(ref e) if is_goaway(e, Reason::FLOW_CONTROL_ERROR)), "recv.ignore_data.violation_is_conn_flow_control_error");
            assert!((w1, a1, f1) == (w0, a0, f0), "recv.ignore_data.violation_changes_nothing");
        } else {
            assert!(res.is_ok(), "recv.ignore_data.accepted");
            assert!(w1 as i64 == w0 as i64 - sz as i64, "recv.ignore_data.window_charged");
            assert!(a1 == a0 && f1 == f0, "recv.ignore_data.credited_back_at_once");
        }
        kani::cover!(res.is_ok() && sz > 0, "cover.ok");
        std::mem::forget(res);
        std::mem::forget(r);
    }

    // set_target_connection_window: afterwards available + in_flight == target (the new configured
    // size); never advertises beyond it; the connection task is woken iff an update is now owed.
    // @harness id=recv_set_target_connection_window props=C03,C06,C08 kind=complete tier=quick fn=Recv::set_target_connection_window
    #[kani::proof]
    fn recv_set_target_connection_window() {
        let mut r = any_recv();
        let (w0, a0, f0) = recv_raw(&r);
        kani::assume(wf_recv_conn(w0, a0, f0));
        let target: u32 = kani::any();
        kani::assume(target <= MAX_WINDOW_SIZE); // asserted by the public API (`set_target_window_size`)
        let mut task = any_waker_slot();
        let had = task.is_some();
        let res = r.set_target_connection_window(target, &mut task);
        let (w1, a1, f1) = recv_raw(&r);
        assert!(res.is_ok(), "recv.set_target.accepted");
        assert!(w1 == w0 && f1 == f0, "recv.set_target.window_and_in_flight_untouched");
        assert!(a1 as i64 + f1 as i64 == target as i64, "recv.set_target.available_plus_in_flight_is_target");
        let owed = a1 as i64 - w1 as i64;
        if owed > 0 && owed >= (w1 / 2) as i64 {
            assert!(task.is_none(), "recv.set_target.connection_woken_when_update_owed");
        } else {
            assert!(task.is_some() == had, "recv.set_target.no_wake_otherwise");
        }
        kani::cover!(task.is_none() && had, "cover.raised_and_woken");
        kani::cover!((target as i64) < a0 as i64 + f0 as i64, "cover.lowered");
        std::mem::forget(r);
    }

    // ------------------------------------------------------------------ stream-level release (C03, C06)

    // release_capacity(n): n > in-flight => Err and nothing changes; else n moves from in-flight to
    // available at BOTH levels, and the stream is queued for a WINDOW_UPDATE (connection woken) iff one
    // is owed.
    // @harness id=recv_release_capacity props=C03,C06,C16,C08 kind=complete tier=quick fn=Recv::release_capacity
    #[kani::proof]
    #[kani::unwind(3)]
    fn recv_release_capacity() {
        let mut r = any_recv();
        let (cw0, ca0, cf0) = recv_raw(&r);
        kani::assume(wf_recv_conn(cw0, ca0, cf0));
        let mut st = any_stream_with_state(StreamId::from(ID), any_state_light());
        st.is_pending_window_update = false;
        let (sw0, sa0) = raw(&st.recv_flow);
        let sf0 = st.in_flight_recv_data;
        kani::assume(wf_recv_level(sw0, sa0, sf0));
        kani::assume(sf0 <= cf0); // I-recv-pool: a stream's in-flight bytes are part of the connection's
        let mut store = Store::new();
        let key = put(&mut store, st);
        let n: u32 = kani::any();
        let mut task = any_waker_slot();
        let had = task.is_some();
        let mut ptr = store.resolve(key);
        let res = r.release_capacity(n, &mut ptr, &mut task);
        let (cw1, ca1, cf1) = recv_raw(&r);
        let s1 = peek(&store, key).unwrap();
        let (sw1, sa1) = raw(&s1.recv_flow);
        if n > sf0 {
            assert!(matches!(res, Err(UserError::ReleaseCapacityTooBig)), "recv.release_capacity.more_than_in_flight_refused");
            assert!((cw1, ca1, cf1) == (cw0, ca0, cf0) && (sw1, sa1) == (sw0, sa0) && s1.in_flight_recv_data == sf0, "recv.release_capacity.refusal_changes_nothing");
            assert!(!s1.is_pending_window_update && task.is_some() == had, "recv.release_capacity.refusal_queues_nothing");
        } else {
            assert!(res.is_ok(), "recv.release_capacity.accepted");
            assert!(cw1 == cw0 && ca1 as i64 == ca0 as i64 + n as i64 && cf1 == cf0 - n, "recv.release_capacity.connection_level_moves_n");
            assert!(sw1 == sw0 && sa1 as i64 == sa0 as i64 + n as i64 && s1.in_flight_recv_data == sf0 - n, "recv.release_capacity.stream_level_moves_n");
            let owed = sa1 as i64 - sw1 as i64;
            let due = owed > 0 && owed >= (sw1 / 2) as i64;
            assert!(s1.is_pending_window_update == due && recv_pending_window_updates_is_empty(&r) == !due, "recv.release_capacity.stream_queued_iff_update_owed");
            if due {
                assert!(task.is_none(), "recv.release_capacity.connection_woken_when_update_owed");
            }
        }
        kani::cover!(res.is_ok() && s1.is_pending_window_update, "cover.queued");
        kani::cover!(res.is_err(), "cover.refused");
        std::mem::forget(store);
        std::mem::forget(r);
    }

    // ------------------------------------------------------------------ recv_data (C03, C09, C13, C01, C06)

    fn data(len: usize, eos: bool, pad: Option<u8>) -> frame::Data {
        let mut d = frame::Data::new(StreamId::from(ID), len_only_bytes(len));
        d.set_end_stream(eos);
        d.vk_with_padding(pad)
    }

    // Every exit of recv_data.  The frame size is symbolic up to the codec limit (2^24-1 + padding), the
    // stream state, windows, content-length mode, is_recv are symbolic.
    // @harness id=recv_recv_data props=C03,C09,C13,C01,C06,C08 kind=complete tier=quick fn=Recv::recv_data timeout=600
    #[kani::proof]
    #[kani::unwind(3)]
    fn recv_recv_data() {
        let mut r = any_recv();
        let (cw0, ca0, cf0) = recv_raw(&r);
        kani::assume(wf_recv_conn(cw0, ca0, cf0));
        let mut st = any_stream_with_state(StreamId::from(ID), any_state_light());
        st.is_pending_window_update = false;
        let (sw0, sa0) = raw(&st.recv_flow);
        let sf0 = st.in_flight_recv_data;
        kani::assume(wf_recv_level(sw0, sa0, sf0));
        kani::assume(sf0 as i64 + cf0 as i64 <= MAX_WINDOW_SIZE as i64);
        let a0 = abs(&st.state);
        let ignoring = st.state.is_local_error();
        let is_recv = st.is_recv;
        let cl0 = match st.content_length {
            stream::ContentLength::Omitted => None,
            stream::ContentLength::Head => Some(None),
            stream::ContentLength::Remaining(x) => Some(Some(x)),
        };
        let mut store = Store::new();
        let key = put(&mut store, st);
        let len: usize = kani::any();
        kani::assume(len <= (1 << 24) - 1); // FramedRead rejects larger frames (max_frame_size <= 2^24-1)
        let eos: bool = kani::any();
        let pad: Option<u8> = if kani::any() { Some(kani::any()) } else { None };
        let padding: u32 = match pad {
            Some(p) => p as u32 + 1,
            None => 0,
        };
        let sz = len as u32 + padding; // flow-controlled length
        let mut ptr = store.resolve(key);
        let res = r.recv_data(data(len, eos, pad), &mut ptr);
        let (cw1, ca1, cf1) = recv_raw(&r);
        let s1 = peek_mut(&mut store, key).unwrap();
        let (sw1, sa1) = raw(&s1.recv_flow);
        let streaming = matches!(a0, Abs::Open { remote: true, .. } | Abs::HalfClosedLocal(true));
        let cwin = if cw0 < 0 { 0 } else { cw0 as i64 };
        let swin = if sw0 < 0 { 0 } else { sw0 as i64 };

        if !ignoring && !streaming {
            // C09: DATA on a stream that is not receiving a body is a connection PROTOCOL_ERROR
            assert!(matches!(res, Err(ref e) if is_goaway(e, Reason::PROTOCOL_ERROR)), "recv.recv_data.unexpected_data_is_conn_protocol_error");
            assert!((cw1, ca1, cf1) == (cw0, ca0, cf0) && s1.pending_recv.is_empty(), "recv.recv_data.unexpected_data_changes_nothing");
        } else if (sz as i64) > cwin {
            // C09/C03: connection window exceeded
            assert!(matches!(res, Err(ref e) if is_goaway(e, Reason::FLOW_CONTROL_ERROR)), "recv.recv_data.conn_window_violation_is_conn_flow_control_error");
            assert!(s1.pending_recv.is_empty(), "recv.recv_data.conn_window_violation_delivers_nothing");
        } else if ignoring {
            // C09/C03: frames for a stream we reset are tolerated, charged and credited back at once
            assert!(res.is_ok(), "recv.recv_data.after_local_reset_is_tolerated");
            assert!(cw1 as i64 == cw0 as i64 - sz as i64 && ca1 == ca0 && cf1 == cf0, "recv.recv_data.after_local_reset_charged_and_credited");
            assert!((sw1, sa1) == (sw0, sa0) && s1.pending_recv.is_empty() && abs(&s1.state) == a0, "recv.recv_data.after_local_reset_stream_untouched");
        } else {
            // from here on the connection window has been charged
            assert!(cw1 as i64 == cw0 as i64 - sz as i64, "recv.recv_data.conn_window_charged_by_flow_controlled_len");
            let over_stream_window = (sz as i64) > swin;
            let cl_overrun = match cl0 {
                Some(Some(rem)) => (len as u64) > rem,
                Some(None) => len != 0,
                None => false,
            };
            let cl_short_at_end = eos && matches!(cl0, Some(Some(rem)) if rem != len as u64);
            if over_stream_window {
                assert!(matches!(res, Err(ref e) if is_reset(e, ID, Reason::FLOW_CONTROL_ERROR)), "recv.recv_data.stream_window_violation_is_stream_flow_control_error");
            } else if cl_overrun {
                assert!(matches!(res, Err(ref e) if is_reset(e, ID, Reason::PROTOCOL_ERROR)), "recv.recv_data.body_longer_than_content_length_is_stream_error");
            } else if cl_short_at_end {
                assert!(matches!(res, Err(ref e) if is_reset(e, ID, Reason::PROTOCOL_ERROR)), "recv.recv_data.body_shorter_than_content_length_is_stream_error");
            } else {
                assert!(res.is_ok(), "recv.recv_data.legal_frame_accepted");
            }
            if matches!(res, Err(Error::Reset(..))) {
                // the caller (Inner::recv_data) credits exactly sz back on a stream error: here the
                // bytes must still be in flight at connection level, exactly once
                assert!(ca1 as i64 == ca0 as i64 - sz as i64 && cf1 as i64 == cf0 as i64 + sz as i64, "recv.recv_data.stream_error_leaves_sz_in_flight_for_the_caller_to_credit");
                assert!(s1.pending_recv.is_empty(), "recv.recv_data.stream_error_delivers_nothing");
                assert!((sw1, sa1) == (sw0, sa0) && s1.in_flight_recv_data == sf0, "recv.recv_data.stream_error_leaves_stream_window");
            }
            if res.is_ok() {
                // END_STREAM travels with this frame
                let want = if eos { rfc_recv_end_stream(a0) } else { Some(a0) };
                assert!(Some(abs(&s1.state)) == want, "recv.recv_data.end_stream_closes_recv_half_exactly");
                if !is_recv {
                    // receive handle dropped: discard, credit the connection back at once
                    assert!(ca1 == ca0 && cf1 == cf0, "recv.recv_data.dropped_handle_credited_back_at_once");
                    assert!(s1.pending_recv.is_empty(), "recv.recv_data.dropped_handle_delivers_nothing");
                } else {
                    // normal path: both levels charged by sz, padding auto-released, payload in flight
                    assert!(ca1 as i64 + cf1 as i64 == ca0 as i64 + cf0 as i64, "recv.recv_data.conn_available_plus_in_flight_conserved");
                    assert!(cf1 as i64 == cf0 as i64 + len as i64, "recv.recv_data.conn_in_flight_plus_payload_only");
                    assert!(sw1 as i64 == sw0 as i64 - sz as i64, "recv.recv_data.stream_window_charged_by_flow_controlled_len");
                    assert!(s1.in_flight_recv_data as i64 == sf0 as i64 + len as i64, "recv.recv_data.stream_in_flight_plus_payload_only");
                    assert!(sa1 as i64 + s1.in_flight_recv_data as i64 == sa0 as i64 + sf0 as i64, "recv.recv_data.stream_available_plus_in_flight_conserved");
                    // delivery: exactly one Data event with the payload, except empty non-final frames
                    let ev = s1.pending_recv.pop_front(&mut r.buffer);
                    if len == 0 && !eos {
                        assert!(ev.is_none(), "recv.recv_data.empty_non_final_frame_delivers_nothing");
                    } else {
                        assert!(matches!(ev, Some(Event::Data(ref d)) if d.payload.len() == len && d.is_budgeted == !eos), "recv.recv_data.exactly_the_payload_is_delivered");
                        assert!(s1.pending_recv.is_empty(), "recv.recv_data.exactly_one_event");
                        assert!(s1.recv_task.is_none(), "recv.recv_data.reader_woken");
                    }
                    std::mem::forget(ev);
                    // padding released => an owed stream WINDOW_UPDATE is queued
                    let owed = sa1 as i64 - sw1 as i64;
                    if padding > 0 && owed > 0 && owed >= (sw1 / 2) as i64 {
                        assert!(s1.is_pending_window_update, "recv.recv_data.owed_update_after_padding_release_is_queued");
                    }
                }
            }
        }
        kani::cover!(res.is_ok() && is_recv && pad.is_some() && len > 0 && eos, "cover.padded_final");
        kani::cover!(matches!(res, Err(Error::Reset(..))), "cover.stream_error");
        kani::cover!(res.is_ok() && ignoring, "cover.ignored");
        kani::cover!(res.is_ok() && !is_recv && !ignoring, "cover.dropped_handle");
        std::mem::forget(res);
        std::mem::forget(store);
        std::mem::forget(r);
    }

    // ------------------------------------------------------------------ identifiers (C09, C15, C05)

    // Recv::open: wrong initiator parity / push direction => PROTOCOL_ERROR; id below the next expected
    // one => PROTOCOL_ERROR; ids only grow (next' = id + 2 or overflow marker); over the concurrency
    // limit => refused (REFUSED_STREAM owed), Ok(None), counters untouched.
    // @harness id=recv_open props=C09,C05,C18,C04,C08 kind=complete tier=quick fn=Recv::open,Recv::next_stream_id,Dyn::ensure_can_open
    #[kani::proof]
    fn recv_open() {
        let mut r = any_recv();
        let peer = any_peer();
        let mut counts = any_counts(peer);
        let c0 = raw_counts(&counts);
        let (next0, lp0, mx0) = recv_ids(&r);
        let id = any_stream_id();
        let push: bool = kani::any();
        let mode = if push { Open::PushPromise } else { Open::Headers };
        // requires (I-single-slot): the previous refusal has been flushed (Connection::poll_ready) — asserted by the body
        let res = r.open(id, mode, &mut counts);
        let idv: u32 = id.into();
        let is_server = peer == peer::Dyn::Server;
        let legal_initiator = if is_server { !push && idv % 2 == 1 } else { push && idv != 0 && idv % 2 == 0 };
        let (next1, lp1, mx1) = recv_ids(&r);
        assert!(raw_counts(&counts) == c0 && lp1 == lp0 && mx1 == mx0, "recv.open.counters_and_cutoffs_untouched");
        if !legal_initiator {
            assert!(matches!(res, Err(ref e) if is_goaway(e, Reason::PROTOCOL_ERROR)), "recv.open.wrong_initiator_is_conn_protocol_error");
            assert!(next1 == next0 && recv_refused(&r).is_none(), "recv.open.wrong_initiator_changes_nothing");
        } else {
            match next0 {
                None => assert!(matches!(res, Err(ref e) if is_goaway(e, Reason::PROTOCOL_ERROR)), "recv.open.exhausted_id_space_is_conn_protocol_error"),
                Some(n) => {
                    if idv < n {
                        assert!(matches!(res, Err(ref e) if is_goaway(e, Reason::PROTOCOL_ERROR)), "recv.open.id_not_increasing_is_conn_protocol_error");
                        assert!(next1 == next0 && recv_refused(&r).is_none(), "recv.open.id_not_increasing_changes_nothing");
                    } else {
                        let want_next = if idv as u64 + 2 > (u32::MAX >> 1) as u64 { None } else { Some(idv + 2) };
                        assert!(next1 == want_next, "recv.open.next_expected_id_is_id_plus_two_or_exhausted");
                        if c0.3 < c0.2 {
                            assert!(matches!(res, Ok(Some(x)) if x == id) && recv_refused(&r).is_none(), "recv.open.admitted_below_limit");
                        } else {
                            assert!(matches!(res, Ok(None)) && recv_refused(&r) == Some(id), "recv.open.refused_at_limit_with_refusal_owed");
                        }
                    }
                }
            }
        }
        kani::cover!(matches!(res, Ok(None)), "cover.refused");
        kani::cover!(matches!(res, Ok(Some(_))), "cover.admitted");
        std::mem::forget(res);
        forget_counts(counts);
        std::mem::forget(r);
    }

    // @harness id=recv_id_checks props=C09,C15,C08 kind=complete tier=quick fn=Recv::ensure_not_idle,Recv::may_have_created_stream,Recv::maybe_reset_next_stream_id,Recv::ensure_can_reserve,Recv::go_away,Recv::max_stream_id,Recv::last_processed_id,Recv::init_window_sz
    #[kani::proof]
    fn recv_id_checks() {
        let mut r = any_recv();
        let (next0, lp0, mx0) = recv_ids(&r);
        let id = any_stream_id();
        let idv: u32 = id.into();
        // idle <=> id >= next expected id; frames on idle streams are PROTOCOL_ERROR
        let e = r.ensure_not_idle(id);
        match next0 {
            Some(n) => assert!(e.is_ok() == (idv < n) && (e.is_ok() || e == Err(Reason::PROTOCOL_ERROR)), "recv.ensure_not_idle.idle_iff_ge_next"),
            None => assert!(e.is_ok(), "recv.ensure_not_idle.nothing_idle_after_exhaustion"),
        }
        assert!(r.ensure_can_reserve().is_ok() == r.is_push_enabled, "recv.ensure_can_reserve.iff_push_enabled");
        assert!(r.max_stream_id() == StreamId::from(mx0) && r.last_processed_id() == StreamId::from(lp0), "recv.accessors.exact");
        if let Some(n) = next0 {
            // requires (debug_assert): same initiator parity, established by the callers via Peer::is_local_init
            kani::assume(idv != 0 && n % 2 == idv % 2);
            assert!(r.may_have_created_stream(id) == (idv < n), "recv.may_have_created_stream.iff_below_next");
            r.maybe_reset_next_stream_id(id);
            let (next1, _, _) = recv_ids(&r);
            let want = if idv >= n { if idv as u64 + 2 > (u32::MAX >> 1) as u64 { None } else { Some(idv + 2) } } else { Some(n) };
            assert!(next1 == want, "recv.maybe_reset_next_stream_id.only_grows");
        } else {
            assert!(r.may_have_created_stream(id), "recv.may_have_created_stream.after_exhaustion");
        }
        // go_away: the cut-off only shrinks (precondition from the assert: callers pass ids <= current)
        let cut = any_stream_id();
        let cutv: u32 = cut.into();
        kani::assume(cutv <= mx0);
        r.go_away(cut);
        assert!(r.max_stream_id() == cut, "recv.go_away.cutoff_recorded");
        kani::cover!(next0.is_some() && e.is_err(), "cover.idle");
        kani::cover!(cutv < mx0, "cover.cutoff_lowered");
        std::mem::forget(r);
    }

    // ------------------------------------------------------------------ resets, errors, EOF (C07, C06, C17, C18)

    // recv_reset: quota for streams the application has not accepted yet (C18) => ENHANCE_YOUR_CALM
    // GOAWAY beyond it; otherwise the state records the peer's code and ALL waiters are woken.
    // @harness id=recv_recv_reset props=C18,C17,C06,C07,C09,C08 kind=complete tier=quick fn=Recv::recv_reset
    #[kani::proof]
    fn recv_recv_reset() {
        let mut r = any_recv();
        let mut counts = any_counts(any_peer());
        let c0 = raw_counts(&counts);
        let mut st = any_stream_with_state(StreamId::from(ID), any_state_light());
        let a0 = abs(&st.state);
        let pending_accept = st.is_pending_accept;
        let queued = st.is_pending_send;
        let code: u32 = kani::any();
        let res = r.recv_reset(frame::Reset::new(StreamId::from(ID), Reason::from(code)), &mut st, &mut counts);
        let c1 = raw_counts(&counts);
        if pending_accept && c0.7 >= c0.6 {
            assert!(matches!(res, Err(ref e) if is_goaway(e, Reason::ENHANCE_YOUR_CALM)), "recv.recv_reset.quota_exceeded_is_enhance_your_calm");
            assert!(c1 == c0 && abs(&st.state) == a0, "recv.recv_reset.quota_exceeded_changes_nothing");
        } else {
            assert!(res.is_ok(), "recv.recv_reset.accepted");
            assert!(c1.7 == if pending_accept { c0.7 + 1 } else { c0.7 } && c1.7 <= c1.6, "recv.recv_reset.unaccepted_reset_streams_counted_within_quota");
            if !(rfc_closed(a0) && !queued) {
                assert!(cause_sig(&st.state) == Some((0, ID, code, 2, 0)), "recv.recv_reset.peer_code_recorded_exactly");
            }
            assert!(st.recv_task.is_none() && st.push_task.is_none() && !has_send_task(&st), "recv.recv_reset.all_waiters_woken");
        }
        kani::cover!(res.is_err(), "cover.quota");
        kani::cover!(res.is_ok() && pending_accept, "cover.counted");
        std::mem::forget(res);
        std::mem::forget(st);
        forget_counts(counts);
        std::mem::forget(r);
    }

    // handle_error / recv_eof: stream closed (unless it already was), all three waiters woken.
    // @harness id=recv_handle_error props=C07,C06,C17,C08 kind=complete tier=quick fn=Recv::handle_error,Recv::recv_eof
    #[kani::proof]
    #[kani::stub(<crate::proto::Error as std::convert::From<std::io::Error>>::from, stub_error_from_io)]
    fn recv_handle_error() {
        let mut r = any_recv();
        let mut st = any_stream_with_state(StreamId::from(ID), any_state_light());
        let a0 = abs(&st.state);
        let err = Error::Reset(any_stream_id(), Reason::from(kani::any::<u32>()), crate::verif_kani::any_initiator());
        let esig = sig(&err);
        let eof: bool = kani::any();
        if eof {
            r.recv_eof(&mut st);
        } else {
            r.handle_error(&err, &mut st);
        }
        assert!(st.state.is_closed(), "recv.handle_error.stream_closed");
        assert!(st.recv_task.is_none() && st.push_task.is_none() && !has_send_task(&st), "recv.handle_error.all_waiters_woken");
        if !rfc_closed(a0) {
            assert!(abs(&st.state) == Abs::ClosedErr, "recv.handle_error.live_stream_fails");
            if !eof {
                assert!(cause_sig(&st.state) == Some(esig), "recv.handle_error.with_the_connection_error");
            }
        } else {
            assert!(abs(&st.state) == a0, "recv.handle_error.finished_stream_keeps_outcome");
        }
        kani::cover!(!rfc_closed(a0) && eof, "cover.eof");
        kani::cover!(rfc_closed(a0), "cover.already_closed");
        std::mem::forget(st);
        std::mem::forget(err);
        std::mem::forget(r);
    }

    // ------------------------------------------------------------------ polling (C07, C06, C01)

    // poll_data / poll_trailers on an EMPTY queue: closed or ended => Ready (never hangs), error states
    // surface the error, open => Pending with the waker stored.
    // @harness id=recv_poll_empty props=C07,C06,C01,C08 kind=complete tier=quick fn=Recv::poll_data,Recv::poll_trailers,Recv::schedule_recv,Recv::is_end_stream
    #[kani::proof]
    #[kani::unwind(3)]
    fn recv_poll_empty() {
        let mut r = any_recv();
        let mut st = any_stream_with_state(StreamId::from(ID), any_state_light());
        st.recv_task = None;
        let a0 = abs(&st.state);
        let w = noop_waker();
        let cx = Context::from_waker(&w);
        let which: bool = kani::any();
        let pending;
        let ready_none;
        let ready_err;
        if which {
            let p = r.poll_data(&cx, &mut st);
            pending = p.is_pending();
            ready_none = matches!(p, Poll::Ready(None));
            ready_err = matches!(p, Poll::Ready(Some(Err(_))));
            std::mem::forget(p);
        } else {
            let p = r.poll_trailers(&cx, &mut st);
            pending = p.is_pending();
            ready_none = matches!(p, Poll::Ready(None));
            ready_err = matches!(p, Poll::Ready(Some(Err(_))));
            std::mem::forget(p);
        }
        let failed = matches!(a0, Abs::ClosedErr | Abs::ClosedScheduled);
        let ended = rfc_recv_ended(a0) || a0 == Abs::ReservedLocal;
        assert!(ready_err == failed, "recv.poll_empty.reset_or_failed_stream_reports_error");
        assert!(ready_none == (ended && !failed), "recv.poll_empty.clean_end_only_after_end_stream");
        assert!(pending == (!failed && !ended), "recv.poll_empty.pending_only_while_more_can_arrive");
        assert!(pending == st.recv_task.is_some(), "recv.poll_empty.waker_stored_iff_pending");
        // is_end_stream <=> END_STREAM received and everything delivered
        let mut store = Store::new();
        let key = put(&mut store, st);
        let ptr = store.resolve(key);
        assert!(r.is_end_stream(&ptr) == rfc_recv_ended(a0), "recv.is_end_stream.iff_end_received_and_queue_empty");
        kani::cover!(pending, "cover.pending");
        kani::cover!(ready_err, "cover.err");
        kani::cover!(ready_none, "cover.end");
        std::mem::forget(store);
        std::mem::forget(r);
    }

    // apply_local_settings (what OUR acknowledged SETTINGS change on the receive side), one stream in the
    // store: the configured stream window moves to the new value, every stream's window AND available move
    // by the same delta (so what is owed to the peer and what is in flight are untouched), and a
    // WINDOW_UPDATE that is owed afterwards is queued (the lower window also lowers the 50% threshold, and
    // the peer — whose window may now be <= 0 — cannot trigger it by sending).
    // @harness id=recv_apply_local_settings props=C03,C06,C14,C08 kind=bounded bound=streams=1 tier=quick fn=Recv::apply_local_settings timeout=600
    #[kani::proof]
    #[kani::unwind(3)]
    fn recv_apply_local_settings() {
        let mut r = any_recv();
        let old = recv_init_window(&r);
        let mut st = any_stream_with_state(StreamId::from(ID), any_state_light());
        st.is_pending_window_update = false;
        let (sw0, sa0) = raw(&st.recv_flow);
        let sf0 = st.in_flight_recv_data;
        kani::assume(wf_recv_level(sw0, sa0, sf0));
        kani::assume(sa0 as i64 + sf0 as i64 == old as i64); // I-recv-pool: available + in_flight == configured window
        // I-queue (window updates): an update that was already owed is already queued; here: nothing owed yet
        kani::assume(st.recv_flow.unclaimed_capacity().is_none());
        let receiving = st.state.is_recv_streaming();
        let mut store = Store::new();
        let key = put(&mut store, st);
        let target: u32 = kani::any();
        kani::assume(target <= MAX_WINDOW_SIZE); // asserted by the public API / validated on load
        let mut f = frame::Settings::default();
        f.set_initial_window_size(Some(target));
        let res = r.apply_local_settings(&f, &mut store);
        let s1 = peek(&store, key).unwrap();
        let (sw1, sa1) = raw(&s1.recv_flow);
        let delta = target as i64 - old as i64;
        assert!(res.is_ok(), "recv.apply_local_settings.accepted");
        assert!(recv_init_window(&r) == target, "recv.apply_local_settings.new_streams_get_the_new_window");
        assert!(sw1 as i64 == sw0 as i64 + delta && sa1 as i64 == sa0 as i64 + delta, "recv.apply_local_settings.window_and_available_move_by_delta");
        assert!(s1.in_flight_recv_data == sf0, "recv.apply_local_settings.in_flight_untouched");
        assert!(sa1 as i64 + s1.in_flight_recv_data as i64 == target as i64, "recv.apply_local_settings.pool_invariant_kept");
        if receiving && s1.recv_flow.unclaimed_capacity().is_some() {
            assert!(s1.is_pending_window_update && !recv_pending_window_updates_is_empty(&r), "recv.apply_local_settings.owed_window_update_is_queued");
        }
        kani::cover!(delta < 0 && receiving && s1.recv_flow.unclaimed_capacity().is_some(), "cover.lowered_and_owed");
        kani::cover!(delta > 0, "cover.raised");
        std::mem::forget(res);
        std::mem::forget(store);
        std::mem::forget(r);
    }

    // recv_headers: counting (C05), cut-off bookkeeping (C15), direction rules for pseudo fields (C13).
    // The conversion of the field section into an http::Request/Response is stubbed (always succeeds with
    // an empty message): it is the subject of C13's own obligations, not of the counting contract.
    // Oracle: RFC 9113 5.1.2 — a stream is counted from the HEADERS that open it (reserved streams are not
    // counted); HEADERS that would exceed the advertised limit are a stream error REFUSED_STREAM.
    // @harness id=recv_recv_headers_counting props=C05,C15,C13,C18,C06,C08 kind=complete tier=quick fn=Recv::recv_headers timeout=900
    #[kani::proof]
    #[kani::unwind(3)]
    #[kani::stub(crate::proto::peer::Dyn::convert_poll_message, stub_convert_poll_message)]
    fn recv_recv_headers_counting() {
        let peer = any_peer();
        let is_server = peer == peer::Dyn::Server;
        let mut counts = any_counts(peer);
        let c0 = raw_counts(&counts);
        let mut r = any_recv();
        let (next0, lp0, mx0) = recv_ids(&r);
        let mut st = any_stream_with_state(StreamId::from(ID), any_state_light());
        st.is_pending_accept = false;
        st.recv_task = Some(noop_waker());
        kani::assume(!matches!(st.content_length, stream::ContentLength::Head) || true);
        let a0 = abs(&st.state);
        let counted0 = st.is_counted;
        // I-counts: an idle stream has not been counted yet (only opening HEADERS count a stream)
        kani::assume(!(a0 == Abs::Idle && counted0));
        let mut store = Store::new();
        let key = put(&mut store, st);
        let eos: bool = kani::any();
        let info: bool = kani::any();
        let with_protocol: bool = kani::any();
        let f = if is_server { crate::verif_kani::mk_request_headers(StreamId::from(ID), eos, with_protocol) } else { crate::verif_kani::mk_headers(StreamId::from(ID), eos, info) };
        let informational = !is_server && info;
        let mut ptr = store.resolve(key);
        let res = r.recv_headers(f, &mut ptr, &mut counts);
        let c1 = raw_counts(&counts);
        let (next1, lp1, mx1) = recv_ids(&r);
        let s1 = peek_mut(&mut store, key).unwrap();
        assert!(next1 == next0 && mx1 == mx0 && lp1 >= lp0, "recv.recv_headers.last_processed_id_monotone");
        assert!((c1.0, c1.1, c1.2, c1.4, c1.5, c1.6, c1.7, c1.8, c1.9, c1.10, c1.11) == (c0.0, c0.1, c0.2, c0.4, c0.5, c0.6, c0.7, c0.8, c0.9, c0.10, c0.11), "recv.recv_headers.other_counters_untouched");
        match super::super::state::verif_kani::rfc_recv_headers(a0, eos, informational) {
            None => {
                assert!(matches!(res, Err(RecvHeaderBlockError::State(ref e)) if is_goaway(e, Reason::PROTOCOL_ERROR)), "recv.recv_headers.illegal_state_is_conn_protocol_error");
                assert!(c1 == c0 && lp1 == lp0 && s1.pending_recv.is_empty() && !s1.is_pending_accept, "recv.recv_headers.illegal_state_changes_nothing");
            }
            Some(next) => {
                let initial = matches!(a0, Abs::Idle | Abs::ReservedRemote);
                if initial && !counted0 && c0.3 >= c0.2 {
                    // over the advertised limit (possible for promised streams: they are not counted while reserved)
                    assert!(matches!(res, Err(RecvHeaderBlockError::State(ref e)) if is_reset(e, ID, Reason::REFUSED_STREAM)), "recv.recv_headers.over_the_limit_is_refused_stream");
                    assert!(c1 == c0 && !s1.is_counted && s1.pending_recv.is_empty() && !s1.is_pending_accept, "recv.recv_headers.refusal_counts_and_delivers_nothing");
                } else {
                    if initial && !counted0 {
                        assert!(c1.3 == c0.3 + 1 && c1.3 <= c1.2 && s1.is_counted, "recv.recv_headers.opening_headers_count_the_stream_once_within_limit");
                        assert!(lp1 == core::cmp::max(lp0, ID), "recv.recv_headers.last_processed_id_covers_the_stream");
                    } else {
                        assert!(c1.3 == c0.3 && s1.is_counted == counted0, "recv.recv_headers.later_headers_do_not_count_again");
                    }
                    let wrong_direction = is_server && false; // request frames carry no :status here
                    let protocol_refused = is_server && with_protocol && !recv_ext_connect(&r);
                    if protocol_refused {
                        assert!(matches!(res, Err(RecvHeaderBlockError::State(ref e)) if is_reset(e, ID, Reason::PROTOCOL_ERROR)), "recv.recv_headers.protocol_pseudo_without_extended_connect_is_stream_error");
                        assert!(s1.pending_recv.is_empty() && !s1.is_pending_accept, "recv.recv_headers.malformed_message_is_not_delivered");
                    } else if !wrong_direction {
                        assert!(res.is_ok(), "recv.recv_headers.legal_headers_accepted");
                        assert!(abs(&s1.state) == next, "recv.recv_headers.state_goes_to_rfc_successor");
                        let ev = s1.pending_recv.pop_front(&mut r.buffer);
                        assert!(if informational { matches!(ev, Some(Event::InformationalHeaders(_))) } else { matches!(ev, Some(Event::Headers(_))) }, "recv.recv_headers.exactly_one_message_event_of_the_right_kind");
                        std::mem::forget(ev);
                        assert!(s1.pending_recv.is_empty() && s1.recv_task.is_none(), "recv.recv_headers.one_event_and_reader_woken");
                        assert!(s1.is_pending_accept == (is_server && !informational), "recv.recv_headers.server_stream_offered_to_accept_with_its_headers_queued");
                        if s1.is_pending_accept && initial && !counted0 {
                            assert!(lp1 >= ID, "recv.recv_headers.accepted_streams_are_below_last_processed_id");
                        }
                    }
                }
            }
        }
        kani::cover!(res.is_ok() && is_server, "cover.request");
        kani::cover!(res.is_ok() && informational, "cover.informational");
        kani::cover!(matches!(res, Err(RecvHeaderBlockError::State(Error::Reset(..)))), "cover.stream_error");
        std::mem::forget(res);
        forget_counts(counts);
        std::mem::forget(store);
        std::mem::forget(r);
    }

    // enqueue_reset_expiration (C18): a locally reset stream is remembered only within the configured
    // quota; beyond it it is simply not remembered.
    // @harness id=recv_enqueue_reset_expiration props=C18,C19,C08 kind=complete tier=quick fn=Recv::enqueue_reset_expiration
    #[kani::proof]
    #[kani::unwind(3)]
    #[kani::stub(std::time::Instant::now, stub_instant_now)]
    fn recv_enqueue_reset_expiration() {
        let mut r = any_recv();
        let mut counts = any_counts(any_peer());
        let c0 = raw_counts(&counts);
        let st = any_stream_with_state(StreamId::from(ID), any_state_light());
        let local_err = st.state.is_local_error();
        let mut store = Store::new();
        let key = put(&mut store, st);
        let mut ptr = store.resolve(key);
        r.enqueue_reset_expiration(&mut ptr, &mut counts);
        let c1 = raw_counts(&counts);
        let s1 = peek(&store, key).unwrap();
        if local_err && c0.5 < c0.4 {
            assert!(c1.5 == c0.5 + 1 && c1.5 <= c1.4 && s1.reset_at.is_some(), "recv.enqueue_reset_expiration.remembered_within_quota");
        } else {
            assert!(c1 == c0 && s1.reset_at.is_none(), "recv.enqueue_reset_expiration.not_remembered_beyond_quota_or_if_not_local");
        }
        kani::cover!(local_err && c0.5 >= c0.4, "cover.over_quota");
        kani::cover!(s1.reset_at.is_some(), "cover.remembered");
        forget_counts(counts);
        std::mem::forget(store);
        std::mem::forget(r);
    }

    // C13 — RFC 9113 8.1: "Trailers MUST NOT include pseudo-header fields (Section 8.3). An endpoint that receives
    // pseudo-header fields in trailers MUST treat the request or response as malformed."  A malformed message is a stream
    // error PROTOCOL_ERROR and nothing of it is handed to the application.
    // Pre-state: a stream whose body is being received (open or half-closed local), content-length satisfied or absent.
    // Input: a trailers HEADERS frame (END_STREAM set, empty regular field section) that carries `:status` (response
    // side) or `:method` (request side), or no pseudo-header at all (the well-formed twin).
    // @harness id=recv_recv_trailers_pseudo props=C13 kind=complete tier=quick timeout=600 fn=Recv::recv_trailers
    #[kani::proof]
    #[kani::unwind(4)]
    fn recv_recv_trailers_pseudo() {
        use crate::proto::streams::state::verif_kani::state_shape;
        use crate::proto::streams::stream::verif_kani::any_stream_with_state;
        let which: u8 = kani::any();
        kani::assume(which < 3);
        let pseudo = match which {
            0 => crate::frame::Pseudo::default(),
            1 => crate::frame::Pseudo::response(http::StatusCode::OK),
            _ => crate::frame::Pseudo { method: Some(http::Method::GET), ..Default::default() },
        };
        let id = StreamId::from(1);
        let mut frame = crate::frame::Headers::new(id, pseudo, http::HeaderMap::new());
        frame.set_end_stream();
        let mut recv = mk_recv(65_535, 65_535, 0, Ok(StreamId::from(3)));
        // shape 3 = Open{..}, 4 = HalfClosedLocal(..): the two states in which trailers can legally arrive
        let shape: u8 = if kani::any() { 3 } else { 4 };
        let mut store = Store::new();
        let mut s = any_stream_with_state(id, state_shape(shape, 0));
        s.content_length = crate::proto::streams::stream::ContentLength::Omitted;
        let key = crate::proto::streams::store::verif_kani::put_unindexed(&mut store, s);
        let mut ptr = store.resolve(key);
        let r = recv.recv_trailers(frame, &mut ptr);
        if which == 0 {
            assert!(r.is_ok(), "recv.recv_trailers.trailers_without_pseudo_fields_are_accepted");
            assert!(!ptr.pending_recv.is_empty(), "recv.recv_trailers.accepted_trailers_are_queued_for_the_application");
        } else {
            assert!(matches!(r, Err(ref e) if matches!(sig(e), (0, 1, 1, 1, _))), "recv.recv_trailers.pseudo_header_in_trailers_is_stream_protocol_error");
            assert!(ptr.pending_recv.is_empty(), "recv.recv_trailers.malformed_trailers_are_not_handed_to_the_application");
        }
        kani::cover!(which == 1, "cover.status_in_trailers");
        kani::cover!(which == 0 && r.is_ok(), "cover.well_formed_trailers");
        std::mem::forget(r);
        std::mem::forget(store);
        std::mem::forget(recv);
    }

}

/// Stub for `impl From<io::Error> for proto::Error` (renders the message with `to_string()`): keeps the kind.
#[cfg(kani)]
fn stub_error_from_io(src: io::Error) -> Error {
    Error::Io(src.kind(), None)
}

/// Stub for `peer::Dyn::convert_poll_message` (http::Request/Response builders): an empty message of the
/// right direction.  Used only by contracts that do not talk about the message contents.
#[cfg(kani)]
fn stub_convert_poll_message(this: &peer::Dyn, pseudo: crate::frame::Pseudo, fields: HeaderMap, _id: StreamId) -> Result<peer::PollMessage, Error> {
    std::mem::forget(pseudo);
    std::mem::forget(fields);
    if this.is_server() {
        Ok(peer::PollMessage::Server(Request::new(())))
    } else {
        Ok(peer::PollMessage::Client(Response::new(())))
    }
}

/// Stub for `Instant::now()` (a clock_gettime FFI call CBMC cannot execute): an arbitrary fixed instant.
/// Only `Option<Instant>::is_some()` is observed by the contracts that use it.
#[cfg(kani)]
fn stub_instant_now() -> Instant {
    // SAFETY (harness only): Instant is a plain (secs, nanos) pair on Linux.
    unsafe { std::mem::zeroed() }
}
